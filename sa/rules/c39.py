"""C39 RenameChoices renames exactly the mapped choices -- structural clauses.

All slots are filled by role: the mapping is the `renames` *parameter* (and locals that only alias
it), a "lookup" is any `.get` on it, "the renamed value" is whatever local is bound to the result
of `_rename_cell_choice`, "the rows written" are the elements that reach the row-id argument of
the BulkUpdateRecord call, whatever the collecting locals are called and however the guards around
them are spelled (nested if / early continue / swapped arms / comprehension / explicit loop)."""
import ast
from ..fn import World
from ..index import AnalysisError, dotted
from ..astutil import text, short, endswith, calls_in, walk_no_nested
from ..dataflow import DefUse
from ._h_F import (ifn, Res, res_of, scopes, aliases_of, is_none, isinstance_atom, call_arg, absent,
                   canon, strip_wrappers, need, repo_callees)

EXPLANATION = (
  "Decides (R1) that every new value is a single lookup keyed by the old value (so swaps work): "
  "no helper iterates over the mapping rewriting values in sequence; (R2) that only changed cells "
  "and filters are written, formula columns are skipped for cell data but their saved filters are "
  "still renamed; (R3) row-domain discipline: code that "
  "produces row ids for an action works from the table's row ids, never from indices of a "
  "column's raw storage (slot 0 and vacated slots hold right-type defaults). Not decided: the "
  "values themselves.")


def check(run, repo, tier):
  w = World(repo)
  r1_single_step(run, w)
  r2_only_changed(run, w)
  r3_row_domain(run, w)


# ------------------------------------------------------------------------------------ mapping uses
def _parents(root):
  par = {}
  for n in ast.walk(root):
    for ch in ast.iter_child_nodes(n):
      par[id(ch)] = n
  return par


def _mapping_uses(w, fn, mp):
  """[(kind, res, cfg node, ast node)] for every read of the mapping `mp` (a parameter of fn, or a
  local that only aliases it) in fn and the defs/lambdas nested in it. kind: iter / get / in /
  arg / sub / other."""
  outer = res_of(w, fn)
  names = aliases_of(outer, mp)
  out = []
  for r in scopes(w, fn):
    own = names if r is outer else {x for x in names if x not in r.params and x not in r.defs}
    for n in r.cfg.nodes:
      for root in n.exprs:
        par = None
        for x in walk_no_nested(root, into_lambda=True):
          if not (isinstance(x, ast.Name) and isinstance(x.ctx, ast.Load) and x.id in own):
            continue
          if n.kind in ("stmt",) and isinstance(n.stmt, ast.Assign) and n.stmt.value is x:
            continue          # the aliasing assignment itself
          par = par or _parents(root)
          kind = "other"
          p = par.get(id(x))
          # inside the iterable of a loop / comprehension?
          a, in_iter = x, (n.kind == "for" and root is n.stmt.iter)
          while id(a) in par and not in_iter:
            pa = par[id(a)]
            if isinstance(pa, ast.comprehension) and pa.iter is a:
              in_iter = True
            a = pa
          if in_iter:
            kind, site = "iter", root
          elif isinstance(p, ast.Attribute) and p.value is x and \
              isinstance(par.get(id(p)), ast.Call) and par[id(p)].func is p:
            kind, site = ("get" if p.attr == "get" else "method:" + p.attr), par[id(p)]
          elif isinstance(p, ast.Compare) and len(p.ops) == 1 and \
              isinstance(p.ops[0], (ast.In, ast.NotIn)) and p.comparators[0] is x:
            kind, site = "in", p
          elif isinstance(p, ast.Subscript) and p.value is x:
            kind, site = "sub", p
          elif isinstance(p, (ast.Call, ast.keyword)):
            kind, site = "arg", (p if isinstance(p, ast.Call) else par.get(id(p)))
          else:
            site = p if p is not None else x
          out.append((kind, r, n, site))
  return out


def _single_lookup(r, n, call, mp_names, want_default):
  """Is `call` (a .get on the mapping evaluated at node n) a one-step lookup of a plain old value?
  want_default: 'same' -> get(v, v); 'none' -> get(v) / get(v, None). Returns (ok, key expr)."""
  args = list(call.args)
  if call.keywords or not args or len(args) > 2:
    return False, None
  key = args[0]
  # the key is the old value itself, not something looked up first
  if any(isinstance(x, ast.Name) and x.id in mp_names for x in ast.walk(r.expand(key, n.id))):
    return False, key
  if want_default == "same":
    return len(args) == 2 and r.norm(args[1], n.id) == r.norm(key, n.id), key
  return len(args) == 1 or is_none(args[1]), key


def r1_single_step(run, w):
  R1 = run.rule("C39-R1", "each renamed value is one lookup renames.get(old[, old]); the mapping "
                "is never iterated to rewrite values in sequence", floor=3)
  # ---- Choice cells: every result is renames.get(value) (or None)
  c1 = ifn(w, "column.ChoiceColumn._rename_cell_choice")
  ps = c1.fi.params()
  mp, vp = ps[1], ps[2]
  r = res_of(w, c1)
  uses = _mapping_uses(w, c1, mp)
  names = aliases_of(r, mp)
  ok = not any(k == "iter" for (k, _, _, _) in uses) and not r.falls_off_end()
  n_lookup = 0
  for (n, v) in r.returns():
    for (facts, leaf) in Res.cases(v):
      if is_none(leaf):
        continue
      good = False
      if isinstance(leaf, ast.Call) and isinstance(leaf.func, ast.Attribute) and \
          leaf.func.attr == "get" and isinstance(leaf.func.value, ast.Name) and \
          leaf.func.value.id in names:
        good = (len(leaf.args) == 1 or (len(leaf.args) == 2 and is_none(leaf.args[1]))) and \
            not leaf.keywords and text(leaf.args[0]) == vp
      elif isinstance(leaf, ast.Subscript) and isinstance(leaf.value, ast.Name) and \
          leaf.value.id in names and text(leaf.slice) == vp:
        good = r.known(n.id, lambda a, nd: isinstance(a, ast.Compare) and
                       isinstance(a.ops[0], ast.In) and text(a.left) == vp and
                       text(a.comparators[0]) in names, True, facts)
      if not good and isinstance(leaf, ast.Call) and repo_callees(w, c1, leaf):
        raise AnalysisError("%s: the new value comes from %s, which is not followed"
                            % (c1.qualname, short(leaf.func, 40)))
      n_lookup += good
      ok = ok and good
  need(n_lookup or not ok, "a lookup of the cell's value in the mapping", c1)
  run.ob(R1, c1.qualname, "return renames.get(value)", "a Choice cell maps through one lookup",
         ok and n_lookup >= 1, fi=c1.fi)
  # ---- Choice List cells: every element is renames.get(choice, choice) for choice in value
  c2 = ifn(w, "column.ChoiceListColumn._rename_cell_choice")
  ps = c2.fi.params()
  mp, vp = ps[1], ps[2]
  r = res_of(w, c2)
  uses = _mapping_uses(w, c2, mp)
  names = aliases_of(r, mp)
  ok = not any(k == "iter" for (k, _, _, _) in uses)
  n_elts = 0
  for (n, v) in r.returns(expand=False):
    for (facts, leaf) in Res.cases(r.expand(v, n.id)):
      if is_none(leaf):
        continue
      els = r.elements(leaf, n.id)
      if els is None:
        if not ok:
          continue        # already violated (the mapping is iterated): no need to understand more
        raise AnalysisError("%s: how the renamed Choice List %s is built is not understood"
                            % (c2.qualname, short(leaf, 50)))
      if not els:
        ok = False
        continue
      for el in els:
        good = len(el.loops) == 1 and not el.conds and \
            r.norm(strip_wrappers(el.loops[0][1]), el.node.id if el.node else n.id) == vp and \
            isinstance(el.loops[0][0], ast.Name)
        if good:
          tv = el.loops[0][0].id
          e = el.elt
          good = isinstance(e, ast.Call) and isinstance(e.func, ast.Attribute) and \
              e.func.attr == "get" and isinstance(e.func.value, ast.Name) and \
              e.func.value.id in names and len(e.args) == 2 and not e.keywords and \
              text(e.args[0]) == text(e.args[1]) == tv
        n_elts += good
        ok = ok and good
  run.ob(R1, c2.qualname, "tuple(renames.get(choice, choice) for choice in value)",
         "each element of a Choice List maps through one lookup, unmapped elements stay",
         ok and n_elts >= 1, fi=c2.fi)
  # ---- saved filters: every consultation of the mapping is get(v, v) on a value known to be a str
  ua = ifn(w, "useractions.UserActions.RenameChoices")
  mp = ua.fi.params()[3]
  uses = _mapping_uses(w, ua, mp)
  outer = res_of(w, ua)
  names = aliases_of(outer, mp)
  ok = not any(k == "iter" for (k, _, _, _) in uses)
  n_get = 0
  for (k, r, n, site) in uses:
    if k == "get":
      good, key = _single_lookup(r, n, site, names, "same")
      if good:
        kt = {text(key), r.norm(key, n.id)}
        good = r.known(n.id, isinstance_atom(r, kt, {"str"}), True, within=site)
      n_get += good
      ok = ok and good
    elif k in ("sub", "other") or k.startswith("method:"):
      raise AnalysisError("RenameChoices: use of the mapping not modelled: %s" % short(site))
  if ok:
    need(n_get, "a lookup of filter values in the mapping", ua)
  run.ob(R1, ua.qualname, "rename(v) = renames.get(v, v) if isinstance(v, str) else v",
         "filter values map through one lookup; non-strings stay", ok and n_get >= 1, fi=ua.fi)


# ------------------------------------------------------------------------------------------- R2
def _calls_named(fn, *suffixes):
  return [(n, c) for (n, c, nm) in fn.calls() if endswith(nm, *suffixes)]


def _ua_parts(w):
  """Role lookup in RenameChoices: the rename_choices call, the update of the column's own table,
  the update of _grist_Filters."""
  ua = ifn(w, "useractions.UserActions.RenameChoices")
  r = res_of(w, ua)
  ps = ua.fi.params()
  upd = _calls_named(ua, "self.BulkUpdateRecord")
  col_upd, flt_upd = [], []
  for (n, c) in upd:
    a0 = call_arg(c, 0, "table_id")
    if a0 is None:
      continue
    t = r.norm(a0, n.id)
    if t == ps[1]:
      col_upd.append((n, c))
    elif t in ("'_grist_Filters'",):
      flt_upd.append((n, c))
  ren = [(n, c) for (n, c, nm) in ua.calls() if nm and nm.endswith(".rename_choices")]
  return ua, r, ps, ren, col_upd, flt_upd


def _is_formula_atom(r, col_text):
  def pred(a, node):
    return isinstance(a, ast.Call) and isinstance(a.func, ast.Attribute) and \
        a.func.attr == "is_formula" and not a.args and \
        r.norm(a.func.value, node.id) == col_text
  return pred


def r2_only_changed(run, w):
  R2 = run.rule("C39-R2", "only changed cells and filters are written; formula columns are "
                "skipped", floor=4)
  # ---- ChoiceColumn.rename_choices: a cell is collected only when its renamed value is not None
  rc = ifn(w, "column.ChoiceColumn.rename_choices")
  r = res_of(w, rc)
  def renamed_is_none(a, node):
    if not (isinstance(a, ast.Compare) and isinstance(a.ops[0], ast.Is) and
            is_none(a.comparators[0])):
      return False
    v = r.expand(a.left, node.id)
    return isinstance(v, ast.Call) and endswith(dotted(v.func), "self._rename_cell_choice")
  els = _returned_elements(r)
  ok = bool(els) and all(el.node is not None and r.known(el.node.id, renamed_is_none, False)
                         for el in els)
  need(els, "the collected (row id, value) lists", rc)
  run.ob(R2, rc.qualname, "if value is not None: row_ids.append(...); values.append(...)",
         "cells whose value is not mapped are not written", ok, fi=rc.fi)
  # ---- ChoiceListColumn: a list without any mapped element is left alone
  c2 = ifn(w, "column.ChoiceListColumn._rename_cell_choice")
  ps = c2.fi.params()
  r2 = res_of(w, c2)
  names = aliases_of(r2, ps[1])
  def any_mapped(a, node):
    # any(<t> in renames for <t> in value)
    if not (isinstance(a, ast.Call) and dotted(a.func) == "any" and len(a.args) == 1 and
            isinstance(a.args[0], (ast.GeneratorExp, ast.ListComp))):
      return False
    g = a.args[0]
    if len(g.generators) != 1 or g.generators[0].ifs:
      return False
    e, p = canon(g.elt)
    return p and isinstance(e, ast.Compare) and isinstance(e.ops[0], ast.In) and \
        text(e.left) == text(g.generators[0].target) and text(e.comparators[0]) in names and \
        r2.norm(g.generators[0].iter, node.id) == ps[2]
  ok = True
  n_ret = 0
  none_ret = r2.falls_off_end() or bool(r2.bare_returns())
  for (n, v) in r2.returns():
    for (facts, leaf) in Res.cases(v):
      if is_none(leaf):
        none_ret = True
        continue
      n_ret += 1
      ok = ok and r2.known(n.id, any_mapped, True, facts)
  need(n_ret, "a return of the renamed Choice List", c2)
  run.ob(R2, c2.qualname, "if any(v in renames for v in value): ... else None",
         "a Choice List without any mapped element is left alone", ok and none_ret and n_ret >= 1,
         fi=c2.fi)
  # ---- RenameChoices
  ua, r, ps, ren, col_upd, flt_upd = _ua_parts(w)
  if len(ren) != 1:
    raise AnalysisError("RenameChoices: the call of <column>.rename_choices was not identified")
  col_text = r.norm(ren[0][1].func.value, ren[0][0].id)
  is_formula = _is_formula_atom(r, col_text)
  ok = len(col_upd) == 1 and r.known(col_upd[0][0].id, is_formula, False) and \
      r.known(ren[0][0].id, is_formula, False)
  need(col_upd, "the BulkUpdateRecord of the column's own table", ua)
  run.ob(R2, ua.qualname, "if not col.is_formula(): ... BulkUpdateRecord(table_id, ...)",
         "formula columns are not written (they recalculate)", ok, fi=ua.fi)
  need(flt_upd, "the BulkUpdateRecord of _grist_Filters", ua)
  # saved filters are renamed whatever kind of column it is
  ok = bool(flt_upd) and not any(r.guarded(n.id, is_formula, False) or
                                 r.guarded(n.id, is_formula, True) for (n, c) in flt_upd)
  run.ob(R2, ua.qualname, "BulkUpdateRecord('_grist_Filters', ...) not under the is_formula() test",
         "the saved filters of a formula column are renamed too", ok, fi=ua.fi)
  # filters: only changed filters collected, and only the filters of this column
  row_els, val_els = [], []
  for (n, c) in flt_upd:
    rows = call_arg(c, 1, "row_ids")
    cols = call_arg(c, 2, "columns")
    cols = r.expand(cols, n.id) if cols is not None else None
    vals = None
    if isinstance(cols, ast.Dict):
      for k, v in zip(cols.keys, cols.values):
        if k is not None and text(k) == "'filter'":
          vals = v
    if rows is None or vals is None:
      raise AnalysisError("RenameChoices: arguments of the _grist_Filters update not understood")
    e1, e2 = r.elements(rows, n.id), r.elements(vals, n.id)
    if e1 is None or e2 is None:
      raise AnalysisError("RenameChoices: how the _grist_Filters update lists are built is not "
                          "understood")
    row_els += e1
    val_els += e2
  new_texts = set()
  for el in val_els:
    v = r.expand(el.elt, el.node.id)
    if isinstance(v, ast.Call) and dotted(v.func) == "json.dumps" and v.args:
      new_texts.add(text(v.args[0]))
    else:
      raise AnalysisError("RenameChoices: a filter value written is not json.dumps(<new filter>)")
  def unchanged(a, node):
    if not (isinstance(a, ast.Compare) and isinstance(a.ops[0], ast.Eq)):
      return False
    sides = [r.expand(a.left, node.id), r.expand(a.comparators[0], node.id)]
    loads = [s for s in sides if isinstance(s, ast.Call) and dotted(s.func) == "json.loads"]
    other = [s for s in sides if s not in loads]
    return len(loads) == 1 and len(other) == 1 and text(other[0]) in new_texts
  need(row_els and val_els, "the filter rows / texts collected for the update", ua)
  ok = all(el.node is not None and r.known(el.node.id, unchanged, False)
           for el in row_els + val_els)
  run.ob(R2, ua.qualname, "if col_filter != new_filter: collect", "unchanged filters are not "
         "rewritten", ok, fi=ua.fi)
  want_ref = "self._docmodel.get_column_rec(%s, %s).id" % tuple(ps[1:3])
  def this_columns_filters(el):
    if len(el.loops) != 1:
      raise AnalysisError("RenameChoices: the loop that collects filters was not identified")
    it = r.expand(el.loops[0][1], el.node.id)
    if not (isinstance(it, ast.Call) and isinstance(it.func, ast.Attribute) and
            it.func.attr == "filter_records" and not it.args):
      raise AnalysisError("RenameChoices: the filters are not taken from a filter_records(...) "
                          "call that can be read (%s)" % short(it, 60))
    kws = {k.arg: text(k.value) for k in it.keywords}
    return kws == {"colRef": want_ref} and \
        text(it.func.value) == "self._engine.tables['_grist_Filters']"
  ok = bool(row_els) and all(this_columns_filters(el) for el in row_els + val_els) and \
      all(isinstance(el.loops[0][0], ast.Name) and
          text(el.elt) == el.loops[0][0].id + ".id" for el in row_els)
  run.ob(R2, ua.qualname, "filters.filter_records(colRef=<this column>)", "only this column's "
         "saved filters are considered", ok, fi=ua.fi)


def _returned_elements(r):
  """Elements of every list returned (directly or as a member of a returned tuple)."""
  out = []
  for (n, v) in r.returns():
    parts = v.elts if isinstance(v, ast.Tuple) else [v]
    for p in parts:
      els = r.elements(p, n.id)
      if els is None:
        raise AnalysisError("%s: how the returned list %s is built is not understood"
                            % (r.fn.qualname, short(p)))
      out += els
  return out


# ------------------------------------------------------------------------------------------- R3
def r3_row_domain(run, w):
  R3 = run.rule("C39-R3", "row ids handed to actions come from the table's row ids, not from "
                "indices of raw column storage", floor=3)
  # (a) no column method that enumerates its raw storage returns / collects the indices
  for fi in w.repo.all_functions():
    if fi.module.name not in ("column", "lookup"):
      continue
    for n in ast.walk(fi.node):
      if isinstance(n, (ast.For, ast.comprehension)) and isinstance(n.iter, ast.Call) and \
          dotted(n.iter.func) == "enumerate" and n.iter.args and \
          isinstance(n.target, ast.Tuple):
        fn = w.fn_of(fi)
        if not res_of(w, fn).norm(n.iter.args[0]).endswith("._data"):
          continue
        idx = text(n.target.elts[0])
        # does the index escape through a return value?
        du = DefUse(fn)
        escapes = False
        for rr in ast.walk(fi.node):
          if isinstance(rr, ast.Return) and rr.value is not None:
            if du.flows_from(lambda x: isinstance(x, ast.Name) and x.id == idx, rr.value):
              escapes = True
        run.ob(R3, fi.qualname, "for <index>, ... in enumerate(self._data)",
               "storage indices (which include slot 0 and vacated slots) do not leave the column "
               "as row ids", not escapes, fi=fi, node=n)
  rc = ifn(w, "column.ChoiceColumn.rename_choices")
  ps = rc.fi.params()
  r = res_of(w, rc)
  ok = len(ps) >= 3
  ids = []
  if ok:
    for (n, v) in r.returns():
      if not (isinstance(v, ast.Tuple) and len(v.elts) == 2):
        raise AnalysisError("rename_choices: result is not a (row ids, values) pair")
      ids += r.elements(v.elts[0], n.id) or []
    need(ids, "the row ids collected for the result", rc)
    ok = bool(ids) and all(
      len(el.loops) == 1 and isinstance(el.loops[0][0], ast.Name) and
      r.norm(el.loops[0][1], el.node.id) == ps[2] and text(el.elt) == el.loops[0][0].id
      for el in ids)
  run.ob(R3, rc.qualname, "for row_id in <row ids parameter>", "candidate rows are the rows the "
         "caller names", ok, fi=rc.fi)
  ua, r, ps, ren, col_upd, flt_upd = _ua_parts(w)
  need(len(ren) == 1, "the call of <column>.rename_choices", ua)
  ok = True
  if ok:
    n, c = ren[0]
    rows = call_arg(c, 1, "table_row_ids")
    ok = rows is not None and \
        r.norm(rows, n.id) == "self._engine.tables[%s].row_ids" % ps[1]
  run.ob(R3, ua.qualname, "col.rename_choices(renames, table.row_ids)",
         "the rows considered are exactly the table's existing rows", ok, fi=ua.fi)
  # the ids returned by rename_choices are the ids given to the update action
  need(len(col_upd) == 1, "the BulkUpdateRecord of the column's own table", ua)
  ok = True
  if ok:
    n, c = col_upd[0]
    a = call_arg(c, 1, "row_ids")
    v = r.expand(a, n.id) if a is not None else None
    ok = isinstance(v, ast.Subscript) and text(v.slice) == "0" and \
        isinstance(v.value, ast.Call) and isinstance(v.value.func, ast.Attribute) and \
        v.value.func.attr == "rename_choices"
  run.ob(R3, ua.qualname, "row_ids, values = col.rename_choices(...); BulkUpdateRecord(table_id, "
         "row_ids, ...)", "the action updates the rows the column reported", ok, fi=ua.fi)


CO = "sandbox/grist/column.py"
U = "sandbox/grist/useractions.py"
VARIANTS = [
  ("enumerate-raw-storage", CO, """    for row_id in table_row_ids:
      value = self.raw_get(row_id)
      if value is not None and self.type_obj.is_right_type(value):""",
   """    for row_id, value in enumerate(self._data):
      if value is not None and self.type_obj.is_right_type(value):""", "C39-R3"),
  ("caller-passes-range", U, "col.rename_choices(renames, table.row_ids)",
   "col.rename_choices(renames, range(col.size()))", "C39-R3"),
  ("sequential-renames", CO, """    if any((v in renames) for v in value):
      return tuple(renames.get(choice, choice) for choice in value)
    return None""", """    if any((v in renames) for v in value):
      for old, new in renames.items():
        value = tuple(new if c == old else c for c in value)
      return value
    return None""", "C39-R1"),
  ("choice-double-lookup", CO, "    return renames.get(value)\n", "    return renames.get(renames.get(value), renames.get(value))\n", "C39-R1"),
  ("writes-unmapped-cells", CO, """        if value is not None:
          row_ids.append(row_id)
          values.append(value)""", """        row_ids.append(row_id)
        values.append(value)""", "C39-R2"),
  ("formula-columns-written", U, "    if not col.is_formula():\n      row_ids, values = col.rename_choices",
   "    if True:\n      row_ids, values = col.rename_choices", "C39-R2"),
  ("formula-column-filters-skipped", U, """    if not col.is_formula():
      row_ids, values = col.rename_choices(renames, table.row_ids)
      values = [encode_object(v) for v in values]
      self.BulkUpdateRecord(table_id, row_ids, {col_id: values})
""", """    if col.is_formula():
      return
    row_ids, values = col.rename_choices(renames, table.row_ids)
    values = [encode_object(v) for v in values]
    self.BulkUpdateRecord(table_id, row_ids, {col_id: values})
""", "C39-R2"),
  ("all-filters-rewritten", U, "      if col_filter != new_filter:\n", "      if new_filter:\n", "C39-R2"),
  ("filter-rename-non-strings", U, "      return renames.get(value, value) if isinstance(value, str) else value",
   "      return renames.get(str(value), value)", "C39-R1"),
  ("other-columns-filters", U, "    col_filters = filters.filter_records(colRef=colRef)",
   "    col_filters = filters.filter_records()", "C39-R2"),
]
