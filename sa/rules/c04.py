"""C04 Failed bundles leave no trace -- structural clauses."""
import ast
from ..fn import World
from ..index import AnalysisError, dotted
from ..astutil import text, short, endswith, calls_in, walk_no_nested
from ..dataflow import DefUse
from .. import events as E
from .c01 import INVERSE, undo_ctor_of, undo_records
from ._h_E import decide, anchors_of, cname, calls_E, nodes_calling_E, Flow, arg, argn, nargs, mutation_nodes_deep

EXPLANATION = (
  "Decides that the rollback path exists on every failing path and can work: apply_user_actions "
  "takes a checkpoint before the guarded loop and undoes to it in a catch-all handler that always "
  "re-raises (R1); record-level doc actions append their inverse before the first cell is "
  "touched, so a failure at any sub-step is covered by an undo already on the list (R2); every "
  "schema doc action runs under a fresh schema clone that the failure handler reinstates and "
  "rebuilds from (R3); formula evaluation undoes side effects on error and read-only evaluation "
  "always undoes (R4); only the enumerated calls run outside the guarded region (R5); before the bundle-level rollback "
  "the calculated changes still pending (engine-side map and calc summary) are turned into actions "
  "so that the rollback reverts them too, and after it pending recalculation of data columns is "
  "dropped (R6). Not decided: "
  "that every conceivable sub-step failure is recoverable by the recorded inverse.")

RECORD_ACTIONS = ("BulkAddRecord", "BulkRemoveRecord", "BulkUpdateRecord", "ReplaceTableData")


def check(run, repo, tier):
  # each rule is decided on the code as written; when it is not satisfied there, it is asked again
  # on the view with private helpers inlined (see _h_E.decide), so statements moved into a new
  # helper keep their place
  import os
  _HERE = os.path.dirname(os.path.abspath(__file__))
  decide(run, repo, [r1_rollback, r2_undo_first, r3_schema_restore, r4_formula_side_effects, r5_uncovered, r6_rollback_calc_state],
         anchors_of(os.path.join(_HERE, "c04.py"), os.path.join(_HERE, "c01.py"), os.path.join(_HERE, "_h_E.py"), os.path.join(_HERE, "../events.py")))


def _catch_all(h):
  if h.type is None:
    return True
  names = h.type.elts if isinstance(h.type, ast.Tuple) else [h.type]
  return any(isinstance(n, ast.Name) and n.id in ("Exception", "BaseException") for n in names)


def r1_rollback(run, w):
  R1 = run.rule("C04-R1", "apply_user_actions: checkpoint before the guarded loop; catch-all "
                "handler undoes to that checkpoint on every path and re-raises", floor=5)
  fn = w.fn("engine.Engine.apply_user_actions")
  cfg = fn.cfg
  p_actions = fn.fi.params()[1]
  lflow = Flow(fn)
  def applies_user_action(c):
    """the call that runs one user action: _apply_one_user_action(ua), or its body written in
    place -- getattr(<x>.user_actions, <name>)(*ua), the bound method possibly held in a local"""
    if endswith(cname(fn, c), "_apply_one_user_action"):
      return True
    ks = lflow.where(c)
    g = lflow.resolve(c.func, ks[0])[0] if ks else c.func
    return isinstance(g, ast.Call) and dotted(g.func) == "getattr" and bool(g.args) and \
        endswith(cname(fn, g.args[0]) or "", "user_actions")
  trys = [s for s in ast.walk(fn.node) if isinstance(s, ast.Try)]
  main = None
  for t in trys:
    if any(applies_user_action(c) for c in calls_in(t.body)):
      main = t
  if main is None:
    raise AnalysisError("apply_user_actions: guarded user-action loop not found")
  def over_actions(s_):
    ks = lflow.where(s_)
    it = lflow.inline(s_.iter, ks[0], stop=(p_actions,)) if ks else s_.iter
    while isinstance(it, ast.Call) and dotted(it.func) in ("list", "iter", "tuple", "enumerate") \
        and len(it.args) == 1:
      it = it.args[0]
    return isinstance(it, ast.Name) and it.id == p_actions
  loops = [s for b_ in main.body for s in ast.walk(b_)
           if isinstance(s, ast.For) and over_actions(s)]
  if not loops:
    raise AnalysisError("apply_user_actions: no loop over the user actions found in the guarded "
                        "region")
  run.ob(R1, fn.qualname, "for user_action in %s: ... _apply_one_user_action" % p_actions,
         "every user action of the bundle is applied inside the guarded region",
         len(loops) == 1 and any(applies_user_action(c) for c in calls_in(loops[0].body)),
         fi=fn.fi, node=main)
  # checkpoint variable
  cps = [(n, n.stmt.targets[0].id) for n in cfg.nodes if n.kind == "stmt" and
         isinstance(n.stmt, ast.Assign) and isinstance(n.stmt.targets[0], ast.Name) and
         isinstance(n.stmt.value, ast.Call) and
         endswith(cname(fn, n.stmt.value), "_get_undo_checkpoint")]
  if not cps:
    raise AnalysisError("apply_user_actions: checkpoint definition not found")
  cpnode, cpvar = cps[0]
  flow = Flow(fn)
  first_try = [n for n in cfg.nodes if n.stmt is not None and n.stmt in main.body]
  ok = all(cfg.dominated_by(n.id, {cpnode.id}) for n in first_try)
  run.ob(R1, fn.qualname, "%s = self._get_undo_checkpoint()" % cpvar,
         "checkpoint is taken before the guarded region", ok, fi=fn.fi, node=cpnode.stmt)
  # fresh ActionGroup precedes the checkpoint
  newgrp = {n.id for n in cfg.nodes if n.kind == "stmt" and isinstance(n.stmt, ast.Assign) and
            text(n.stmt.targets[0]) == "self.out_actions" and isinstance(n.stmt.value, ast.Call)
            and endswith(dotted(n.stmt.value.func), "ActionGroup")}
  run.ob(R1, fn.qualname, "self.out_actions = ActionGroup() before the checkpoint",
         "the checkpoint refers to this bundle's own action lists",
         bool(newgrp) and cfg.dominated_by(cpnode.id, newgrp) and
         not (cfg.reach_after({cpnode.id}) & newgrp), fi=fn.fi, missing=not newgrp)
  handlers = [h for h in main.handlers if _catch_all(h)]
  run.ob(R1, fn.qualname, "except Exception", "the guarded region has a catch-all handler",
         len(handlers) >= 1 and _catch_all(main.handlers[0]), fi=fn.fi, node=main)
  for h in handlers:
    hn = [n for n in cfg.nodes if n.kind == "handler" and n.stmt is h]
    undo = {n.id for (n, c, nm) in calls_E(fn) if endswith(nm, "_undo_to_checkpoint") and
            nargs(c) == 1 and argn(w, fn, c, 0) is not None and
            flow.denotes(argn(w, fn, c, 0), n.id, lambda v, k: v is cpnode.stmt.value)}
    for x in hn:
      ok = bool(undo) and cfg.postdominated_by(x.id, undo,
                                               exits={cfg.exit.id, cfg.raise_exit.id})
      run.ob(R1, fn.qualname, "handler -> self._undo_to_checkpoint(%s)" % cpvar,
             "every path through the handler undoes to the checkpoint taken before the bundle",
             ok, fi=fn.fi, node=h, missing=not undo)
      # the handler never completes normally: it re-raises
      after = cfg.reach_after({x.id})
      body_nodes = {n.id for n in cfg.nodes if n.stmt is not None and
                    any(n.stmt is s for b in [h.body] for s in ast.walk(ast.Module(body=b, type_ignores=[])))}
      falls = any((cfg.succ[b] - body_nodes - {cfg.raise_exit.id}) for b in body_nodes
                  if b in after)
      run.ob(R1, fn.qualname, "handler re-raises",
             "a failed bundle is reported as failed (no normal completion out of the handler)",
             not falls, fi=fn.fi, node=h)


def r2_undo_first(run, w):
  R2 = run.rule("C04-R2", "record-level doc actions append their inverse before the first "
                "mutation, so any later sub-step failure is recoverable", floor=4)
  names = w.action_types()
  for an in RECORD_ACTIONS:
    fn = w.fn("docactions.DocActions." + an)
    cfg = fn.cfg
    muts = mutation_nodes_deep(w, fn, exclude=set(w.doc_action_names()))
    prim = set()
    for (n, c, x) in undo_records(w, fn):
      k = undo_ctor_of(fn, c, names, expr=x)
      if k and k[0] in INVERSE[an][0]:
        prim.add(n.id)
    if not muts:
      raise AnalysisError("%s: no mutation recognised" % fn.qualname)
    bad = [m for m in sorted(muts) if not cfg.dominated_by(m, prim)]
    wit = None
    if bad:
      wit = cfg.describe_path(cfg.path(cfg.entry.id, {bad[0]}, removed=prim))
    run.ob(R2, fn.qualname, "undo record dominates every mutation",
           "the inverse is on the undo list before any cell changes", not bad, witness=wit,
           fi=fn.fi, node=cfg.nodes[bad[0]].stmt if bad else None, missing=not prim)


def r3_schema_restore(run, w):
  R3 = run.rule("C04-R3", "every schema doc action runs under a fresh clone of the schema which "
                "the failure handler reinstates, rebuilds usercode from, and re-raises", floor=6)
  sa = w.schema_action_names()
  want = {"AddColumn", "RemoveColumn", "RenameColumn", "ModifyColumn", "AddTable", "RemoveTable",
          "RenameTable"}
  run.ob(R3, "actions.schema_actions", "schema_actions == 7 schema action names",
         "the set that triggers schema protection is exactly the schema-changing actions",
         set(sa) == want, nontrivial=False)
  fn = w.fn("engine.Engine.apply_doc_action")
  cfg = fn.xcfg     # the handler is reachable only through exceptional edges
  # dispatch node
  dflow = Flow(fn, cfg)
  def is_dispatch(c, k):
    """getattr(<x>.doc_actions, name)(...): the getattr written in place or held in a local."""
    g = dflow.resolve(c.func, k)[0]
    return isinstance(g, ast.Call) and dotted(g.func) == "getattr" and bool(g.args) and \
        endswith(cname(fn, dflow.inline(g.args[0], k)) or "", "doc_actions")
  disp = {n.id for (n, c, nm) in calls_E(fn, cfg) if is_dispatch(c, n.id)}
  if not disp:
    raise AnalysisError("apply_doc_action: dispatch not found")
  # the schema-action test: the edges on which `<applied action's type name> in schema_actions`
  # is known to hold, however the branch is spelled
  flow = Flow(fn, cfg)
  param = fn.fi.params()[1]
  def names_own_type(x, k):
    t = flow.itext(x, k, stop=(param,))
    return t in ("%s.__class__.__name__" % param, "type(%s).__name__" % param)
  seen_tests = []
  def is_schema_action(e, i):
    if isinstance(e, ast.Compare) and len(e.ops) == 1 and isinstance(e.ops[0], ast.In) and \
        endswith(dotted(e.comparators[0]), "schema_actions"):
      if not any(x is e.left for (x, _) in seen_tests):
        seen_tests.append((e.left, i))
      return True
    return False
  edges = flow.edges_where(is_schema_action, True)
  if len(seen_tests) != 1 or not edges:
    raise AnalysisError("apply_doc_action: `action_name in actions.schema_actions` test not found")
  tnode = cfg.nodes[next(iter(edges))[0]]
  tested, tested_at = seen_tests[0]
  run.ob(R3, fn.qualname, "%s in actions.schema_actions" % text(tested),
         "the protection test is on the applied action's "
         "own type name", names_own_type(tested, tested_at), fi=fn.fi, node=tnode.stmt)
  # clone nodes: <var> = schema.clone_schema(self.schema)
  def is_clone(x, k=None):
    return isinstance(x, ast.Call) and endswith(dotted(x.func), "clone_schema") and \
        nargs(x) == 1 and bool(x.args) and text(x.args[0]) == "self.schema"
  clones = {}
  for n in cfg.nodes:
    if n.kind == "stmt" and isinstance(n.stmt, ast.Assign) and is_clone(n.stmt.value) and \
        isinstance(n.stmt.targets[0], ast.Name):
      clones[n.id] = n.stmt.targets[0].id
  body_first = {b for (a_, b) in edges}
  # on the schema-action branch every path to the dispatch takes a fresh clone
  reach = cfg.reach(body_first, removed=set(clones))
  ok = bool(clones) and not (reach & disp) and not (body_first & disp)
  wit = None
  if not ok and clones:
    for b_ in body_first:
      p_ = cfg.path(b_, disp, removed=set(clones))
      if p_:
        wit = cfg.describe_path(p_)
  run.ob(R3, fn.qualname, "saved = schema.clone_schema(self.schema) on the schema-action branch",
         "a fresh copy of the schema is taken before every schema doc action is dispatched", ok,
         witness=wit, fi=fn.fi, node=tnode.stmt, missing=not clones)
  # _schema_updated = True before dispatch on that branch
  flag = {n.id for n in cfg.nodes if n.kind == "stmt" and isinstance(n.stmt, ast.Assign) and
          text(n.stmt.targets[0]) == "self._schema_updated" and
          isinstance(n.stmt.value, ast.Constant) and n.stmt.value.value is True}
  reach = cfg.reach(body_first, removed=flag)
  run.ob(R3, fn.qualname, "self._schema_updated = True on the schema-action branch",
         "the consistency assertion is armed before the schema can change",
         bool(flag) and not (reach & disp), fi=fn.fi, missing=not flag)
  # the handler around the dispatch
  dstmts = [cfg.nodes[d].stmt for d in disp]
  trys = [s for s in ast.walk(fn.node) if isinstance(s, ast.Try) and
          any(x is d for d in dstmts for b_ in s.body for x in ast.walk(b_))]
  if not trys:
    raise AnalysisError("apply_doc_action: dispatch is not inside a try")
  trys.sort(key=lambda t_: sum(1 for _ in ast.walk(t_)))
  tr = trys[0]      # innermost
  run.ob(R3, fn.qualname, "except Exception around the dispatch",
         "a failing doc action is caught for schema restoration",
         bool(tr.handlers) and _catch_all(tr.handlers[0]), fi=fn.fi, node=tr)
  h = tr.handlers[0] if tr.handlers else None
  if h is not None:
    hn = [n for n in cfg.nodes if n.kind == "handler" and n.stmt is h][0]
    hbody = {id(x) for s_ in h.body for x in ast.walk(s_)}
    def clone_value(e, k):
      """`e` (evaluated at node k of apply_doc_action) is this call's clone (or the None standing
      for 'no clone taken')."""
      ls = flow.leaves(e, k)
      return any(is_clone(l.expr) for l in ls) and \
          all(is_clone(l.expr) or (isinstance(l.expr, ast.Constant) and l.expr.value is None)
              for l in ls)
    def only_if_cloned(k):
      """Inside the handler, node k is conditional only on a clone having been taken."""
      ok_ = True
      for (t, pol, i) in flow.required_facts(k):
        if id(cfg.nodes[i].stmt) not in hbody:
          continue     # a test outside the handler
        ok_ = ok_ and pol is True and isinstance(t, ast.Name) and \
            any(is_clone(l.expr) for l in flow.leaves(t, i))
      return ok_
    def forced_rebuild(rfn, rcfg, rnodes, start):
      """From every restore node, on every path, rebuild_usercode() runs with rebuilding forced."""
      forced = {n.id for n in rcfg.nodes if n.kind == "stmt" and isinstance(n.stmt, ast.Assign)
                and text(n.stmt.targets[0]) == "self._should_rebuild_usercode" and
                isinstance(n.stmt.value, ast.Constant) and n.stmt.value.value is True}
      rebuild = nodes_calling_E(rfn, lambda c, nm, f: nm == "self.rebuild_usercode", rcfg)
      if start is not None:
        rebuild = {r for r in rebuild if r in rcfg.reach_after({start})}
      return bool(rnodes) and bool(rebuild) and all(
        rcfg.postdominated_by(r, rebuild, exits={rcfg.exit.id, rcfg.raise_exit.id})
        for r in rnodes) and all(rcfg.dominated_by(r, forced) for r in rebuild)
    def schema_stores(stmts):
      return [s_ for s_ in ast.walk(ast.Module(body=stmts, type_ignores=[]))
              if isinstance(s_, ast.Assign) and text(s_.targets[0]) == "self.schema"]
    restore = schema_stores(h.body)
    ok_value = ok_rebuild = ok_guard = False
    if len(restore) == 1:
      ks = flow.where(restore[0])
      ok_value = bool(ks) and all(clone_value(restore[0].value, k) for k in ks)
      ok_rebuild = forced_rebuild(fn, cfg, set(ks), hn.id)
      ok_guard = all(only_if_cloned(k) for k in ks)
    elif not restore:
      # the restore may have been extracted into a helper of the engine called from the handler
      from ._h_E import own_helper, args_by_params
      for (n, c, nm) in calls_E(fn, cfg):
        if id(n.stmt) not in hbody:
          continue
        hlp = own_helper(w, fn, c)
        if hlp is None:
          continue
        hfn = w.fn_of(hlp)
        hst = schema_stores(hlp.node.body)
        if len(hst) != 1:
          continue
        hflow = Flow(hfn, hfn.xcfg)
        hps = hlp.params()[1:]
        b_ = args_by_params(c, hps)
        hks = hflow.where(hst[0])
        src = hflow.itext(hst[0].value, hks[0], stop=hps) if hks else None
        ok_value = b_ is not None and src in hps and src in b_ and clone_value(b_[src], n.id)
        ok_rebuild = forced_rebuild(hfn, hfn.xcfg, set(hks), None) and \
            not any(hflow.required_facts(k) for k in hks)
        ok_guard = only_if_cloned(n.id)
    run.ob(R3, fn.qualname, "self.schema = <this call's clone>",
           "the handler reinstates the copy taken for this very doc action (a local, not state "
           "shared across doc actions)", ok_value, fi=fn.fi, node=h)
    run.ob(R3, fn.qualname, "restore -> _should_rebuild_usercode = True -> rebuild_usercode()",
           "tables and columns are rebuilt from the restored schema even when rebuilding was "
           "suppressed", ok_rebuild, fi=fn.fi, node=h)
    run.ob(R3, fn.qualname, "handler re-raises",
           "the failure still fails the bundle (so apply_user_actions rolls the data back)",
           cfg.exit.id not in cfg.reach_after({hn.id}, removed={n.id for n in cfg.nodes
                                                             if n.kind == "raise_stmt"})
           or _handler_always_raises(cfg, hn, h), fi=fn.fi, node=h)
    # the restore is conditional only on the clone itself
    run.ob(R3, fn.qualname, "if <clone>: restore", "the restore is conditional only on a clone "
           "having been taken", ok_guard, fi=fn.fi, node=h)


def _handler_always_raises(cfg, hn, h):
  """No path from the handler entry reaches a node outside the handler body other than RAISE."""
  body_ids = set()
  inner = set(id(x) for s in h.body for x in ast.walk(s))
  for n in cfg.nodes:
    if n.stmt is not None and id(n.stmt) in inner:
      body_ids.add(n.id)
  seen = cfg.reach_after({hn.id})
  for b in seen & body_ids:
    for s in cfg.succ[b]:
      if s not in body_ids and s != cfg.raise_exit.id:
        return False
  return True


def r4_formula_side_effects(run, w):
  R4 = run.rule("C04-R4", "formula evaluation: checkpoint before the user code, undo in the error "
                "branch before returning or re-raising; read-only evaluation undoes in finally",
                floor=3)
  fn = w.fn("engine.Engine._recompute_one_cell")
  cfg = fn.cfg
  cps = [(n, n.stmt.targets[0].id) for n in cfg.nodes if n.kind == "stmt" and
         isinstance(n.stmt, ast.Assign) and isinstance(n.stmt.targets[0], ast.Name) and
         isinstance(n.stmt.value, ast.Call) and
         endswith(cname(fn, n.stmt.value), "_get_undo_checkpoint")]
  methods = nodes_calling_E(fn, lambda c, nm, f: endswith(nm, "col.method") or
                             (isinstance(c.func, ast.Attribute) and c.func.attr == "method"))
  if not cps or not methods:
    raise AnalysisError("_recompute_one_cell: checkpoint or user-code call not found")
  cpnode, cpvar = cps[0]
  run.ob(R4, fn.qualname, "%s = self._get_undo_checkpoint() before col.method(...)" % cpvar,
         "side effects of user code are bracketed by a checkpoint",
         all(cfg.dominated_by(m, {cpnode.id}) for m in methods), fi=fn.fi, node=cpnode.stmt)
  flow = Flow(fn)
  undo = {n.id for (n, c, nm) in calls_E(fn) if endswith(nm, "_undo_to_checkpoint") and
          nargs(c) == 1 and argn(w, fn, c, 0) is not None and
          flow.denotes(argn(w, fn, c, 0), n.id, lambda v, k: v is cpnode.stmt.value)}
  def catches_everything(h):
    if h.type is None:
      return True
    hs = h.type.elts if isinstance(h.type, ast.Tuple) else [h.type]
    return any(dotted(x) == "BaseException" for x in hs)
  bare = [n for n in cfg.nodes if n.kind == "handler" and catches_everything(n.stmt)]
  run.ob(R4, fn.qualname, "bare except around the user code",
         "every exception of user code, BaseException included, reaches the undoing branch",
         len(bare) >= 1, fi=fn.fi)
  for b in bare:
    ok = bool(undo) and cfg.postdominated_by(b.id, undo, exits={cfg.exit.id, cfg.raise_exit.id})
    run.ob(R4, fn.qualname, "except: ... self._undo_to_checkpoint(%s)" % cpvar,
           "every path out of the error branch (returning the error value or re-raising the order "
           "error) first undoes the formula's doc actions", ok, fi=fn.fi, node=b.stmt,
           missing=not undo)
  gv = w.fn("engine.Engine.get_formula_value")
  cfg = gv.xcfg
  cps = [(n, n.stmt.targets[0].id) for n in cfg.nodes if n.kind == "stmt" and
         isinstance(n.stmt, ast.Assign) and isinstance(n.stmt.targets[0], ast.Name) and
         isinstance(n.stmt.value, ast.Call) and
         endswith(cname(gv, n.stmt.value), "_get_undo_checkpoint")]
  ev = nodes_calling_E(gv, lambda c, nm, f: endswith(nm, "_recompute_one_cell"), cfg)
  if not cps or not ev:
    raise AnalysisError("get_formula_value: checkpoint or evaluation not found")
  cpvar = cps[0][1]
  gflow = Flow(gv, cfg)
  undo = {n.id for (n, c, nm) in calls_E(gv, cfg) if endswith(nm, "_undo_to_checkpoint") and
          nargs(c) == 1 and argn(w, gv, c, 0) is not None and
          gflow.denotes(argn(w, gv, c, 0), n.id, lambda v, k: v is cps[0][0].stmt.value)}
  ok = all(cfg.dominated_by(e, {cps[0][0].id}) for e in ev) and all(
    cfg.postdominated_by(e, undo, exits={cfg.exit.id, cfg.raise_exit.id}) for e in ev)
  run.ob(R4, gv.qualname, "try: _recompute_one_cell(...) finally: _undo_to_checkpoint(%s)" % cpvar,
         "read-only evaluation undoes its side effects on normal and exceptional paths", ok,
         fi=gv.fi, missing=not undo)


# Calls allowed in apply_user_actions outside the guarded region, with the reason each is safe
# to run uncovered by the bundle-level rollback.
UNCOVERED_OK = {
  "action_obj.ActionGroup": "fresh action lists",
  "User": "user object construction; no document state",
  "self._get_undo_checkpoint": "reads list lengths",
  "self._maybe_update_trigger_dependencies": "dependency graph edges only",
  "self._bring_all_up_to_date": "formula evaluation; side effects individually guarded (R4)",
  "self.docmodel.apply_auto_removes": "auto-removals of records whose formulas asked for it",
  "self.out_actions.flush_calc_changes": "converts recorded changes to actions",
  "self.out_actions.check_sanity": "assertion",
  "set": "empty set literal",
}


def r5_uncovered(run, w):
  R5 = run.rule("C04-R5", "only the enumerated calls of apply_user_actions, and helpers that cannot "
                "reach a document mutation, run outside the guarded region", floor=6)
  from ..callgraph import CallGraph
  fn = w.fn("engine.Engine.apply_user_actions")
  cg = CallGraph(w)
  # functions that change document state or run formulas: nothing that reaches them may run
  # uncovered unless it is enumerated above with its reason
  seeds = {"engine.Engine.apply_doc_action", "engine.Engine._update_loop",
           "engine.Engine._recompute", "engine.Engine._recompute_step"}
  seeds |= {m.qualname for m in w.repo.cls("docactions.DocActions").methods.values()}
  seeds |= {m.qualname for m in w.useraction_methods().values()}
  seeds = {q for q in seeds if w.repo.has_func(q)}
  if len(seeds) < 20:
    raise AnalysisError("document-mutator seed set shrank to %d functions" % len(seeds))
  dangerous = cg.reaches(seeds)
  mod = fn.fi.module
  for s in fn.node.body:
    if isinstance(s, ast.Try):
      continue
    for c in calls_in(s):
      nm = fn.name(c)
      ok = nm in UNCOVERED_OK
      why = None
      if not ok:
        tg = cg.resolve(fn, c)
        if tg:
          bad = sorted(t.qualname for t in tg if t.qualname in dangerous)
          ok = not bad
          why = "may reach a document mutation through %s" % bad[0] if bad else None
        else:
          # builtins and modules from outside the repository hold no document state
          root = (nm or "").split(".")[0]
          imp = mod.imports.get(root)
          ok = (nm is not None and "." not in nm and root not in mod.functions and
                root not in mod.classes and imp is None and root != "self") or \
               (imp is not None and imp[1] not in w.repo.modules)
          why = None if ok else "callee cannot be resolved"
      run.ob(R5, fn.qualname, short(c), "call outside the guarded region is in the enumerated "
             "safe set or cannot reach a document mutation", ok, witness=why, fi=fn.fi, node=c,
             nontrivial=False)


def _forgets_data_recalcs(w, fn, flow, nid):
  """Node nid of fn deletes a recompute_map entry for columns that are not formula columns: a
  `del <x>.recompute_map[...]` / `.recompute_map.pop(...)` whose conditions are "the column is not
  a formula column" plus existence tests only. True / False / None (not such a deletion)."""
  n = fn.cfg.nodes[nid]
  is_del = n.kind == "stmt" and isinstance(n.stmt, ast.Delete) and \
      any(isinstance(t, ast.Subscript) and endswith(cname(fn, t.value) or "", "recompute_map")
          for t in n.stmt.targets)
  is_pop = any(endswith(cname(fn, c), "recompute_map.pop") for c in calls_in(n.exprs))
  if not (is_del or is_pop):
    return None
  not_formula = False
  heads = [m.id for m in fn.cfg.nodes if m.kind in ("for", "while") and nid in flow.loop_body(m.id)]
  if not heads:
    return None
  # innermost enclosing loop: conditions per entry of the map
  head = min(heads, key=lambda h_: len(flow.loop_body(h_)))
  for (t, pol, i) in flow.facts_inside(nid, head):
    tt = flow.resolve(t, i)[0] if isinstance(t, ast.Name) else t
    if isinstance(tt, ast.Call) and isinstance(tt.func, ast.Attribute) and \
        tt.func.attr == "is_formula":
      if pol is not False:
        return False
      not_formula = True
    elif isinstance(tt, ast.Call) and isinstance(tt.func, ast.Attribute) and \
        tt.func.attr in ("has_column", "has_formula", "get"):
      continue      # existence tests (a table / column looked up with .get())
    elif isinstance(tt, ast.Compare) and len(tt.ops) == 1 and \
        isinstance(tt.ops[0], (ast.Is, ast.In)):
      continue      # existence tests: `col is not None`, `col_id in table.all_columns`
    elif isinstance(t, ast.Name):
      continue      # `if table:` / `if col:`
    else:
      return False
  return not_formula


def r6_rollback_calc_state(run, w):
  R6 = run.rule("C04-R6", "apply_user_actions' failure handler: pending calculated changes are "
                "flushed (engine map, then calc summary) before the rollback, and pending "
                "recalculation of data columns is dropped after it", floor=3)
  from .c02 import _is_flusher
  from ._h_E import callgraph, own_helper
  fn = w.fn("engine.Engine.apply_user_actions")
  cfg = fn.cfg
  flow = Flow(fn)
  eng = w.repo.cls("engine.Engine")
  # the handler: the catch-all handler of the try that applies the user actions
  undo_all = {n.id for (n, c, nm) in calls_E(fn) if endswith(nm, "_undo_to_checkpoint")}
  handlers = []
  for t in ast.walk(fn.node):
    if isinstance(t, ast.Try):
      for h in t.handlers:
        if _catch_all(h):
          hn = [n.id for n in cfg.nodes if n.kind == "handler" and n.stmt is h]
          inside = {id(x) for s_ in h.body for x in ast.walk(s_)}
          undo_h = {u for u in undo_all if id(cfg.nodes[u].stmt) in inside}
          if hn and undo_h:
            handlers.append((h, hn[0], undo_h))
  if not handlers:
    raise AnalysisError("apply_user_actions: failure handler with the rollback call not found")
  flushers = {m.name for m in eng.methods.values() if _is_flusher(w, m)}
  one_level = set(flushers)
  for m in eng.methods.values():
    if m.name in one_level:
      continue
    f_ = w.fn_of(m)
    ns = nodes_calling_E(f_, lambda c, nm, f: nm is not None and nm.startswith("self.") and
                         nm.split(".")[-1] in flushers)
    if ns and f_.cfg.dominated_by(f_.cfg.exit.id, ns):
      one_level.add(m.name)
  cg = callgraph(w)
  def reaches_convert(c, depth=2):
    """the call converts the calc summary's deltas into actions"""
    todo = [(t, depth) for t in cg.resolve(fn, c)]
    seen = set()
    while todo:
      t, d = todo.pop()
      if t.qualname in seen:
        continue
      seen.add(t.qualname)
      tf = w.fn_of(t)
      for (n2, c2, nm2) in calls_E(tf):
        if endswith(nm2, "convert_deltas_to_actions"):
          return True
        if d > 0:
          todo.extend((t2, d - 1) for t2 in cg.resolve(tf, c2))
    return False
  eng_flush = {n.id for (n, c, nm) in calls_E(fn)
               if nm is not None and nm.startswith("self.") and nm.count(".") == 1 and
               nm.split(".")[-1] in one_level}
  sum_flush = {n.id for (n, c, nm) in calls_E(fn)
               if endswith(nm, "out_actions.flush_calc_changes") or
               endswith(nm, "convert_deltas_to_actions") or
               (nm is not None and "flush_calc_changes" in nm and reaches_convert(c))}
  # forgetting the data-column recalcs: in place, or through an engine method that does it
  forget = set()
  for n in cfg.nodes:
    if _forgets_data_recalcs(w, fn, flow, n.id) is True:
      # written in place: passing the loop over the map is what matters (which entries qualify
      # was just checked)
      heads_ = [m.id for m in cfg.nodes if m.kind in ("for", "while") and
                n.id in flow.loop_body(m.id)]
      forget.add(max(heads_, key=lambda h_: len(flow.loop_body(h_))) if heads_ else n.id)
  for (n, c, nm) in calls_E(fn):
    h_ = own_helper(w, fn, c)
    if h_ is None:
      continue
    hf = w.fn_of(h_)
    hflow = Flow(hf)
    verdicts = [_forgets_data_recalcs(w, hf, hflow, k.id) for k in hf.cfg.nodes]
    if True in verdicts and False not in verdicts:
      forget.add(n.id)
  for (h, hn, undo_h) in handlers:
    for u in sorted(undo_h):
      before = cfg.reach({hn}, removed=set())
      ok_e = bool(eng_flush) and u not in cfg.reach({hn}, removed=eng_flush)
      run.ob(R6, fn.qualname, "handler: engine-side flush of _changes_map before the rollback",
             "formula results written in mid-bundle are recorded, so the rollback restores the "
             "cells they changed", ok_e, fi=fn.fi, node=h, missing=not eng_flush)
      ok_s = bool(sum_flush) and u not in cfg.reach({hn}, removed=sum_flush)
      # ... in that order: what the engine-side flush adds to the summary must still be converted
      late = [s_ for s_ in sum_flush if s_ in cfg.reach({hn}, removed={u})]
      ok_s = ok_s and any(s_ not in cfg.reach({hn}, removed=eng_flush) for s_ in late)
      run.ob(R6, fn.qualname, "handler: out_actions.flush_calc_changes() before the rollback, "
             "after the engine-side flush",
             "calculated changes of the failed bundle become undo actions that the rollback "
             "replays", ok_s, fi=fn.fi, node=h, missing=not sum_flush)
      ok_f = bool(forget) and cfg.postdominated_by(u, forget,
                                                  exits={cfg.exit.id, cfg.raise_exit.id})
      run.ob(R6, fn.qualname, "handler: drop pending recalculation of data columns after the "
             "rollback", "reverted trigger-formula inputs do not leave data columns due to be "
             "recalculated by the next bundle", ok_f, fi=fn.fi, node=h, missing=not forget)


D = "sandbox/grist/docactions.py"
EN = "sandbox/grist/engine.py"
VARIANTS = [
  ("undo-after-set", D,
   """    # Collect the undo values.
    undo_values = {}
    for col_id in columns:
      col = table.get_column(col_id)
      undo_values[col_id] = [col.raw_get(r) for r in row_ids]

    # Generate the undo action. This is done before changing anything, so that if we fail
    # part-way (e.g. on an unknown column), the changes already made can be reverted.
    self._engine.out_actions.undo.append(
        actions.BulkUpdateRecord(table_id, row_ids, undo_values).simplify())

    # Load the updated values.
    for col_id, values in columns.items():
      col = table.get_column(col_id)
      for (row_id, value) in zip(row_ids, values):
        col.set(row_id, value)
""",
   """    undo_values = {}
    for col_id, values in columns.items():
      col = table.get_column(col_id)
      undo_values[col_id] = [col.raw_get(r) for r in row_ids]
      for (row_id, value) in zip(row_ids, values):
        col.set(row_id, value)
    self._engine.out_actions.undo.append(
        actions.BulkUpdateRecord(table_id, row_ids, undo_values).simplify())
    for col_id, values in columns.items():
      col = table.get_column(col_id)
""", "C04-R2"),
  ("add-undo-after-add", D,
   """    self._engine.out_actions.undo.append(actions.BulkRemoveRecord(table_id, row_ids).simplify())
    self._engine.out_actions.summary.add_records(table_id, row_ids)

    self._engine.add_records(table_id, row_ids, column_values)""",
   """    self._engine.add_records(table_id, row_ids, column_values)
    self._engine.out_actions.undo.append(actions.BulkRemoveRecord(table_id, row_ids).simplify())
    self._engine.out_actions.summary.add_records(table_id, row_ids)""", "C04-R2"),
  ("handler-narrowed", EN,
   """    except Exception as e:
      # Save full exception info, so that we can rethrow accurately even if undo also fails.""",
   """    except ValueError as e:
      # Save full exception info, so that we can rethrow accurately even if undo also fails.""", "C04-R1"),
  ("undo-only-if-schema", EN,
   """      self.out_actions.flush_calc_changes()
      self._undo_to_checkpoint(checkpoint)
""",
   """      self.out_actions.flush_calc_changes()
      if not self._schema_updated:
        self._undo_to_checkpoint(checkpoint)
""", "C04-R1"),
  ("rollback-no-engine-flush", EN,
   "      self._flush_changes()\n      self.out_actions.flush_calc_changes()\n      self._undo_to_checkpoint(checkpoint)",
   "      self.out_actions.flush_calc_changes()\n      self._undo_to_checkpoint(checkpoint)", "C04-R6"),
  ("rollback-no-summary-flush", EN,
   "      self._flush_changes()\n      self.out_actions.flush_calc_changes()\n      self._undo_to_checkpoint(checkpoint)",
   "      self._flush_changes()\n      self._undo_to_checkpoint(checkpoint)", "C04-R6"),
  ("rollback-flush-after-undo", EN,
   "      self._flush_changes()\n      self.out_actions.flush_calc_changes()\n      self._undo_to_checkpoint(checkpoint)",
   "      self._undo_to_checkpoint(checkpoint)\n      self._flush_changes()\n      self.out_actions.flush_calc_changes()", "C04-R6"),
  ("rollback-summary-flush-before-engine-flush", EN,
   "      self._flush_changes()\n      self.out_actions.flush_calc_changes()\n      self._undo_to_checkpoint(checkpoint)",
   "      self.out_actions.flush_calc_changes()\n      self._flush_changes()\n      self._undo_to_checkpoint(checkpoint)", "C04-R6"),
  ("rollback-keeps-data-column-recalcs", EN,
   "      self._forget_data_column_recalcs()\n", "      pass\n", "C04-R6"),
  ("forget-recalcs-of-all-columns", EN,
   "      if col is not None and not col.is_formula():\n        del self.recompute_map[node]",
   "      if col is not None:\n        del self.recompute_map[node]", "C04-R6"),
  ("checkpoint-inside-loop", EN,
   """    checkpoint = self._get_undo_checkpoint()
    try:
      for user_action in user_actions:
        self._schema_updated = False
""",
   """    checkpoint = None
    try:
      for user_action in user_actions:
        checkpoint = self._get_undo_checkpoint()
        self._schema_updated = False
""", "C04-R1"),
  ("clone-once-per-useraction", EN,
   """    if action_name in actions.schema_actions:
      self._schema_updated = True
      # Make a copy of the schema. If a bug causes a docaction to fail after modifying schema, we
      # restore it, or we'll end up with mismatching schema and metadata.
      saved_schema = schema.clone_schema(self.schema)
""",
   """    if action_name in actions.schema_actions:
      # Make a copy of the schema. If a bug causes a docaction to fail after modifying schema, we
      # restore it, or we'll end up with mismatching schema and metadata.
      if not self._schema_updated:
        saved_schema = schema.clone_schema(self.schema)
      self._schema_updated = True
""", "C04-R3"),
  ("no-forced-rebuild", EN,
   """        self.schema = saved_schema
        self._should_rebuild_usercode = True
""", """        self.schema = saved_schema
""", "C04-R3"),
  ("handler-swallows", EN,
   """          log.error("Error rebuilding usercode after restoring schema: %s", traceback.format_exc())
      raise
""", """          log.error("Error rebuilding usercode after restoring schema: %s", traceback.format_exc())
      if not saved_schema:
        raise
""", "C04-R3"),
  ("error-branch-no-undo", EN,
   """        # lookupOrAddDerived() creates those). If there is an error, undo any such side-effects.
        self._undo_to_checkpoint(checkpoint)
""", """        # lookupOrAddDerived() creates those). If there is an error, undo any such side-effects.
        if not order_error:
          self._undo_to_checkpoint(checkpoint)
""", "C04-R4"),
  ("readonly-undo-not-finally", EN,
   """    try:
      return self._recompute_one_cell(table, col, row_id, record_attributes=record_attributes)
    finally:
      # It is possible for formula evaluation to have side-effects that produce DocActions (e.g.
      # lookupOrAddDerived() creates those). In case of get_formula_error(), these aren't fully
      # processed (e.g. don't get applied to DocStorage), so it's important to reverse them.
      self._sync_request = False
      self._undo_to_checkpoint(checkpoint)""",
   """    try:
      result = self._recompute_one_cell(table, col, row_id, record_attributes=record_attributes)
      self._undo_to_checkpoint(checkpoint)
      return result
    finally:
      self._sync_request = False""", "C04-R4"),
  ("useraction-outside-try", EN,
   """    # If needed, rebuild dependencies for trigger formulas.
    self._maybe_update_trigger_dependencies()
""", """    # If needed, rebuild dependencies for trigger formulas.
    self._maybe_update_trigger_dependencies()
    self.user_actions.RemoveStaleObjects()
""", "C04-R5"),
]
