"""C25 Migrations are total and reach the current schema -- structural clauses."""
import ast
from ..fn import World
from ..index import AnalysisError, dotted
from ..astutil import text, short, endswith, calls_in, walk_no_nested
from .. import jsonshape
from ..dataflow import DefUse
from ._h_F import (ifn, Res, res_of, call_arg, absent, alias_group, need, repo_callees,
                   iterations, atoms)

EXPLANATION = (
  "Decides the chain shape of the migrations registry (versions unique, within 1..SCHEMA_VERSION, "
  "the last equal to SCHEMA_VERSION; every migration returns what TableDataSet.apply_doc_actions "
  "applied; create_migrations runs every version above the document's and appends the "
  "schemaVersion update last) (R1), and totality over arbitrary text in JSON-bearing cells by a "
  "JSON-shape abstract interpretation of every migration: each operation applied to the result of "
  "json.loads/safe_parse that needs a particular shape (method call, subscript, iteration, "
  "membership, arithmetic, use as a hashable key) sits under an isinstance/None/truthiness guard "
  "that establishes the shape, or inside a try catching Exception (R2); that the interpreter the "
  "migrations run on (TableDataSet) keeps no state computed from a table's row ids that a "
  "row-changing action method fails to refresh (R3), and reads a column's schema type only for "
  "columns an action omits, since unknown columns are registered without one (R4); that numbers "
  "parsed out of str.split pieces come only from non-empty pieces and index a map only under a "
  "membership test (R5). R2 also interprets, one level deep, functions of other modules that a "
  "migration calls and that parse JSON text themselves. Not decided: "
  "that the "
  "resulting metadata equals the current schema (the baseline's test_migrations runs the chain on "
  "an empty document).")

SOURCES = {"json.loads", "safe_parse"}


def _migrations(w):
  mod = w.repo.module("migrations")
  out = []
  for fi in mod.functions.values():
    for d in fi.decorators():
      if isinstance(d, ast.Call) and dotted(d.func) == "migration":
        ver = None
        for k in d.keywords:
          if k.arg == "schema_version" and isinstance(k.value, ast.Constant):
            ver = k.value.value
        if d.args and isinstance(d.args[0], ast.Constant):
          ver = d.args[0].value
        out.append((ver, fi))
  return out


def _schema_version(w):
  mod = w.repo.module("schema")
  v = mod.assigns.get("SCHEMA_VERSION")
  if not (isinstance(v, ast.Constant) and isinstance(v.value, int)):
    raise AnalysisError("schema.SCHEMA_VERSION is not an integer literal")
  return v.value


def check(run, repo, tier):
  w = World(repo)
  migs = _migrations(w)
  r1_chain(run, w, migs)
  r2_shapes(run, w, migs)
  r3_interpreter_state(run, w)
  r4_incomplete_columns(run, w)
  r5_text_pieces(run, w, migs)


def _is_apply(r, n, e, p):
  """e (already resolved at node n) is <data set>.apply_doc_actions(...), or a concatenation of
  such results."""
  if isinstance(e, ast.BinOp) and isinstance(e.op, ast.Add):
    return _is_apply(r, n, e.left, p) and _is_apply(r, n, e.right, p)
  return isinstance(e, ast.Call) and dotted(e.func) == p + ".apply_doc_actions"


def r1_chain(run, w, migs):
  R1 = run.rule("C25-R1", "migration registry chain shape; every migration returns "
                "tdset.apply_doc_actions(...); schemaVersion is updated last", floor=40)
  sv = _schema_version(w)
  vers = [v for (v, f) in migs]
  run.ob(R1, "migrations", "versions %d..%d" % (min(vers), max(vers)),
         "schema versions are integers, unique, within 1..SCHEMA_VERSION and end at "
         "SCHEMA_VERSION=%d" % sv,
         all(isinstance(v, int) for v in vers) and len(set(vers)) == len(vers) and
         min(vers) >= 1 and max(vers) == sv, nontrivial=False)
  for v, fi in sorted(migs, key=lambda x: x[0] or 0):
    p = fi.params()[0]
    fn = ifn(w, fi.qualname)
    r = res_of(w, fn)
    rets = r.returns()
    def mig(fn=fn, r=r, rets=rets, p=p, fi=fi):
      # a value handed back by a helper the rule cannot see into, or an untraceable local, is
      # undecided; a visible value that is not the applied list is a violation
      for (n, val) in rets:
        for (f, leaf) in Res.cases(val):
          if _is_apply(r, n, leaf, p):
            continue
          if isinstance(leaf, ast.Name) or (isinstance(leaf, ast.Call) and
                                            repo_callees(w, fn, leaf)):
            raise AnalysisError("%s: what is returned (%s) could not be traced to "
                                "apply_doc_actions" % (fi.qualname, short(leaf, 50)))
      ok = bool(rets) and not r.bare_returns() and \
          all(_is_apply(r, n, leaf, p) for (n, val) in rets for (f, leaf) in Res.cases(val))
      # no path falls off the end without returning
      ok = ok and not r.falls_off_end()
      run.ob(R1, fi.qualname, "return %s.apply_doc_actions(...)" % p,
             "the actions a migration reports are exactly those it applied to the data set", ok,
             fi=fi)
    run.guard(mig)
  tds = ifn(w, "table_data_set.TableDataSet.apply_doc_actions")
  tr = res_of(w, tds)
  rets = tr.returns()
  ok = bool(rets) and all(text(val) == tds.fi.params()[1] for (n, val) in rets) and \
      not tr.falls_off_end() and not tr.bare_returns() and \
      not tr.defs.get(tds.fi.params()[1])
  run.ob(R1, tds.qualname, "return doc_actions", "apply_doc_actions returns the list it applied",
         ok, fi=tds.fi)
  # ---- create_migrations: roles are read off the value that is returned
  cm = ifn(w, "migrations.create_migrations")
  r = res_of(w, cm)
  cfg = r.cfg
  rets = r.returns()
  # the collecting list: the local that receives the registered migrations' results
  acc = set()
  for (n, c, nm) in cm.calls():
    if isinstance(c.func, ast.Attribute) and c.func.attr in ("extend", "append") and \
        isinstance(c.func.value, ast.Name) and \
        any(endswith(r.dotted(x, n.id), "all_migrations.get") for a in c.args
            for x in ast.walk(r.expand(a, n.id)) if isinstance(x, ast.Call)):
      acc.add(c.func.value.id)
  if len(acc) != 1:
    absent(w, cm, "the list collecting the registered migrations' actions")
    raise AnalysisError("create_migrations: the list collecting the migrations' actions was "
                        "not identified")
  L = acc.pop()
  group = alias_group(r, L)
  returned_ok = bool(rets) and all(isinstance(val, ast.Name) and val.id in group
                                   for (n, val) in rets) \
      and not r.falls_off_end() and not r.bare_returns()
  els = []
  for at in ([n.id for (n, val) in rets] or [cfg.exit.id]):
    got = r.elements(ast.Name(id=L, ctx=ast.Load()), at)
    if got is None:
      raise AnalysisError("create_migrations: how the returned list %s is built is not "
                          "understood" % L)
    for g in got:
      if not any(g.site is x.site for x in els):
        els.append(g)
  param = cm.fi.params()[0]
  def doc_version(e):
    """e is the document's version: a local bound only to all_tables['_grist_DocInfo']
    ...schemaVersion... or to the fallback 0."""
    if not isinstance(e, ast.Name):
      return False
    vals = [r._plain_value(cfg.nodes[d], e.id) for d in r.defs.get(e.id, ())]
    if not vals or any(v is None for v in vals):
      return False
    reads = 0
    for v in vals:
      if isinstance(v, ast.Constant) and v.value == 0:
        continue
      t = r.norm(v)
      if t.startswith(param + "['_grist_DocInfo']") and "'schemaVersion'" in t:
        reads += 1
      else:
        return False
    return reads >= 1
  def plus_one(e, pred):
    return isinstance(e, ast.BinOp) and isinstance(e.op, ast.Add) and \
        ((isinstance(e.right, ast.Constant) and e.right.value == 1 and pred(e.left)) or
         (isinstance(e.left, ast.Constant) and e.left.value == 1 and pred(e.right)))
  runs = [el for el in els if el.loops]
  need(runs, "the loop that collects each version's migration actions", cm)
  ok = len(runs) >= 1
  for el in runs:
    tg, it = el.loops[-1]
    it = r.expand(it, el.node.id)
    a0, a1 = (call_arg(it, 0, None), call_arg(it, 1, None)) if isinstance(it, ast.Call) else \
        (None, None)
    ok = ok and len(el.loops) == 1 and isinstance(it, ast.Call) and \
        dotted(it.func) == "range" and len(it.args) == 2 and not it.keywords and \
        plus_one(a0, doc_version) and \
        plus_one(a1, lambda x: endswith(dotted(x), "schema.SCHEMA_VERSION", "SCHEMA_VERSION"))
  run.ob(R1, cm.qualname, "for version in range(doc_version + 1, schema.SCHEMA_VERSION + 1)",
         "every version above the document's, up to the current one, is migrated in order", ok,
         fi=cm.fi)
  if ok:
    ok2 = True
    for el in runs:
      tg = el.loops[-1][0]
      e = r.expand(el.elt, el.node.id)
      # <registry>.get(<version>[, noop])(<data set>)
      f = e.func if isinstance(e, ast.Call) else None
      ok2 = ok2 and el.how == "extend" and isinstance(f, ast.Call) and \
          endswith(dotted(f.func), "all_migrations.get") and bool(f.args) and \
          isinstance(tg, ast.Name) and text(f.args[0]) == tg.id and len(e.args) == 1
    run.ob(R1, cm.qualname, "migration_actions.extend(all_migrations.get(version, noop)(tdset))",
           "each version's registered migration runs on the shared data set and its actions are "
           "collected", ok2, fi=cm.fi)
  # schemaVersion update appended after the loop, before return, value SCHEMA_VERSION
  stamps = []
  for el in els:
    a = r.expand(el.elt, el.node.id) if el.node is not None else el.elt
    if isinstance(a, ast.Call) and endswith(dotted(a.func), "UpdateRecord") and \
        len(a.args) == 3 and text(a.args[0]) == "'_grist_DocInfo'" and \
        isinstance(a.args[2], ast.Dict) and \
        [(text(k), text(v)) for k, v in zip(a.args[2].keys, a.args[2].values)] == \
        [("'schemaVersion'", "schema.SCHEMA_VERSION")]:
      stamps.append(el)
  if not stamps:
    absent(w, cm, "the schemaVersion stamp appended to the collected actions")
  ok = len(stamps) == 1
  if ok:
    st = stamps[0]
    n = st.node
    growth = {x for nm in group for x in r.du.muts.get(nm, set())} | r.defs.get(L, set())
    later = cfg.reach_after({n.id})
    ok = st.how == "append" and not st.loops and cfg.dominated_by(cfg.exit.id, {n.id}) and \
        n.id not in later and not (later & growth)
  run.ob(R1, cm.qualname, "migration_actions.append(UpdateRecord('_grist_DocInfo', 1, "
         "{'schemaVersion': SCHEMA_VERSION})) last",
         "the version stamp is the final action on every path", ok, fi=cm.fi)
  run.ob(R1, cm.qualname, "return migration_actions", "the collected list is what is returned",
         returned_ok, fi=cm.fi)


def r2_shapes(run, w, migs):
  R2 = run.rule("C25-R2", "every shape-needing operation on a parsed JSON value is guarded by a "
                "shape test or fenced by try/except Exception", floor=20)
  total = 0
  # small same-module helpers (not the migrations themselves, not the JSON sources) are followed
  mig_names = {f.name for (v, f) in migs}
  helpers = {}
  for name, hf in w.repo.module("migrations").functions.items():
    if name in mig_names or name in SOURCES or hf.decorators() or \
        name in ("create_migrations", "migration", "get_last_migration_version"):
      continue
    if sum(1 for x in ast.walk(hf.node) if isinstance(x, ast.stmt)) <= 25 and \
        not any(isinstance(x, (ast.Yield, ast.YieldFrom)) for x in ast.walk(hf.node)):
      helpers[name] = hf.node
  for v, fi in sorted(migs, key=lambda x: x[0] or 0):
    ops = jsonshape.analyse_function(fi.node, SOURCES, fi.qualname, helpers=helpers)
    seen = set()
    for op in ops:
      key = (short(op.node, 70), op.need)
      via = getattr(op, "via", ())
      if (key, via) in seen:
        continue
      seen.add((key, via))
      total += 1
      run.ob(R2, fi.qualname, ("%s [%s]" % key) + ("".join(" via " + v for v in via)), "operation is applied only to a JSON value whose "
             "kind was established (possible kinds here: %s)" % ",".join(sorted(op.value.kinds)),
             op.ok, fi=fi, node=op.node,
             witness=None if op.ok else "a Text cell holding valid JSON of another shape makes "
             "this raise; possible kinds: %s" % ",".join(sorted(op.value.kinds)))
  # Calls from a migration into other modules of the repository: a callee that itself parses JSON
  # text (it is handed the raw Text cell) is interpreted the same way, one level deep.
  seen_callees = {}
  for v, fi in sorted(migs, key=lambda x: x[0] or 0):
    fn = w.fn_of(fi)
    for c in [x for x in ast.walk(fi.node) if isinstance(x, ast.Call)]:
      for t in repo_callees(w, fn, c):
        if t.module is fi.module or t.qualname in seen_callees:
          continue
        parses = any(isinstance(x, ast.Call) and (dotted(x.func) or "") in SOURCES
                     for x in ast.walk(t.node))
        seen_callees[t.qualname] = (t, fi) if parses else None
  for q, ent in sorted(seen_callees.items()):
    if ent is None:
      continue
    t, via = ent
    def callee(t=t, via=via):
      nonlocal total
      ops = jsonshape.analyse_function(t.node, SOURCES, t.qualname)
      seen = set()
      for op in ops:
        key = (short(op.node, 70), op.need)
        if key in seen:
          continue
        seen.add(key)
        total += 1
        run.ob(R2, t.qualname, "%s [%s]" % key, "operation is applied only to a JSON value whose "
               "kind was established (possible kinds here: %s); reached from %s"
               % (",".join(sorted(op.value.kinds)), via.qualname),
               op.ok, fi=t, node=op.node,
               witness=None if op.ok else "a Text cell holding valid JSON of another shape makes "
               "this raise; possible kinds: %s" % ",".join(sorted(op.value.kinds)))
    run.guard(callee)
  run.extra["json_shape_callees_outside_migrations"] = sorted(q for q, e in seen_callees.items()
                                                              if e is not None)
  run.extra["json_shape_operations_checked"] = total
  # safe_parse itself: json.loads fenced by except ValueError returning a dict
  sp = ifn(w, "migrations.safe_parse")
  trys = [s for s in sp.node.body if isinstance(s, ast.Try)]
  ok = len(trys) == 1 and any(dotted(c.func) == "json.loads" for c in calls_in(trys[0].body)) and \
      any(isinstance(h.type, ast.Name) and h.type.id in ("ValueError", "Exception")
          for h in trys[0].handlers)
  run.ob(R2, sp.qualname, "try: json.loads(...) except ValueError: return {}",
         "invalid JSON text yields an empty object instead of an exception", ok, fi=sp.fi)


# ------------------------------------------------------------------------------------------- R3
ROW_MUTATORS = ("append", "extend", "insert", "remove", "pop", "clear", "sort", "reverse")
DICT_WRITERS = ("pop", "clear", "update", "setdefault", "popitem", "__setitem__", "__delitem__")


def _self_attr(r, e, nid):
  """Name X when e (resolved at node nid) is rooted at self.X (self.X, self.X[k], self.X[k].a ...)."""
  e = r.expand(e, nid)
  while isinstance(e, (ast.Subscript, ast.Attribute, ast.Call)):
    if isinstance(e, ast.Attribute) and isinstance(e.value, ast.Name) and e.value.id == "self":
      return e.attr
    e = e.func if isinstance(e, ast.Call) else e.value
  return None


def _is_row_ids(r, e, nid):
  e = r.expand(e, nid)
  return isinstance(e, ast.Attribute) and e.attr == "row_ids"


def r3_interpreter_state(run, w):
  R3 = run.rule("C25-R3", "the migrations' interpreter (TableDataSet) keeps no state derived from "
                "a table's row ids unless every method that changes the row ids refreshes it",
                floor=2)
  ci = w.repo.cls("table_data_set.TableDataSet")
  holders = set()       # attributes through which the row id lists are reached
  mutators = {}         # method -> [cfg node ids that change some table's row id list]
  writes = {}           # attribute -> {method: [node ids writing / invalidating it]}
  derived = {}          # attribute -> (method, node) of a write whose value depends on row ids
  meths = {}
  for name, fi in sorted(ci.methods.items()):
    fn = ifn(w, fi.qualname)
    r = res_of(w, fn)
    meths[name] = (fn, r)
    for n in r.cfg.nodes:
      st = n.stmt
      if st is None:
        continue
      targets, value = [], None
      if n.kind == "stmt" and isinstance(st, ast.Assign):
        targets, value = list(st.targets), st.value
      elif n.kind == "stmt" and isinstance(st, (ast.AugAssign, ast.AnnAssign)):
        targets, value = [st.target], st.value
      elif n.kind == "stmt" and isinstance(st, ast.Delete):
        targets = list(st.targets)
      flat = []
      for t in targets:
        flat += list(t.elts) if isinstance(t, (ast.Tuple, ast.List)) else [t]
      for t in flat:
        base = t.value if isinstance(t, ast.Subscript) else t
        # <table>.row_ids[...] = / del <table>.row_ids[...] / <table>.row_ids = ...
        if (isinstance(t, ast.Subscript) and _is_row_ids(r, t.value, n.id)) or \
            (isinstance(t, ast.Attribute) and t.attr == "row_ids"):
          h = _self_attr(r, t, n.id)
          if h:
            holders.add(h)
          mutators.setdefault(name, []).append(n.id)
        x = _self_attr(r, t, n.id) if isinstance(t, (ast.Subscript, ast.Attribute)) else None
        if x and name != "__init__":
          writes.setdefault(x, {}).setdefault(name, []).append(n.id)
          if value is not None and any(isinstance(y, ast.Attribute) and y.attr == "row_ids"
                                       for y in ast.walk(r.expand(value, n.id))):
            derived.setdefault(x, (name, st))
      for c in calls_in(n.exprs):
        f = c.func
        if not isinstance(f, ast.Attribute):
          continue
        if f.attr in ROW_MUTATORS and _is_row_ids(r, f.value, n.id):
          h = _self_attr(r, f.value, n.id)
          if h:
            holders.add(h)
          mutators.setdefault(name, []).append(n.id)
        if f.attr in DICT_WRITERS and name != "__init__":
          x = _self_attr(r, f.value, n.id)
          if x and r.norm(f.value, n.id) == "self." + x:
            writes.setdefault(x, {}).setdefault(name, []).append(n.id)
            if any(isinstance(y, ast.Attribute) and y.attr == "row_ids"
                   for a in list(c.args) + [k.value for k in c.keywords]
                   for y in ast.walk(r.expand(a, n.id))):
              derived.setdefault(x, (name, c))
  if not holders:
    raise AnalysisError("TableDataSet: no method changing a table's row_ids found")
  # removing / replacing / renaming a whole table changes its row ids too
  for h in holders:
    for name, nodes in writes.get(h, {}).items():
      mutators.setdefault(name, [])
      mutators[name] += [x for x in nodes if x not in mutators[name]]
  if len(mutators) < 4:
    raise AnalysisError("TableDataSet: fewer than 4 row-changing methods found (%s)"
                        % ", ".join(sorted(mutators)))
  run.extra["tabledataset_row_changing_methods"] = sorted(mutators)
  attrs = sorted(set(writes) | holders)
  for x in attrs:
    if x in holders:
      run.ob(R3, ci.qualname, "self.%s" % x, "holds the tables themselves (primary state)", True,
             nontrivial=False)
      continue
    if x not in derived:
      run.ob(R3, ci.qualname, "self.%s" % x, "state that does not depend on row ids", True,
             nontrivial=False)
      continue
    src = derived[x]
    for name in sorted(mutators):
      fn, r = meths[name]
      ws = set(writes.get(x, {}).get(name, []))
      ok = bool(ws) and all(r.cfg.dominated_by(m, ws) or r.cfg.postdominated_by(m, ws)
                            for m in mutators[name])
      run.ob(R3, fn.qualname, "self.%s refreshed when the row ids change" % x,
             "a value remembered from a table's row ids (set in %s) is dropped or rebuilt by "
             "every method that adds, removes or replaces rows or tables" % src[0], ok,
             witness=None if ok else "self.%s keeps what was computed from the old row ids; the "
             "next action that uses it works on stale positions" % x, fi=fn.fi)


# ------------------------------------------------------------------------------------------- R4
def r4_incomplete_columns(run, w):
  R4 = run.rule("C25-R4", "TableDataSet reads a column's schema 'type' only where a default is "
                "needed (the action omits the column): create_migrations registers unknown "
                "columns with a col-info that has no 'type'", floor=1)
  cm = ifn(w, "migrations.create_migrations")
  # col-infos made up for unknown (deprecated) columns: dict literals with an 'id' and no 'type'
  incomplete = [d for d in ast.walk(cm.node) if isinstance(d, ast.Dict) and
                all(k is not None for k in d.keys) and
                "'id'" in [text(k) for k in d.keys] and "'type'" not in [text(k) for k in d.keys]]
  if not incomplete:
    run.ob(R4, cm.qualname, "every made-up col-info carries a 'type'",
           "no column is registered without a type", True, fi=cm.fi, nontrivial=False)
    return
  ci = w.repo.cls("table_data_set.TableDataSet")
  n_reads = 0
  for name, fi in sorted(ci.methods.items()):
    fn = ifn(w, fi.qualname)
    r = res_of(w, fn)
    params = set(fi.params())
    for n in r.cfg.nodes:
      for root in n.exprs:
        for x in ast.walk(root):
          if not (isinstance(x, ast.Subscript) and isinstance(x.slice, ast.Constant) and
                  x.slice.value == "type" and isinstance(x.ctx, ast.Load)):
            continue
          base = r.expand(x.value, n.id)
          if _self_attr(r, base, n.id) != "_schema":
            continue
          # self._schema[<table>][<column>]['type']
          if not (isinstance(base, ast.Subscript) and isinstance(base.value, ast.Subscript)):
            raise AnalysisError("%s: read of a schema 'type' not understood: %s"
                                % (fi.qualname, short(x, 60)))
          col = text(base.slice)
          n_reads += 1
          # "<column> in <what the action supplies>": the container the column's values are
          # then taken from (<container>[<column>])
          supplies = {text(y.value) for y in ast.walk(fn.node) if isinstance(y, ast.Subscript)
                      and text(y.slice) == col and isinstance(y.value, ast.Name)}
          def omitted(a, node, col=col, r=r, supplies=supplies):
            return isinstance(a, ast.Compare) and isinstance(a.ops[0], ast.In) and \
                (text(a.left) == col or r.norm(a.left, node.id) == col) and \
                isinstance(a.comparators[0], ast.Name) and \
                (a.comparators[0].id in params or a.comparators[0].id in supplies)
          ok = r.known(n.id, omitted, False, within=x)
          run.ob(R4, fn.qualname, "self._schema[...][%s]['type']" % col,
                 "the type of a column is looked up only when the action leaves the column out "
                 "(so a default value is needed); columns the action supplies may have been "
                 "registered by create_migrations without a type", ok, fi=fn.fi, node=x,
                 witness=None if ok else "a pre-existing deprecated column is registered as "
                 "{'id': col_id}: this lookup raises KeyError('type') for it")
  need(n_reads, "a read of a column's schema 'type' in TableDataSet", None)


# ------------------------------------------------------------------------------------------- R5
def _is_split(e):
  return isinstance(e, ast.Call) and isinstance(e.func, ast.Attribute) and \
      e.func.attr in ("split", "rsplit", "splitlines")


def _in_try(fnode, node):
  for t in ast.walk(fnode):
    if isinstance(t, ast.Try) and any(x is node for b in t.body for x in ast.walk(b)) and \
        any(h.type is None or any(nm in text(h.type) for nm in ("Exception", "ValueError",
                                                                 "KeyError", "LookupError"))
            for h in t.handlers):
      return True
  return False


def r5_text_pieces(run, w, migs):
  R5 = run.rule("C25-R5", "numbers parsed out of pieces of text (str.split) are parsed only from "
                "non-empty pieces, and such a number indexes a map only under a membership test",
                floor=1)
  n_ob = 0
  for v, fi in sorted(migs, key=lambda x: x[0] or 0):
    fn = ifn(w, fi.qualname)
    r = res_of(w, fn)
    parsed_lists = set()       # locals holding numbers parsed out of split pieces
    its = iterations(fn.node)
    for (it, tg, body, owner) in its:
      at = r.nodes_of(owner) if isinstance(owner, ast.For) else r.node_of_expr(it)
      if not at or not isinstance(tg, ast.Name):
        continue
      src = r.expand(it, at[0].id)
      if not _is_split(src):
        continue
      piece = tg.id
      for b in body:
        for c in [x for x in ast.walk(b) if isinstance(x, ast.Call)]:
          if dotted(c.func) in ("int", "float") and len(c.args) == 1 and \
              isinstance(c.args[0], ast.Name) and c.args[0].id == piece:
            def nonempty(a, node, piece=piece):
              if isinstance(a, ast.Name):
                return a.id == piece
              return isinstance(a, ast.Call) and isinstance(a.func, ast.Attribute) and \
                  a.func.attr in ("isdigit", "strip") and text(a.func.value) == piece
            if isinstance(owner, ast.For):
              cn = r.node_of_expr(c)
              ok = bool(cn) and r.known(cn[0].id, nonempty, True, within=c)
            else:
              conds = [x for g in owner.generators for x in g.ifs]
              ok = any(p and nonempty(a, None) for cd in conds for (a, p) in atoms(cd, True))
            ok = ok or _in_try(fn.node, c)
            n_ob += 1
            run.ob(R5, fn.qualname, "%s(%s) for %s in %s" % (dotted(c.func), piece, piece,
                                                             short(src, 50)),
                   "a piece of split text is turned into a number only when it is not empty "
                   "(''.split('_') is [''])", ok, fi=fn.fi, node=c)
            # the list these numbers are collected into
            an = r.node_of_expr(owner) if not isinstance(owner, ast.For) else []
            if an and an[0].kind == "stmt" and isinstance(an[0].stmt, ast.Assign) and \
                isinstance(an[0].stmt.targets[0], ast.Name):
              parsed_lists.add(an[0].stmt.targets[0].id)
    # a number parsed from text used as a key
    for (it, tg, body, owner) in its:
      if not (isinstance(it, ast.Name) and it.id in parsed_lists and isinstance(tg, ast.Name)):
        continue
      for b in body:
        for sub in [x for x in ast.walk(b) if isinstance(x, ast.Subscript) and
                    isinstance(x.ctx, ast.Load) and isinstance(x.slice, ast.Name) and
                    x.slice.id == tg.id]:
          base = text(sub.value)
          def member(a, node, key=tg.id, base=base):
            return isinstance(a, ast.Compare) and isinstance(a.ops[0], ast.In) and \
                text(a.left) == key and text(a.comparators[0]) == base
          if isinstance(owner, ast.For):
            cn = r.node_of_expr(sub)
            ok = bool(cn) and r.known(cn[0].id, member, True, within=sub)
          else:
            conds = [x for g in owner.generators for x in g.ifs]
            ok = any(p and member(a, None) for cd in conds for (a, p) in atoms(cd, True))
          ok = ok or _in_try(fn.node, sub)
          n_ob += 1
          run.ob(R5, fn.qualname, "%s[%s] for %s in %s" % (base, tg.id, tg.id, it.id),
                 "a reference parsed out of text may name something that no longer exists: it "
                 "is looked up only under a membership test", ok, fi=fn.fi, node=sub)
  need(n_ob, "a number parsed from split text in the migrations", None)


M = "sandbox/grist/migrations.py"
VARIANTS = [
  ("m15-truthy-guard", M, "    if isinstance(filter_spec, dict) and str(f.colRef) in filter_spec:",
   "    if filter_spec and str(f.colRef) in filter_spec:", "C25-R2"),
  ("m16-no-dict-check", M, """    if not isinstance(parsed_options, dict):
      return None   # Same if widgetOptions isn't a JSON object.
""", "", "C25-R2"),
  ("m29-unhashable-rule", M, "    rule_col = columns.get(rule_id) if isinstance(rule_id, int) else None\n",
   "    rule_col = columns.get(rule_id)\n", "C25-R2"),
  ("m34-get-on-any", M, "    return isinstance(options, dict) and options.get('filterBar', False)",
   "    return options.get('filterBar', False)", "C25-R2"),
  ("m35-short-list", M, "    if not (isinstance(acl_formula, list) and len(acl_formula) >= 3\n",
   "    if not (isinstance(acl_formula, list) and len(acl_formula) >= 1\n", "C25-R2"),
  ("m45-arith-on-any", M, "int(time_created / 1000) if isinstance(time_created, (int, float)) else 0)",
   "int(time_created / 1000) if time_created is not None else 0)", "C25-R2"),
  ("m45-content-not-dict", M, """      if not isinstance(content, dict):
        content = {}
""", "", "C25-R2"),
  ("migration-returns-empty", M, """  return tdset.apply_doc_actions([
    add_column('_grist_Triggers', 'condition', 'Text'),
  ])""", """  tdset.apply_doc_actions([
    add_column('_grist_Triggers', 'condition', 'Text'),
  ])
  return []""", "C25-R1"),
  ("version-range-off-by-one", M, "  for version in range(doc_version + 1, schema.SCHEMA_VERSION + 1):",
   "  for version in range(doc_version + 1, schema.SCHEMA_VERSION):", "C25-R1"),
  ("schema-version-bumped-without-migration", "sandbox/grist/schema.py", "SCHEMA_VERSION = 46", "SCHEMA_VERSION = 47", "C25-R1"),
  ("duplicate-version", M, "@migration(schema_version=46)", "@migration(schema_version=45)", "C25-R1"),
  ("row-index-memoised", "sandbox/grist/table_data_set.py",
   "    rowid_map = {r:i for i, r in enumerate(table_data.row_ids)}\n",
   "    cache = self.__dict__.setdefault('_row_index', {})\n"
   "    rowid_map = cache.get(table_id)\n"
   "    if rowid_map is None:\n"
   "      rowid_map = self._row_index[table_id] = {r:i for i, r in enumerate(table_data.row_ids)}\n", "C25-R3"),
  ("type-looked-up-for-every-column", "sandbox/grist/table_data_set.py",
   """      if col in columns:
        values.extend(columns[col])
      else:
        col_info = self._schema[table_id][col]
        default = get_type_default(col_info['type'])
        values.extend([default] * len(row_ids))""",
   """      col_info = self._schema[table_id][col]
      default = get_type_default(col_info['type'])
      if col in columns:
        values.extend(columns[col])
      else:
        values.extend([default] * len(row_ids))""", "C25-R4"),
  ("callee-no-dict-check", "sandbox/grist/summary.py", """  if not isinstance(parsed, dict):
    # Valid json, but not an object of options: there is nothing to omit.
    return options
""", "", "C25-R2"),
  ("m7-empty-piece-parsed", M, """m.group(2).strip("_").split("_") if x]""",
   """m.group(2).strip("_").split("_")]""", "C25-R5"),
  ("m7-unknown-ref-looked-up", M, """for c in groupby_colrefs
                       if c in columns_map_by_ref]""", """for c in groupby_colrefs]""", "C25-R5"),
  ("returns-fresh-list", M, "  return migration_actions\n", "  return list(all_migrations)\n", "C25-R1"),
  ("stamp-only-when-upgrading", M, """  migration_actions.append(actions.UpdateRecord('_grist_DocInfo', 1, {
    'schemaVersion': schema.SCHEMA_VERSION
  }))""", """  if migration_actions:
    migration_actions.append(actions.UpdateRecord('_grist_DocInfo', 1, {
      'schemaVersion': schema.SCHEMA_VERSION
    }))""", "C25-R1"),
]
