"""C25 Migrations are total and reach the current schema -- structural clauses."""
import ast
from ..fn import World
from ..index import AnalysisError, dotted
from ..astutil import text, short, endswith, calls_in, walk_no_nested
from .. import jsonshape
from ..dataflow import DefUse

EXPLANATION = (
  "Decides the chain shape of the migrations registry (versions unique, within 1..SCHEMA_VERSION, "
  "the last equal to SCHEMA_VERSION; every migration returns what TableDataSet.apply_doc_actions "
  "applied; create_migrations runs every version above the document's and appends the "
  "schemaVersion update last) (R1), and totality over arbitrary text in JSON-bearing cells by a "
  "JSON-shape abstract interpretation of every migration: each operation applied to the result of "
  "json.loads/safe_parse that needs a particular shape (method call, subscript, iteration, "
  "membership, arithmetic, use as a hashable key) sits under an isinstance/None/truthiness guard "
  "that establishes the shape, or inside a try catching Exception (R2). Not decided: that the "
  "resulting metadata equals the current schema (the baseline's test_migrations runs the chain on "
  "an empty document).")

SOURCES = {"json.loads", "safe_parse"}


def _migrations(w):
  mod = w.repo.module("migrations")
  out = []
  for fi in mod.functions.values():
    for d in fi.decorators():
      if isinstance(d, ast.Call) and dotted(d.func) == "migration":
        ver = None
        for k in d.keywords:
          if k.arg == "schema_version" and isinstance(k.value, ast.Constant):
            ver = k.value.value
        if d.args and isinstance(d.args[0], ast.Constant):
          ver = d.args[0].value
        out.append((ver, fi))
  return out


def _schema_version(w):
  mod = w.repo.module("schema")
  v = mod.assigns.get("SCHEMA_VERSION")
  if not (isinstance(v, ast.Constant) and isinstance(v.value, int)):
    raise AnalysisError("schema.SCHEMA_VERSION is not an integer literal")
  return v.value


def check(run, repo, tier):
  w = World(repo)
  migs = _migrations(w)
  r1_chain(run, w, migs)
  r2_shapes(run, w, migs)


def r1_chain(run, w, migs):
  R1 = run.rule("C25-R1", "migration registry chain shape; every migration returns "
                "tdset.apply_doc_actions(...); schemaVersion is updated last", floor=40)
  sv = _schema_version(w)
  vers = [v for (v, f) in migs]
  run.ob(R1, "migrations", "versions %d..%d" % (min(vers), max(vers)),
         "schema versions are integers, unique, within 1..SCHEMA_VERSION and end at "
         "SCHEMA_VERSION=%d" % sv,
         all(isinstance(v, int) for v in vers) and len(set(vers)) == len(vers) and
         min(vers) >= 1 and max(vers) == sv, nontrivial=False)
  for v, fi in sorted(migs, key=lambda x: x[0] or 0):
    p = fi.params()[0]
    rets = [n for s in fi.node.body if not isinstance(s, (ast.FunctionDef, ast.ClassDef))
            for n in walk_no_nested(s) if isinstance(n, ast.Return)]
    ok = bool(rets) and all(isinstance(r.value, ast.Call) and
                            dotted(r.value.func) == p + ".apply_doc_actions" for r in rets)
    # no path falls off the end without returning
    fn = w.fn_of(fi)
    cfg = fn.cfg
    retn = {n.id for n in cfg.nodes if n.kind == "return"}
    ok = ok and cfg.dominated_by(cfg.exit.id, retn)
    run.ob(R1, fi.qualname, "return %s.apply_doc_actions(...)" % p,
           "the actions a migration reports are exactly those it applied to the data set", ok,
           fi=fi)
  tds = w.fn("table_data_set.TableDataSet.apply_doc_actions")
  rets = [n for n in ast.walk(tds.node) if isinstance(n, ast.Return)]
  ok = len(rets) == 1 and text(rets[0].value) == tds.fi.params()[1]
  run.ob(R1, tds.qualname, "return doc_actions", "apply_doc_actions returns the list it applied",
         ok, fi=tds.fi)
  cm = w.fn("migrations.create_migrations")
  cfg = cm.cfg
  # the version loop covers doc_version+1 .. SCHEMA_VERSION
  loops = [s for s in cm.node.body if isinstance(s, ast.For) and isinstance(s.iter, ast.Call) and
           dotted(s.iter.func) == "range"]
  ok = len(loops) == 1 and len(loops[0].iter.args) == 2 and \
      text(loops[0].iter.args[0]).replace(" ", "") == "doc_version+1" and \
      text(loops[0].iter.args[1]).replace(" ", "") == "schema.SCHEMA_VERSION+1"
  run.ob(R1, cm.qualname, "for version in range(doc_version + 1, schema.SCHEMA_VERSION + 1)",
         "every version above the document's, up to the current one, is migrated in order", ok,
         fi=cm.fi)
  if ok:
    lp = loops[0]
    ver = text(lp.target)
    du = DefUse(cm)
    def registered(e):
      return isinstance(e, ast.Call) and endswith(dotted(e.func), "all_migrations.get") and \
          e.args and text(e.args[0]) == ver
    ok2 = any(endswith(cm.name(c) or "", "migration_actions.extend") and c.args and
              isinstance(c.args[0], ast.Call) and du.denotes(c.args[0].func, registered)
              for c in calls_in(lp.body))
    run.ob(R1, cm.qualname, "migration_actions.extend(all_migrations.get(version, noop)(tdset))",
           "each version's registered migration runs on the shared data set and its actions are "
           "collected", ok2, fi=cm.fi)
  # schemaVersion update appended after the loop, before return, value SCHEMA_VERSION
  apps = [(n, c) for (n, c, nm) in cm.calls() if endswith(nm, "migration_actions.append")]
  ok = False
  for (n, c) in apps:
    a = c.args[0]
    if isinstance(a, ast.Call) and endswith(dotted(a.func), "UpdateRecord") and \
        text(a.args[0]) == "'_grist_DocInfo'" and "schemaVersion" in text(a.args[2]) and \
        "schema.SCHEMA_VERSION" in text(a.args[2]):
      loop_nodes = {x.id for x in cfg.nodes if x.stmt is not None and loops and x.stmt is loops[0]}
      later = cfg.reach_after({n.id})
      ok = cfg.dominated_by(cfg.exit.id, {n.id}) and not (later & loop_nodes) and \
          not any(endswith(nm2, "migration_actions.append", "migration_actions.extend",
                           "migration_actions.insert") and m.id in later
                  for (m, c2, nm2) in cm.calls())
  run.ob(R1, cm.qualname, "migration_actions.append(UpdateRecord('_grist_DocInfo', 1, "
         "{'schemaVersion': SCHEMA_VERSION})) last",
         "the version stamp is the final action on every path", ok, fi=cm.fi)
  rets = [n for n in ast.walk(cm.node) if isinstance(n, ast.Return)]
  run.ob(R1, cm.qualname, "return migration_actions", "the collected list is what is returned",
         len(rets) == 1 and text(rets[0].value) == "migration_actions", fi=cm.fi)


def r2_shapes(run, w, migs):
  R2 = run.rule("C25-R2", "every shape-needing operation on a parsed JSON value is guarded by a "
                "shape test or fenced by try/except Exception", floor=20)
  total = 0
  for v, fi in sorted(migs, key=lambda x: x[0] or 0):
    ops = jsonshape.analyse_function(fi.node, SOURCES, fi.qualname)
    seen = set()
    for op in ops:
      key = (short(op.node, 70), op.need)
      if key in seen:
        continue
      seen.add(key)
      total += 1
      run.ob(R2, fi.qualname, "%s [%s]" % key, "operation is applied only to a JSON value whose "
             "kind was established (possible kinds here: %s)" % ",".join(sorted(op.value.kinds)),
             op.ok, fi=fi, node=op.node,
             witness=None if op.ok else "a Text cell holding valid JSON of another shape makes "
             "this raise; possible kinds: %s" % ",".join(sorted(op.value.kinds)))
  run.extra["json_shape_operations_checked"] = total
  # safe_parse itself: json.loads fenced by except ValueError returning a dict
  sp = w.fn("migrations.safe_parse")
  trys = [s for s in sp.node.body if isinstance(s, ast.Try)]
  ok = len(trys) == 1 and any(dotted(c.func) == "json.loads" for c in calls_in(trys[0].body)) and \
      any(isinstance(h.type, ast.Name) and h.type.id in ("ValueError", "Exception")
          for h in trys[0].handlers)
  run.ob(R2, sp.qualname, "try: json.loads(...) except ValueError: return {}",
         "invalid JSON text yields an empty object instead of an exception", ok, fi=sp.fi)


M = "sandbox/grist/migrations.py"
VARIANTS = [
  ("m15-truthy-guard", M, "    if isinstance(filter_spec, dict) and str(f.colRef) in filter_spec:",
   "    if filter_spec and str(f.colRef) in filter_spec:", "C25-R2"),
  ("m16-no-dict-check", M, """    if not isinstance(parsed_options, dict):
      return None   # Same if widgetOptions isn't a JSON object.
""", "", "C25-R2"),
  ("m29-unhashable-rule", M, "    rule_col = columns.get(rule_id) if isinstance(rule_id, int) else None\n",
   "    rule_col = columns.get(rule_id)\n", "C25-R2"),
  ("m34-get-on-any", M, "    return isinstance(options, dict) and options.get('filterBar', False)",
   "    return options.get('filterBar', False)", "C25-R2"),
  ("m35-short-list", M, "    if not (isinstance(acl_formula, list) and len(acl_formula) >= 3\n",
   "    if not (isinstance(acl_formula, list) and len(acl_formula) >= 1\n", "C25-R2"),
  ("m45-arith-on-any", M, "int(time_created / 1000) if isinstance(time_created, (int, float)) else 0)",
   "int(time_created / 1000) if time_created is not None else 0)", "C25-R2"),
  ("m45-content-not-dict", M, """      if not isinstance(content, dict):
        content = {}
""", "", "C25-R2"),
  ("migration-returns-empty", M, """  return tdset.apply_doc_actions([
    add_column('_grist_Triggers', 'condition', 'Text'),
  ])""", """  tdset.apply_doc_actions([
    add_column('_grist_Triggers', 'condition', 'Text'),
  ])
  return []""", "C25-R1"),
  ("version-range-off-by-one", M, "  for version in range(doc_version + 1, schema.SCHEMA_VERSION + 1):",
   "  for version in range(doc_version + 1, schema.SCHEMA_VERSION):", "C25-R1"),
  ("schema-version-bumped-without-migration", "sandbox/grist/schema.py", "SCHEMA_VERSION = 46", "SCHEMA_VERSION = 47", "C25-R1"),
  ("duplicate-version", M, "@migration(schema_version=46)", "@migration(schema_version=45)", "C25-R1"),
]
