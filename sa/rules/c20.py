"""C20 Row positions stay unique and order-preserving -- structural clauses (narrow claim).

The float arithmetic of relabeling.prepare_inserts is value-level and is not decided here (DESIGN.md
section 5). Deviation from DESIGN.md section 4: a fourth rule (R4) pins the plumbing of
PositionColumn.prepare_new_values (which list the adjustment indexes refer to, ignore_data), since
an index applied to the wrong list renumbers the wrong rows.

Reading the code: every rule function is evaluated through H.guarded_views -- on the source as
written and on behaviour-preserving normal forms of it (see _h_C.py / _h_C_norm.py) -- and slots
are filled by role (flow origins, guard atoms, return cases, conditions as boolean formulas),
not by statement shape or local names.
"""
import ast
from ..fn import World
from ..index import AnalysisError, dotted
from ..astutil import text, short, endswith, calls_in, walk_no_nested
from .. import events as E
from . import _h_C as H
from . import c11

EXPLANATION = (
  "Decides that position columns can only be written through the code that keeps positions "
  "distinct: record actions with values reach the gateway only as descendants of "
  "convert_action_values, which runs prepare_new_values for every written column and, when rows "
  "are added, for every other stored column with its default (R1); the adjustment actions it "
  "returns are applied, each unconditionally, before the action they make room for (R2); "
  "PositionColumn keeps its sorted row list in step with its storage on every storage-writing "
  "method (R3); and PositionColumn.prepare_new_values asks relabeling.prepare_inserts about the "
  "rows currently sorted (none when data is replaced), maps adjustment indexes back through that "
  "same order and returns the adjustment for its own node (R4). Not decided: the float "
  "arithmetic of prepare_inserts (distinctness and order of the computed keys).")


def check(run, repo, tier):
  V = H.guarded_views
  run.rule("C20-R2", "adjustment actions are applied before the record action they make room "
           "for", floor=2)
  V(run, repo, c11.r1_who_may_emit, "C20-R1", with_adds=True, extras_rule="C20-R2")
  V(run, repo, r3_sorted_rows)
  V(run, repo, r4_prepare)
  from ._extra import c20_adjustment_pairing
  V(run, repo, c20_adjustment_pairing, "C20-R5")
  H.finish_views(run, repo)


def _super_calls(fn, meth):
  return {n.id for (n, c, nm) in fn.calls() if isinstance(c.func, ast.Attribute) and
          c.func.attr == meth and isinstance(c.func.value, ast.Call) and
          dotted(c.func.value.func) == "super"}


def r3_sorted_rows(run, w):
  R3 = run.rule("C20-R3", "PositionColumn keeps _sorted_rows in step with storage: discard "
                "before the write, add after it unless default; clear and copy rebuild it; "
                "inherited writers funnel into the overridden ones", floor=6)
  ci = w.repo.cls("column.PositionColumn")
  init = w.fn("column.PositionColumn.__init__")
  attrs = [s for s in walk_no_nested(init.node) if isinstance(s, ast.Assign) and
           H.is_self_attr(s.targets[0]) and isinstance(s.value, ast.Call) and
           endswith(dotted(s.value.func), "SortedListWithKey")]
  if len(attrs) != 1:
    raise AnalysisError("PositionColumn.__init__: sorted row list not found")
  SR = attrs[0].targets[0].attr
  def key_reads_storage(fn_, call):
    """The key= callable of a SortedListWithKey(...) orders a row by self.raw_get(<row>)."""
    key = [k.value for k in call.keywords if k.arg == "key"]
    if len(key) != 1:
      return False
    got = H.callable_of(w, fn_, key[0], H.Flow(fn_))
    if got is None:
      raise AnalysisError("%s: cannot resolve the sort key %s" % (fn_.qualname, short(key[0])))
    params, vals = got
    return bool(params) and all(
      any(isinstance(c, ast.Call) and text(c.func) == "self.raw_get" and
          [text(a) for a in c.args] == [params[0]] for c in ast.walk(v)) for v in vals)
  ok = key_reads_storage(init, attrs[0].value)
  run.ob(R3, init.qualname, "self.%s = SortedListWithKey(key=<stored value of the row>)" % SR,
         "rows are ordered by the position currently stored for them", ok, fi=init.fi)
  # set
  fn = w.fn("column.PositionColumn.set")
  cfg = fn.cfg
  ps = fn.fi.params()
  writes = _super_calls(fn, "set")
  if not writes:
    raise AnalysisError("PositionColumn.set: base write not found")
  disc = {n.id for (n, c, nm) in fn.calls() if nm in ("self.%s.discard" % SR,
                                                      "self.%s.remove" % SR)
          and [text(a) for a in c.args] == [ps[1]]}
  for n in cfg.nodes:
    # `if row in self._sorted_rows: self._sorted_rows.remove(row)` is a discard
    if n.kind == "if" and isinstance(n.stmt.test, ast.Compare) and \
        isinstance(n.stmt.test.ops[0], ast.In) and text(n.stmt.test.left) == ps[1] and \
        text(n.stmt.test.comparators[0]) == "self." + SR and not n.stmt.orelse and \
        any(fn.name(c) == "self.%s.remove" % SR and [text(a) for a in c.args] == [ps[1]]
            for c in calls_in(n.stmt.body)):
      inner = {m.id for (m, c, nm) in fn.calls() if nm == "self.%s.remove" % SR and
               any(x is c for st in n.stmt.body for x in ast.walk(st))}
      disc = (disc - inner) | {n.id}
  adds = [(n, c) for (n, c, nm) in fn.calls() if nm == "self.%s.add" % SR and
          [text(a) for a in c.args] == [ps[1]]]
  ok = bool(disc) and all(cfg.dominated_by(x, disc) for x in writes) and \
      not (cfg.reach_after(writes) & disc)
  wit = None
  if disc and not ok:
    for x in writes:
      p = cfg.path(cfg.entry.id, {x}, removed=disc)
      if p:
        wit = cfg.describe_path(p)
  run.ob(R3, fn.qualname, "self.%s.discard(%s) -> super().set(...)" % (SR, ps[1]),
         "the row leaves the sorted list while its old position is still stored (the list finds "
         "it by that key)", ok, witness=wit, fi=fn.fi)
  ok = bool(adds)
  wit = None
  sflow = H.Flow(fn)
  def key(e):
    e2 = H.inline(sflow, e)
    if isinstance(e2, ast.Compare) and len(e2.ops) == 1 and \
        isinstance(e2.ops[0], (ast.Eq, ast.NotEq)) and \
        {text(e2.left), text(e2.comparators[0])} == {ps[2], "self.getdefault()"}:
      a = H.f_atom("is-default")
      return a if isinstance(e2.ops[0], ast.Eq) else H.f_not(a)
    return None
  cond = H.Conditions(fn, sflow, key)
  for (n, c) in adds:
    actual = cond.of_stmt(c11._stmt_of(fn.node, c))
    okg = H.f_equivalent(actual, H.f_not(H.f_atom("is-default")))
    ok = ok and okg and cfg.dominated_by(n.id, writes)
    if not okg:
      wit = "added when " + H.f_show(actual)
  # and every path after the write with a non-default value passes the add: the test of the
  # default post-dominates the write
  ifs = {n.id for n in cfg.nodes if n.kind == "if" and
         "is-default" in H.f_atoms(cond.of_expr(n.stmt.test))}
  ok = ok and bool(ifs) and all(cfg.postdominated_by(x, ifs) for x in writes)
  run.ob(R3, fn.qualname, "super().set(...) -> if %s != self.getdefault(): self.%s.add(%s)"
         % (ps[2], SR, ps[1]), "after the write the row re-enters the sorted list under its new "
         "position, exactly when that position is not the default", ok, witness=wit, fi=fn.fi)
  # clear
  fn = w.fn("column.PositionColumn.clear")
  clr = fn.nodes_calling(lambda c, nm, f: nm == "self.%s.clear" % SR)
  base = _super_calls(fn, "clear")
  run.ob(R3, fn.qualname, "super().clear(); self.%s.clear()" % SR,
         "clearing storage clears the sorted list on every path",
         bool(clr) and bool(base) and fn.cfg.dominated_by(fn.cfg.exit.id, clr) and
         fn.cfg.dominated_by(fn.cfg.exit.id, base), fi=fn.fi)
  # copy_from_column
  fn = w.fn("column.PositionColumn.copy_from_column")
  p_other = fn.fi.params()[1]
  base = _super_calls(fn, "copy_from_column")
  reb = {n.id for n in fn.cfg.nodes if n.kind == "stmt" and isinstance(n.stmt, ast.Assign) and
         H.is_self_attr(n.stmt.targets[0], SR) and isinstance(n.stmt.value, ast.Call) and
         endswith(dotted(n.stmt.value.func), "SortedListWithKey") and n.stmt.value.args and
         any(isinstance(x, ast.Attribute) and x.attr == SR and text(x.value) == p_other
             for x in ast.walk(n.stmt.value.args[0]))}
  keyed = all(key_reads_storage(fn, fn.cfg.nodes[r].stmt.value) for r in reb)
  run.ob(R3, fn.qualname, "super().copy_from_column(o); self.%s = SortedListWithKey(o.%s[:], "
         "key=...)" % (SR, SR), "a copied column takes over the source's sorted rows, ordered "
         "by the stored position like the original list",
         bool(base) and bool(reb) and keyed and fn.cfg.dominated_by(fn.cfg.exit.id, reb) and
         all(fn.cfg.dominated_by(r, base) for r in reb), fi=fn.fi)
  # inherited storage writers must go through the overridden ones
  for m in E.COLUMN_MUTATORS:
    f = w.repo.find_method(ci, m)
    if f is None:
      raise AnalysisError("PositionColumn has no method %s" % m)
    if f.cls is ci:
      touches = any(isinstance(x, ast.Attribute) and x.attr == SR for x in ast.walk(f.node))
      run.ob(R3, f.qualname, "override of %s maintains self.%s" % (m, SR),
             "every storage-writing method defined on PositionColumn also maintains the sorted "
             "list", touches, fi=f, nontrivial=False)
      continue
    direct = [x for x in ast.walk(f.node) if isinstance(x, ast.Attribute) and x.attr == "_data"
              and isinstance(x.ctx, (ast.Store, ast.Del))] + \
             [x for x in ast.walk(f.node) if isinstance(x, ast.Subscript) and
              isinstance(x.ctx, (ast.Store, ast.Del)) and isinstance(x.value, ast.Attribute) and
              x.value.attr == "_data"]
    via = [c for c in calls_in(f.node) if isinstance(c.func, ast.Attribute) and
           isinstance(c.func.value, ast.Name) and c.func.value.id == "self" and
           c.func.attr in E.COLUMN_MUTATORS and
           w.repo.find_method(ci, c.func.attr).cls is ci]
    run.ob(R3, f.qualname, "inherited %s writes through an overridden method" % m,
           "a storage writer PositionColumn inherits does not touch storage behind the sorted "
           "list's back", not direct and bool(via), fi=f)


def _is_not_default(test, pval):
  if not (isinstance(test, ast.Compare) and len(test.ops) == 1 and
          isinstance(test.ops[0], ast.NotEq)):
    return False
  a, b = text(test.left), text(test.comparators[0])
  return {a, b} == {pval, "self.getdefault()"}


def r4_prepare(run, w):
  R4 = run.rule("C20-R4", "PositionColumn.prepare_new_values: current sorted rows (none when "
                "data is replaced) go to prepare_inserts; adjustment indexes are mapped back "
                "through the same order; own node", floor=4)
  fn = w.fn("column.PositionColumn.prepare_new_values")
  flow = H.Flow(fn, passthrough=False)
  ps = fn.fi.params()
  p_vals, p_ignore = ps[2], ps[3]
  pi = [(n, c) for (n, c, nm) in H.calls(fn) if endswith(nm, "prepare_inserts")]
  if len(pi) != 1:
    raise AnalysisError("PositionColumn.prepare_new_values: prepare_inserts call not found")
  (pn, pc) = pi[0]
  SR = "_sorted_rows"

  def list_cases(expr, nid, atoms=(), depth=0):
    """[(kind, atoms)] with kind 'sorted' | 'empty' | 'other:...' for a list expression, looking
    through SortedListWithKey(<list>, ...) wrappers, conditional values and locals."""
    out = []
    for case in H.value_cases(fn, flow, expr, nid):
      v = case.value
      at = list(atoms) + list(case.atoms)
      if H.is_self_attr(v, SR) or fn.name(v) == "self." + SR:
        out.append(("sorted", at))
      elif isinstance(v, ast.List) and not v.elts:
        out.append(("empty", at))
      elif isinstance(v, ast.Call) and endswith(fn.name(v.func) or dotted(v.func),
                                                "SortedListWithKey") and v.args and depth < 4:
        out.extend(list_cases(v.args[0], flow.node_of(v), at, depth + 1))
      else:
        if isinstance(v, ast.Call) or not isinstance(v, (ast.Name, ast.Attribute, ast.Subscript,
                                                         ast.List, ast.Tuple, ast.Constant,
                                                         ast.ListComp, ast.GeneratorExp,
                                                         ast.SetComp, ast.BinOp)):
          raise AnalysisError("PositionColumn.prepare_new_values: cannot follow the row list "
                              "%s" % short(v, 70))
        out.append(("other:%s" % short(v, 50), at))
    return out

  lc = list_cases(pc.args[0], pn.id) if pc.args else []
  org = {k for (k, at) in lc}
  run.ob(R4, fn.qualname, short(pc), "prepare_inserts is asked about the rows currently in the "
         "sorted list (or none)", bool(org) and org <= {"sorted", "empty"} and "sorted" in org,
         witness=", ".join(sorted(org)), fi=fn.fi, node=pc)
  rs = flow.roots(pc.args[1], pn.id) if len(pc.args) > 1 else []
  run.ob(R4, fn.qualname, "prepare_inserts(_, %s)" % p_vals, "the requested positions are the "
         "values being written", bool(rs) and all(r.kind == "param" and r.node == p_vals and
                                                  not r.path for r in rs), fi=fn.fi, node=pc)
  # the empty list is used exactly when ignore_data is set
  def says(at, pol):
    return any(text(t) == p_ignore and p is pol for (t, p) in at)
  ok = any(k == "empty" for (k, at) in lc) and any(k == "sorted" for (k, at) in lc) and \
      all(says(at, True) for (k, at) in lc if k == "empty") and \
      all(says(at, False) for (k, at) in lc if k == "sorted") and \
      not flow.du.defs.get(p_ignore)
  run.ob(R4, fn.qualname, "rows = [] if %s else self.%s" % (p_ignore, SR),
         "existing positions are disregarded exactly when the table data is being replaced", ok,
         fi=fn.fi)
  # adjustments -> action
  a2a_fi = w.fn("column._adjustments_to_action").fi
  a2a = [(flow.node_of(c), c) for c in calls_in(fn.node)
         if H.calls_anchor(w, fn, c, "column._adjustments_to_action")]
  if len(a2a) != 1:
    raise AnalysisError("PositionColumn.prepare_new_values: _adjustments_to_action not found")
  (an, ac) = a2a[0]
  b = H.bind_args(ac, a2a_fi)
  a_node, a_pairs = [b.get(x) for x in H._np(a2a_fi)[:2]]
  pairs = H.resolve(flow, a_pairs, an) if a_pairs is not None else None
  ok = a_node is not None and fn.name(a_node) == "self.node" and \
      isinstance(pairs, ast.ListComp) and len(pairs.generators) == 1 and \
      not pairs.generators[0].ifs
  wit = None
  if ok:
    g = pairs.generators[0]
    cn = flow.node_of(pairs)
    it = flow.roots(g.iter, cn)
    ok = bool(it) and all(r.kind == "call" and r.node is pc and r.path == (("idx", 0),)
                          for r in it)
    if ok:
      ok = isinstance(g.target, ast.Tuple) and len(g.target.elts) == 2 and \
          isinstance(pairs.elt, ast.Tuple) and len(pairs.elt.elts) == 2
    if ok:
      iv, pv = [text(e) for e in g.target.elts]
      e0, e1 = pairs.elt.elts
      ok = text(e1) == pv and isinstance(e0, ast.Subscript) and text(e0.slice) == iv
      if ok:
        org = {k for (k, at) in list_cases(e0.value, cn)}
        ok = bool(org) and org <= {"sorted", "empty"}
        wit = ", ".join(sorted(org))
  run.ob(R4, fn.qualname, short(ac), "each adjustment index is turned into the row at that "
         "index of the sorted order prepare_inserts saw, and the action targets this column",
         ok, witness=wit, fi=fn.fi, node=ac)
  cases = [c for c in H.return_cases(fn.node)]
  ok = bool(cases)
  for case in cases:
    rn = [m.id for m in fn.cfg.nodes if m.stmt is case.stmt][0]
    v = H.resolve(flow, case.value, rn) if case.value is not None else None
    okc = isinstance(v, ast.Tuple) and len(v.elts) == 2
    if okc:
      nv, adj = v.elts
      r0 = flow.roots(nv, rn)
      okc = bool(r0) and all(r.kind == "call" and r.node is pc and r.path == (("idx", 1),)
                             for r in r0)
      carried = any(x is ac for x in ast.walk(adj))
      for x in ast.walk(adj):
        if isinstance(x, ast.Name) and isinstance(x.ctx, ast.Load):
          rx = flow.roots(x, rn)
          if rx and all(r.kind == "call" and r.node is ac and not r.path for r in rx):
            carried = True
      okc = okc and carried
    ok = ok and okc
  run.ob(R4, fn.qualname, "return <new keys of prepare_inserts>, [<adjustment action>]",
         "the caller receives the relabelled positions for the new rows and the action that "
         "moves existing rows out of the way", ok, fi=fn.fi)


U = "sandbox/grist/useractions.py"
CO = "sandbox/grist/column.py"
EN = "sandbox/grist/engine.py"
VARIANTS = [
  ("add-adjusts-after-insert", U,
   """    for a in extra_actions:
      self._do_extra_doc_action(a)

    # We could set static default values for omitted data columns, or we can ensure that other
    # code (JS, DocStorage) is aware of the static defaults. Since other code is already aware,
    # we'll skip this step. We also don't populate column defaults when adding a new column.

    if table_id == "_grist_Validations":
      for idx, row_id in enumerate(filled_row_ids):
        self.doAddColumn(
          self._engine.tables["_grist_Tables"].get_column("tableId").raw_get(
            column_values["tableRef"][idx]), get_validation_func_name(row_id),
          { "isFormula" : True, "formula" : column_values["formula"][idx], "type": "Any" })

    self._do_doc_action(action)
""",
   """    if table_id == "_grist_Validations":
      for idx, row_id in enumerate(filled_row_ids):
        self.doAddColumn(
          self._engine.tables["_grist_Tables"].get_column("tableId").raw_get(
            column_values["tableRef"][idx]), get_validation_func_name(row_id),
          { "isFormula" : True, "formula" : column_values["formula"][idx], "type": "Any" })

    self._do_doc_action(action)
    for a in extra_actions:
      self._do_extra_doc_action(a)
""", "C20-R2"),
  ("update-adjusts-after-write", U,
   """    for a in extra_actions:
      self._do_extra_doc_action(a)

    # Finally, update the record
    self._do_doc_action(action)
""",
   """    # Finally, update the record
    self._do_doc_action(action)
    for a in extra_actions:
      self._do_extra_doc_action(a)
""", "C20-R2"),
  ("update-adjusts-only-user-tables", U,
   """    for a in extra_actions:
      self._do_extra_doc_action(a)

    # Finally, update the record""",
   """    for a in extra_actions:
      if not table_id.startswith('_grist_'):
        self._do_extra_doc_action(a)

    # Finally, update the record""", "C20-R2"),
  ("defaults-prepared-only-on-replace", EN,
   "        if col_id in column_values or column.is_virtual_column(col_id) or col_obj.is_formula():\n          continue",
   "        if col_id in column_values or column.is_virtual_column(col_id) or col_obj.is_formula():\n          continue\n        if not ignore_data and col_obj.getdefault() == 0:\n          continue",
   "C20-R1"),
  ("update-skips-conversion", U,
   """    action, extra_actions = self._engine.convert_action_values(
      actions.BulkUpdateRecord(table_id, row_ids, columns))
    action = [""",
   """    action, extra_actions = actions.BulkUpdateRecord(table_id, row_ids, columns), []
    action = [""", "C20-R1"),
  ("convert-drops-default-adjustments", EN,
   """            action_summary=self.out_actions.summary)
        extra_actions.extend(adjustments)
        if nvalues != defaults:""",
   """            action_summary=self.out_actions.summary)
        if nvalues != defaults:""", "C20-R1"),
  ("set-no-discard", CO,
   "    self._sorted_rows.discard(row_id)\n    super(PositionColumn, self).set(row_id, value)",
   "    super(PositionColumn, self).set(row_id, value)", "C20-R3"),
  ("set-discard-after-write", CO,
   "    self._sorted_rows.discard(row_id)\n    super(PositionColumn, self).set(row_id, value)",
   "    super(PositionColumn, self).set(row_id, value)\n    self._sorted_rows.discard(row_id)",
   "C20-R3"),
  ("set-adds-defaults-too", CO,
   "    if value != self.getdefault():\n      self._sorted_rows.add(row_id)",
   "    self._sorted_rows.add(row_id)", "C20-R3"),
  ("clear-keeps-sorted-rows", CO,
   "    super(PositionColumn, self).clear()\n    self._sorted_rows.clear()",
   "    super(PositionColumn, self).clear()", "C20-R3"),
  ("unset-writes-storage-directly", CO,
   "    self.set(row_id, self.getdefault())",
   "    self._data[row_id] = self.getdefault()", "C20-R3"),
  ("replace-keeps-old-positions", CO,
   "    if ignore_data:\n      rows = []\n    else:\n      rows = self._sorted_rows",
   "    rows = self._sorted_rows", "C20-R4"),
  ("adjustment-index-into-row-ids", CO,
   "        [(self._sorted_rows[i], pos) for (i, pos) in adjustments])",
   "        [(row_ids[i], pos) for (i, pos) in adjustments])", "C20-R4"),
  ("returns-requested-positions", CO,
   "    return new_values, ([adj_action] if adj_action else [])",
   "    return values, ([adj_action] if adj_action else [])", "C20-R4"),
]
