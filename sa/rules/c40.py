"""C40 Predicate formula parse trees are faithful -- structural clauses."""
import ast
import os
import re
from ..fn import World
from ..index import AnalysisError, dotted
from ..astutil import text, short, endswith, calls_in, walk_no_nested

EXPLANATION = (
  "Decides (R1) that every TreeConverter.visit_X consumes every field of ast.X (except ctx / kind "
  "/ type_comment) or rejects the node, so no part of an accepted expression is silently dropped; "
  "(R2) that anything without a visitor, unsupported operators and chained comparisons raise "
  "SyntaxError; (R3) that the set of node tags Python can emit equals the case labels of "
  "compilePredicateFormula in app/common/PredicateFormula.ts; (R4) that every leaf placed in a "
  "tree is JSON-safe: identifiers and class names are strings by the ast grammar, while "
  "Constant.value (str|int|float|complex|bytes|bool|None|Ellipsis) and keyword.arg (None for "
  "**kwargs) are emitted only under a guard that rejects the non-JSON cases. Not decided: that "
  "the Node-side evaluation of each tag agrees with Python's semantics.")

ALLOWED_UNUSED = {"ctx", "kind", "type_comment"}
LEGACY = {"Num", "Str", "NameConstant", "Bytes", "Ellipsis"}   # never produced by ast.parse >= 3.8
JSON_TYPES = {"str", "int", "float", "bool", "NoneType", "type(None)"}


def check(run, repo, tier):
  w = World(repo)
  tc = w.repo.cls("predicate_formula.TreeConverter")
  r1_fields(run, w, tc)
  r2_reject(run, w, tc)
  r3_tags(run, w, tc)
  r4_leaves(run, w, tc)


def _visitors(tc):
  out = {}
  for name, fi in tc.methods.items():
    if name.startswith("visit_"):
      out[name[6:]] = fi
  # aliases:  visit_NameConstant = visit_Constant
  for s in tc.node.body:
    if isinstance(s, ast.Assign) and isinstance(s.targets[0], ast.Name) and \
        s.targets[0].id.startswith("visit_") and isinstance(s.value, ast.Name) and \
        s.value.id.startswith("visit_"):
      out[s.targets[0].id[6:]] = tc.methods[s.value.id]
  return out


def r1_fields(run, w, tc):
  R1 = run.rule("C40-R1", "each visit_X reads every field of ast.X except ctx/kind/type_comment, "
                "delegates to a sibling, or rejects", floor=10)
  for cls_name, fi in sorted(_visitors(tc).items()):
    if cls_name in LEGACY:
      continue
    klass = getattr(ast, cls_name, None)
    if klass is None:
      run.ob(R1, fi.qualname, "ast.%s" % cls_name, "visitor names an ast class", False, fi=fi)
      continue
    p = fi.params()[1]
    used = {n.attr for n in ast.walk(fi.node) if isinstance(n, ast.Attribute) and
            isinstance(n.value, ast.Name) and n.value.id == p}
    delegates = any(isinstance(n, ast.Return) and isinstance(n.value, ast.Call) and
                    (dotted(n.value.func) or "").startswith("self.visit_") and
                    len(n.value.args) == 1 and text(n.value.args[0]) == p
                    for n in ast.walk(fi.node)) and len(fi.node.body) <= 2
    missing = [f for f in klass._fields if f not in used and f not in ALLOWED_UNUSED]
    run.ob(R1, fi.qualname, "fields of ast.%s: %s" % (cls_name, ", ".join(klass._fields)),
           "no field of an accepted node is ignored", delegates or not missing,
           witness=("unused: " + ", ".join(missing)) if missing and not delegates else None,
           fi=fi)


def r2_reject(run, w, tc):
  R2 = run.rule("C40-R2", "nodes without a visitor, unsupported operators and chained "
                "comparisons raise SyntaxError", floor=4)
  gv = tc.methods.get("generic_visit")
  ok = gv is not None and len(gv.node.body) >= 1 and \
      all(isinstance(s, (ast.Raise, ast.Expr)) for s in gv.node.body) and \
      any(isinstance(s, ast.Raise) and isinstance(s.exc, ast.Call) and
          dotted(s.exc.func) == "SyntaxError" for s in gv.node.body)
  run.ob(R2, tc.qualname + ".generic_visit", "raise SyntaxError(...)",
         "every ast node class without a visitor is rejected", ok, fi=gv)
  for name, want in (("visit_BinOp", {"Add", "Sub", "Mult", "Div", "Mod"}),
                     ("visit_UnaryOp", {"Not"})):
    fi = tc.methods[name]
    fn = w.fn_of(fi)
    cfg = fn.cfg
    p = fi.params()[1]
    tests = [n for n in cfg.nodes if n.kind == "if" and isinstance(n.stmt.test, ast.UnaryOp) and
             isinstance(n.stmt.test.op, ast.Not) and isinstance(n.stmt.test.operand, ast.Call) and
             dotted(n.stmt.test.operand.func) == "isinstance" and
             text(n.stmt.test.operand.args[0]) == p + ".op"]
    ok = False
    admitted = set()
    if len(tests) == 1:
      t = tests[0].stmt
      a = t.test.operand.args[1]
      elts = a.elts if isinstance(a, ast.Tuple) else [a]
      admitted = {(dotted(e) or "").split(".")[-1] for e in elts}
      rejects = all(isinstance(s, ast.Return) and isinstance(s.value, ast.Call) and
                    dotted(s.value.func) == "self.generic_visit" for s in t.body) and t.body
      emits = [n for n in cfg.nodes if n.kind == "return" and isinstance(n.stmt.value, ast.List)]
      ok = bool(rejects) and bool(emits) and all(cfg.dominated_by(e.id, {tests[0].id})
                                                 for e in emits)
    run.ob(R2, fi.qualname, "if not isinstance(node.op, (...)): return self.generic_visit(node)",
           "operators outside the supported set are rejected before a tree node is built", ok,
           fi=fi)
    run.ob(R2, fi.qualname, "admitted operators: %s" % ", ".join(sorted(admitted)),
           "the admitted operator set is the documented one", admitted == want, fi=fi,
           nontrivial=False)
  fi = tc.methods["visit_Compare"]
  fn = w.fn_of(fi)
  cfg = fn.cfg
  p = fi.params()[1]
  guards = [n for n in cfg.nodes if n.kind == "if" and
            any(isinstance(s, ast.Raise) for s in n.stmt.body) and
            "len(%s.ops) != 1" % p in text(n.stmt.test)]
  emits = [n for n in cfg.nodes if n.kind == "return"]
  ok = len(guards) == 1 and all(cfg.dominated_by(e.id, {guards[0].id}) for e in emits)
  run.ob(R2, fi.qualname, "if len(node.ops) != 1 ...: raise SyntaxError", "chained comparisons "
         "are rejected rather than truncated to their first operator", ok, fi=fi)


def _ts_case_labels(path, func_name):
  with open(path, encoding="utf-8") as fh:
    src = fh.read()
  i = src.find("function " + func_name)
  if i < 0:
    raise AnalysisError("%s not found in %s" % (func_name, path))
  m = re.search(r"switch\s*\(\s*node\[0\]\s*\)\s*\{", src[i:])
  if not m:
    raise AnalysisError("switch (node[0]) not found in %s" % func_name)
  j = i + m.end()
  depth = 1
  labels = []
  n = len(src)
  while j < n and depth > 0:
    ch = src[j]
    if src.startswith("//", j):
      j = src.index("\n", j)
      continue
    if src.startswith("/*", j):
      j = src.index("*/", j) + 2
      continue
    if ch in "\"'`":
      k = j + 1
      while k < n and src[k] != ch:
        k += 2 if src[k] == "\\" else 1
      if depth == 1:
        before = src[max(0, j - 8):j]
        if re.search(r"case\s+$", before):
          labels.append(src[j + 1:k])
      j = k + 1
      continue
    if ch == "{":
      depth += 1
    elif ch == "}":
      depth -= 1
    j += 1
  return labels


def r3_tags(run, w, tc):
  R3 = run.rule("C40-R3", "node tags Python can emit == case labels of compilePredicateFormula",
                floor=20)
  emitted = set()
  # literal tags at the head of returned lists
  for fi in list(tc.methods.values()) + [w.repo.func("predicate_formula.parse_predicate_formula")]:
    for n in ast.walk(fi.node):
      if isinstance(n, ast.List) and n.elts and isinstance(n.elts[0], ast.Constant) and \
          isinstance(n.elts[0].value, str):
        emitted.add(n.elts[0].value)
  # operator class names
  emitted |= {"And", "Or"}                          # ast.boolop: emitted unfiltered
  emitted |= {c.__name__ for c in ast.cmpop.__subclasses__()}   # ast.cmpop: emitted unfiltered
  for name in ("visit_BinOp", "visit_UnaryOp"):
    fi = tc.methods[name]
    for n in ast.walk(fi.node):
      if isinstance(n, ast.Call) and dotted(n.func) == "isinstance" and \
          text(n.args[0]).endswith(".op"):
        a = n.args[1]
        for e in (a.elts if isinstance(a, ast.Tuple) else [a]):
          emitted.add((dotted(e) or "").split(".")[-1])
  labels = _ts_case_labels(os.path.join(w.repo.root, "app", "common", "PredicateFormula.ts"),
                           "compilePredicateFormula")
  if len(labels) < 15:
    raise AnalysisError("fewer than 15 case labels extracted from PredicateFormula.ts")
  ts = set(labels)
  for t in sorted(emitted | ts):
    run.ob(R3, "predicate_formula <-> PredicateFormula.ts", "tag %r" % t,
           "tag is produced by Python and interpreted by Node", t in emitted and t in ts,
           witness=None if (t in emitted and t in ts) else
           ("only emitted by Python" if t in emitted else "only handled by Node"),
           nontrivial=False)
  # BoolOp / Compare really emit the class name of the operator
  for name, expr in (("visit_BoolOp", "node.op.__class__.__name__"),
                     ("visit_Compare", "node.ops[0].__class__.__name__")):
    fi = tc.methods[name]
    ok = any(isinstance(n, ast.List) and n.elts and text(n.elts[0]) == expr
             for n in ast.walk(fi.node))
    run.ob(R3, fi.qualname, "[%s, ...]" % expr, "the tag is the operator's ast class name", ok,
           fi=fi)


def r4_leaves(run, w, tc):
  R4 = run.rule("C40-R4", "every leaf placed in a tree is JSON-safe", floor=8)
  for cls_name, fi in sorted(_visitors(tc).items()):
    if cls_name in LEGACY:
      continue
    fn = w.fn_of(fi)
    cfg = fn.cfg
    p = fi.params()[1]
    for rn in [n for n in cfg.nodes if n.kind == "return" and n.stmt.value is not None]:
      for leaf in _leaves(rn.stmt.value, fi.node):
        t = text(leaf)
        if isinstance(leaf, ast.Constant):
          ok, why = isinstance(leaf.value, (str, int, float, bool, type(None))), "literal"
        elif t.endswith(".__class__.__name__"):
          ok, why = True, "class name (str)"
        elif t in (p + ".id", p + ".attr"):
          ok, why = True, "identifier field of the ast grammar (str)"
        elif t.startswith("named_constants["):
          nc = fi.module.assigns.get("named_constants")
          ok = isinstance(nc, ast.Dict) and all(isinstance(v, ast.Constant) and
                                                isinstance(v.value, (bool, type(None)))
                                                for v in nc.values)
          why = "value of the named_constants literal table"
        elif t == p + ".value" and cls_name == "Constant":
          ok = _guarded(cfg, rn, lambda s: _rejects_non_json(s, p))
          why = "Constant.value may be bytes/complex/Ellipsis: needs a rejecting isinstance guard"
        elif t.endswith(".arg"):
          ok = _guarded(cfg, rn, lambda s: _rejects_none_arg(s, p))
          why = "keyword.arg is None for **kwargs: needs a rejecting guard"
        else:
          ok, why = False, "leaf of unknown type"
        run.ob(R4, fi.qualname, "leaf %s" % short(leaf, 50), "leaf is JSON-safe (%s)" % why, ok,
               fi=fi, node=leaf)
  ppf = w.fn("predicate_formula.parse_predicate_formula")
  ok = any(isinstance(n, ast.List) and n.elts and text(n.elts[0]) == "'Comment'" and
           text(n.elts[2]).endswith(".strip()") for n in ast.walk(ppf.node))
  run.ob(R4, ppf.qualname, "['Comment', result, part[1][1:].strip()]", "comment text is a str",
         ok, fi=ppf.fi, nontrivial=False)
  # errors raised while converting are (re)raised as SyntaxError only
  trys = [s for s in ppf.node.body if isinstance(s, ast.Try)]
  ok = len(trys) == 1 and [text(h.type) for h in trys[0].handlers] == ["SyntaxError"] and \
      all(isinstance(h.body[-1], ast.Raise) and isinstance(h.body[-1].exc, ast.Call) and
          "SyntaxError" in text(h.body[-1].exc) for h in trys[0].handlers)
  run.ob(R4, ppf.qualname, "except SyntaxError: raise SyntaxError(...)",
         "unsupported input is reported as SyntaxError", ok, fi=ppf.fi)


def _leaves(e, fnode=None, seen=None):
  """Leaf expressions of a returned tree expression (not recursive self.visit results)."""
  seen = seen if seen is not None else set()
  if isinstance(e, ast.List):
    out = []
    for x in e.elts:
      out += _leaves(x, fnode, seen)
    return out
  if isinstance(e, ast.BinOp) and isinstance(e.op, ast.Add):
    return _leaves(e.left, fnode, seen) + _leaves(e.right, fnode, seen)
  if isinstance(e, ast.ListComp):
    return _leaves(e.elt, fnode, seen)
  if isinstance(e, ast.Name) and fnode is not None and e.id not in seen:
    # a local list built above: its initial value and everything appended to it
    seen.add(e.id)
    out = []
    for n in ast.walk(fnode):
      if isinstance(n, ast.Assign) and any(isinstance(t, ast.Name) and t.id == e.id
                                           for t in n.targets):
        out += _leaves(n.value, fnode, seen)
      if isinstance(n, ast.Call) and isinstance(n.func, ast.Attribute) and \
          n.func.attr in ("append", "extend", "insert") and \
          isinstance(n.func.value, ast.Name) and n.func.value.id == e.id:
        for a in n.args:
          out += _leaves(a, fnode, seen)
    return out
  if isinstance(e, ast.Call):
    d = dotted(e.func) or ""
    if d.startswith("self.visit") or d == "self.generic_visit":
      return []
  if isinstance(e, ast.Name):
    return []       # a local list built above (args): its parts are returned lists themselves
  return [e]


def _guarded(cfg, ret_node, is_guard):
  guards = {n.id for n in cfg.nodes if n.kind == "if" and is_guard(n.stmt)}
  return bool(guards) and cfg.dominated_by(ret_node.id, guards)


def _body_rejects(stmt):
  return bool(stmt.body) and all(
    (isinstance(s, ast.Return) and isinstance(s.value, ast.Call) and
     dotted(s.value.func) == "self.generic_visit") or isinstance(s, ast.Raise)
    for s in stmt.body)


def _rejects_non_json(stmt, p):
  t = stmt.test
  if isinstance(t, ast.UnaryOp) and isinstance(t.op, ast.Not) and isinstance(t.operand, ast.Call) \
      and dotted(t.operand.func) == "isinstance" and text(t.operand.args[0]) == p + ".value":
    a = t.operand.args[1]
    names = {text(e) for e in (a.elts if isinstance(a, ast.Tuple) else [a])}
    return names <= JSON_TYPES and _body_rejects(stmt)
  return False


def _rejects_none_arg(stmt, p):
  t = text(stmt.test)
  return (".arg is None" in t and (p + ".keywords") in t) and _body_rejects(stmt)


P = "sandbox/grist/predicate_formula.py"
VARIANTS = [
  ("constant-unguarded", P, """    if not isinstance(node.value, (str, int, float, bool, type(None))):
      return self.generic_visit(node)
""", "", "C40-R4"),
  ("constant-allows-bytes", P, "(str, int, float, bool, type(None))", "(str, bytes, int, float, bool, type(None))", "C40-R4"),
  ("kwargs-unguarded", P, """    if any(v.arg is None for v in node.keywords):
      # A `**kwargs` argument has no name to keep; it is not supported.
      return self.generic_visit(node)
""", "", "C40-R4"),
  ("chained-compare-truncated", P, """    if len(node.ops) != 1 or len(node.comparators) != 1:
      raise SyntaxError("Can't use chained comparisons")
""", "", "C40-R2"),
  ("binop-unfiltered", P, """    if not isinstance(node.op, (ast.Add, ast.Sub, ast.Mult, ast.Div, ast.Mod)):
      return self.generic_visit(node)
""", "", "C40-R2"),
  ("new-operator-unknown-to-node", P, "(ast.Add, ast.Sub, ast.Mult, ast.Div, ast.Mod)", "(ast.Add, ast.Sub, ast.Mult, ast.Div, ast.Mod, ast.Pow)", "C40-R3"),
  ("generic-visit-silent", P, """  def generic_visit(self, node):
    raise SyntaxError("Unsupported syntax at %s:%s" % (node.lineno, node.col_offset + 1))""",
   """  def generic_visit(self, node):
    return ["Const", None]""", "C40-R2"),
  ("call-drops-keywords", P, """    if node.keywords:
      # E.g. foo(a, b=2, c=3) becomes [Call, foo, a, [keywords, [b, 2], [c, 3]]]
      args.append(['keywords'] + [[v.arg, self.visit(v.value)] for v in node.keywords])
""", "", "C40-R3"),
  ("attribute-drops-name", P, '    return ["Attr", self.visit(node.value), node.attr]', '    return ["Attr", self.visit(node.value)]', "C40-R1"),
  ("node-side-misses-tag", "app/common/PredicateFormula.ts", '      case "Comment": return compileNode(args[0]);\n', "", "C40-R3"),
]
