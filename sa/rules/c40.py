"""C40 Predicate formula parse trees are faithful -- structural clauses."""
import ast
import copy
import os
import re
from ..fn import World
from ..index import AnalysisError, dotted
from ..astutil import text, short, endswith, calls_in, walk_no_nested
from ._h_F import ifn, Res, res_of, canon, _At, sole_arg, need, repo_callees

EXPLANATION = (
  "Decides (R1) that every TreeConverter.visit_X consumes every field of ast.X (except ctx / kind "
  "/ type_comment) or rejects the node, so no part of an accepted expression is silently dropped; "
  "(R2) that anything without a visitor, unsupported operators and chained comparisons raise "
  "SyntaxError; (R3) that the set of node tags Python can emit equals the case labels of "
  "compilePredicateFormula in app/common/PredicateFormula.ts; (R4) that every leaf placed in a "
  "tree is JSON-safe: identifiers and class names are strings by the ast grammar, while "
  "Constant.value (str|int|float|complex|bytes|bool|None|Ellipsis) and keyword.arg (None for "
  "**kwargs) are emitted only under a guard that rejects the non-JSON cases; (R5) in the `$x` -> `rec.x` "
  "preprocessing run before the parse, the match that bounds each patch is anchored at the "
  "mapped-back position of the DOLLAR-prefixed Name, not searched forward. Not decided: that "
  "the Node-side evaluation of each tag agrees with Python's semantics.")

ALLOWED_UNUSED = {"ctx", "kind", "type_comment"}
LEGACY = {"Num", "Str", "NameConstant", "Bytes", "Ellipsis"}   # never produced by ast.parse >= 3.8
JSON_TYPES = {"str", "int", "float", "bool", "NoneType", "type(None)"}


def check(run, repo, tier):
  w = World(repo)
  tc = w.repo.cls("predicate_formula.TreeConverter")
  r1_fields(run, w, tc)
  r2_reject(run, w, tc)
  r3_tags(run, w, tc)
  r4_leaves(run, w, tc)
  r5_dollar(run, w)


def _visitors(tc):
  out = {}
  for name, fi in tc.methods.items():
    if name.startswith("visit_"):
      out[name[6:]] = fi
  # aliases:  visit_NameConstant = visit_Constant
  for s in tc.node.body:
    if isinstance(s, ast.Assign) and isinstance(s.targets[0], ast.Name) and \
        s.targets[0].id.startswith("visit_") and isinstance(s.value, ast.Name) and \
        s.value.id.startswith("visit_"):
      out[s.targets[0].id[6:]] = tc.methods[s.value.id]
  return out


def r1_fields(run, w, tc):
  R1 = run.rule("C40-R1", "each visit_X reads every field of ast.X except ctx/kind/type_comment, "
                "delegates to a sibling, or rejects", floor=10)
  for cls_name, fi in sorted(_visitors(tc).items()):
    if cls_name in LEGACY:
      continue
    klass = getattr(ast, cls_name, None)
    if klass is None:
      run.ob(R1, fi.qualname, "ast.%s" % cls_name, "visitor names an ast class", False, fi=fi)
      continue
    p = fi.params()[1]
    used = {n.attr for n in ast.walk(ifn(w, fi.qualname).node) if isinstance(n, ast.Attribute)
            and isinstance(n.value, ast.Name) and n.value.id == p}
    # pure delegation: whatever is returned is a sibling visitor's result for the same node
    r = res_of(w, ifn(w, fi.qualname))
    rets = r.returns()
    delegates = bool(rets) and not r.falls_off_end() and not r.bare_returns() and all(
      isinstance(leaf, ast.Call) and (dotted(leaf.func) or "").startswith("self.visit_") and
      sole_arg(leaf) is not None and text(sole_arg(leaf)) == p
      for (n, v) in rets for (f, leaf) in Res.cases(v))
    missing = [f for f in klass._fields if f not in used and f not in ALLOWED_UNUSED]
    run.ob(R1, fi.qualname, "fields of ast.%s: %s" % (cls_name, ", ".join(klass._fields)),
           "no field of an accepted node is ignored", delegates or not missing,
           witness=("unused: " + ", ".join(missing)) if missing and not delegates else None,
           fi=fi)


def _rejecting(r, n, v, p):
  """Return node n (resolved value v) hands the node to generic_visit (which raises)."""
  return all(isinstance(leaf, ast.Call) and dotted(leaf.func) == "self.generic_visit" and
             sole_arg(leaf) is not None and text(sole_arg(leaf)) == p
             for (f, leaf) in Res.cases(v))


def _class_names(mod_unused, a):
  elts = a.elts if isinstance(a, ast.Tuple) else [a]
  return {(dotted(e) or "").split(".")[-1] for e in elts}


def r2_reject(run, w, tc):
  R2 = run.rule("C40-R2", "nodes without a visitor, unsupported operators and chained "
                "comparisons raise SyntaxError", floor=4)
  gv = tc.methods.get("generic_visit")
  ok = gv is not None
  if ok:
    g = ifn(w, gv.qualname)
    cfg = g.cfg
    raises = [n for n in cfg.nodes if n.kind == "raise_stmt"]
    gr = res_of(w, g)
    ok = cfg.exit.id not in cfg.reach({cfg.entry.id}) and bool(raises) and all(
      n.stmt.exc is not None and isinstance(gr.expand(n.stmt.exc, n.id), ast.Call) and
      dotted(gr.expand(n.stmt.exc, n.id).func) == "SyntaxError" for n in raises)
  run.ob(R2, tc.qualname + ".generic_visit", "raise SyntaxError(...)",
         "every ast node class without a visitor is rejected", ok, fi=gv)
  for name, want in (("visit_BinOp", {"Add", "Sub", "Mult", "Div", "Mod"}),
                     ("visit_UnaryOp", {"Not"})):
    fi = tc.methods[name]
    fn = ifn(w, fi.qualname)
    r = res_of(w, fn)
    p = fi.params()[1]
    admitted = set()
    def op_test(a, node):
      if isinstance(a, ast.Call) and dotted(a.func) == "isinstance" and len(a.args) == 2 and \
          r.norm(a.args[0], node.id) == p + ".op":
        admitted.update(_class_names(None, a.args[1]))
        return True
      return False
    rets = r.returns()
    emits = [(n, v) for (n, v) in rets if not _rejecting(r, n, v, p)]
    need(emits, "a return that builds the tree node", fn)
    ok = bool(emits) and not r.falls_off_end() and not r.bare_returns() and \
        all(r.known(n.id, op_test, True) for (n, v) in emits)
    run.ob(R2, fi.qualname, "if not isinstance(node.op, (...)): return self.generic_visit(node)",
           "operators outside the supported set are rejected before a tree node is built", ok,
           fi=fi)
    run.ob(R2, fi.qualname, "admitted operators: %s" % ", ".join(sorted(admitted)),
           "the admitted operator set is the documented one", admitted == want, fi=fi,
           nontrivial=False)
  fi = tc.methods["visit_Compare"]
  fn = ifn(w, fi.qualname)
  r = res_of(w, fn)
  p = fi.params()[1]
  def one_op(a, node):
    return isinstance(a, ast.Compare) and isinstance(a.ops[0], ast.Eq) and \
        {r.norm(a.left, node.id), r.norm(a.comparators[0], node.id)} == {"len(%s.ops)" % p, "1"}
  rets = r.returns()
  need(rets, "a return that builds the tree node", fn)
  ok = bool(rets) and not r.falls_off_end() and all(r.known(n.id, one_op, True)
                                                    for (n, v) in rets)
  run.ob(R2, fi.qualname, "if len(node.ops) != 1 ...: raise SyntaxError", "chained comparisons "
         "are rejected rather than truncated to their first operator", ok, fi=fi)


def _ts_case_labels(path, func_name):
  with open(path, encoding="utf-8") as fh:
    src = fh.read()
  i = src.find("function " + func_name)
  if i < 0:
    raise AnalysisError("%s not found in %s" % (func_name, path))
  m = re.search(r"switch\s*\(\s*node\[0\]\s*\)\s*\{", src[i:])
  if not m:
    raise AnalysisError("switch (node[0]) not found in %s" % func_name)
  j = i + m.end()
  depth = 1
  labels = []
  n = len(src)
  while j < n and depth > 0:
    ch = src[j]
    if src.startswith("//", j):
      j = src.index("\n", j)
      continue
    if src.startswith("/*", j):
      j = src.index("*/", j) + 2
      continue
    if ch in "\"'`":
      k = j + 1
      while k < n and src[k] != ch:
        k += 2 if src[k] == "\\" else 1
      if depth == 1:
        before = src[max(0, j - 8):j]
        if re.search(r"case\s+$", before):
          labels.append(src[j + 1:k])
      j = k + 1
      continue
    if ch == "{":
      depth += 1
    elif ch == "}":
      depth -= 1
    j += 1
  return labels


def r3_tags(run, w, tc):
  R3 = run.rule("C40-R3", "node tags Python can emit == case labels of compilePredicateFormula",
                floor=20)
  emitted = set()
  # literal tags at the head of returned lists
  # (anywhere in the module: the converter's methods, the parse function, helpers they call)
  mod = w.repo.module("predicate_formula")
  for fi in list(tc.methods.values()) + list(mod.functions.values()):
    for n in ast.walk(fi.node):
      if isinstance(n, ast.List) and n.elts and isinstance(n.elts[0], ast.Constant) and \
          isinstance(n.elts[0].value, str):
        emitted.add(n.elts[0].value)
  # operator class names
  emitted |= {"And", "Or"}                          # ast.boolop: emitted unfiltered
  emitted |= {c.__name__ for c in ast.cmpop.__subclasses__()}   # ast.cmpop: emitted unfiltered
  for name in ("visit_BinOp", "visit_UnaryOp"):
    fi = tc.methods[name]
    r = res_of(w, ifn(w, fi.qualname))
    for cn in r.cfg.nodes:
      for root in cn.exprs:
        for n in walk_no_nested(root):
          if isinstance(n, ast.Call) and dotted(n.func) == "isinstance" and len(n.args) == 2 and \
              r.norm(n.args[0], cn.id) == fi.params()[1] + ".op":
            a = r.expand(n.args[1], cn.id)
            for e in (a.elts if isinstance(a, ast.Tuple) else [a]):
              emitted.add((dotted(e) or "").split(".")[-1])
  labels = _ts_case_labels(os.path.join(w.repo.root, "app", "common", "PredicateFormula.ts"),
                           "compilePredicateFormula")
  if len(labels) < 15:
    raise AnalysisError("fewer than 15 case labels extracted from PredicateFormula.ts")
  ts = set(labels)
  for t in sorted(emitted | ts):
    run.ob(R3, "predicate_formula <-> PredicateFormula.ts", "tag %r" % t,
           "tag is produced by Python and interpreted by Node", t in emitted and t in ts,
           witness=None if (t in emitted and t in ts) else
           ("only emitted by Python" if t in emitted else "only handled by Node"),
           nontrivial=False)
  # BoolOp / Compare really emit the class name of the operator
  for name, expr in (("visit_BoolOp", "%s.op.__class__.__name__"),
                     ("visit_Compare", "%s.ops[0].__class__.__name__")):
    fi = tc.methods[name]
    r = res_of(w, ifn(w, fi.qualname))
    want = expr % fi.params()[1]
    def head(v):
      while isinstance(v, ast.BinOp) and isinstance(v.op, ast.Add):
        v = v.left
      return text(v.elts[0]) if isinstance(v, ast.List) and v.elts else None
    rets = r.returns()
    ok = bool(rets) and all(head(leaf) == want for (n, v) in rets for (f, leaf) in Res.cases(v))
    run.ob(R3, fi.qualname, "[%s, ...]" % (expr % "node"), "the tag is the operator's ast class "
           "name", ok, fi=fi)


def r4_leaves(run, w, tc):
  R4 = run.rule("C40-R4", "every leaf placed in a tree is JSON-safe", floor=8)
  for cls_name, fi in sorted(_visitors(tc).items()):
    if cls_name in LEGACY:
      continue
    fn = ifn(w, fi.qualname)
    cfg = fn.cfg
    r = res_of(w, fn)
    p = fi.params()[1]
    for rn in [n for n in cfg.nodes if n.kind == "return" and n.stmt.value is not None]:
      for (leaf, at) in _leaves(rn.stmt.value, r, rn.id):
        t = text(leaf)
        if isinstance(leaf, ast.Constant):
          ok, why = isinstance(leaf.value, (str, int, float, bool, type(None))), "literal"
        elif t.endswith(".__class__.__name__"):
          ok, why = True, "class name (str)"
        elif t in (p + ".id", p + ".attr"):
          ok, why = True, "identifier field of the ast grammar (str)"
        elif t.startswith("named_constants["):
          nc = fi.module.assigns.get("named_constants")
          ok = isinstance(nc, ast.Dict) and all(isinstance(v, ast.Constant) and
                                                isinstance(v.value, (bool, type(None)))
                                                for v in nc.values)
          why = "value of the named_constants literal table"
        elif t == p + ".value" and cls_name == "Constant":
          ok = r.known(at, lambda a, nd: _json_only(r, a, nd, p), True, within=leaf) or \
              r.known(rn.id, lambda a, nd: _json_only(r, a, nd, p), True)
          why = "Constant.value may be bytes/complex/Ellipsis: needs a rejecting isinstance guard"
        elif t.endswith(".arg"):
          ok = r.known(at, lambda a, nd: _any_none_arg(r, a, nd, p), False, within=leaf) or \
              r.known(rn.id, lambda a, nd: _any_none_arg(r, a, nd, p), False)
          why = "keyword.arg is None for **kwargs: needs a rejecting guard"
        else:
          ok, why = False, "leaf of unknown type"
        run.ob(R4, fi.qualname, "leaf %s" % short(leaf, 50), "leaf is JSON-safe (%s)" % why, ok,
               fi=fi, node=leaf)
  ppf = ifn(w, "predicate_formula.parse_predicate_formula")
  comments = [n for f in [ppf.node] + [x.node for x in w.repo.module("predicate_formula")
                                        .functions.values()]
              for n in ast.walk(f) if isinstance(n, ast.List) and len(n.elts) == 3 and
              text(n.elts[0]) == "'Comment'"]
  need(comments, "the ['Comment', tree, text] node", ppf)
  ok = all(text(n.elts[2]).endswith(".strip()") or
           (isinstance(n.elts[2], ast.Call) and dotted(n.elts[2].func) == "str") for n in comments)
  run.ob(R4, ppf.qualname, "['Comment', result, part[1][1:].strip()]", "comment text is a str",
         ok, fi=ppf.fi, nontrivial=False)
  # errors raised while converting are (re)raised as SyntaxError only
  trys = [s for s in ppf.node.body if isinstance(s, ast.Try)]
  need(trys, "the try statement around the conversion", ppf)
  ok = len(trys) == 1 and [text(h.type) for h in trys[0].handlers] == ["SyntaxError"] and \
      all(isinstance(h.body[-1], ast.Raise) and isinstance(h.body[-1].exc, ast.Call) and
          "SyntaxError" in text(h.body[-1].exc) for h in trys[0].handlers)
  run.ob(R4, ppf.qualname, "except SyntaxError: raise SyntaxError(...)",
         "unsupported input is reported as SyntaxError", ok, fi=ppf.fi)


ANCHORED = {"match", "fullmatch"}
FORWARD = {"search", "finditer", "findall", "sub", "subn", "split"}


def r5_dollar(run, w):
  """The `$x` -> `rec.x` preprocessing that parse_predicate_formula runs before ast.parse."""
  R5 = run.rule("C40-R5", "the `$` -> `rec.` preprocessing patches only the `$` found AT the "
                "mapped-back position of a DOLLAR-prefixed Name: the match whose bounds become the "
                "patch is anchored there (a forward search would also rewrite a `$` inside a later "
                "string, comment or reference when the Name is a genuine DOLLAR... identifier)",
                floor=1)
  ppf = w.repo.func("predicate_formula.parse_predicate_formula")
  callees = [c for c in calls_in(ppf.node) if (dotted(c.func) or "").split(".")[-1].endswith("dollar_replacer")]
  need(callees, "the call of the dollar replacer", ppf)
  name = dotted(callees[0].func).split(".")[-1]
  fi = None
  for mod in ("codebuilder", "predicate_formula"):
    try:
      fi = w.repo.func("%s.%s" % (mod, name))
      break
    except Exception:        # pylint: disable=broad-except
      continue
  need(fi, "the definition of %s" % name, ppf)
  return anchored_dollar_patches(run, R5, fi)


def anchored_dollar_patches(run, R5, fi):
  """obligations for every `rec.` patch of `fi` bounded by a regex match (shared with C19-R8)"""
  # patches whose bounds come from a match object:  make_patch(text, m.start(..), m.end(..), 'rec.')
  sites = []
  called = {(dotted(c.func) or "").split(".")[-1] for c in calls_in(fi.node)}
  scopes = [fi] + [g for g in fi.module.functions.values() if g is not fi and g.name in called]
  for g, c in [(g, c) for g in scopes for c in calls_in(g.node)]:
    if not (dotted(c.func) or "").endswith("make_patch"):
      continue
    bounds = list(c.args[1:3]) + [k.value for k in c.keywords if k.arg in ("start", "end")]
    if len(bounds) < 2:
      continue
    ms = {text(a.func.value) for a in bounds
          if isinstance(a, ast.Call) and isinstance(a.func, ast.Attribute) and
          a.func.attr in ("start", "end", "span") and isinstance(a.func.value, ast.Name)}
    if len(ms) == 1:
      sites.append((g, c, ms.pop()))
  need(sites, "a patch whose bounds are taken from a regular-expression match", fi)
  n = 0
  for g, c, m in sites:
    defs = [s.value for s in ast.walk(g.node) if isinstance(s, ast.Assign) and
            any(isinstance(t, ast.Name) and t.id == m for t in s.targets)]
    defs += [s.value for s in ast.walk(g.node) if isinstance(s, ast.NamedExpr) and s.target.id == m]
    calls = [d for d in defs if isinstance(d, ast.Call) and isinstance(d.func, ast.Attribute)]
    if not calls or len(calls) != len(defs):
      need(None, "the call that produces the match object `%s`" % m, fi)
    for d in calls:
      meth = d.func.attr
      if meth not in ANCHORED and meth not in FORWARD:
        need(None, "an anchored or forward regex method in `%s`" % short(d, 60), fi)
      positional = len(d.args) >= 2 or any(k.arg == "pos" for k in d.keywords)
      if meth in ANCHORED and not positional:
        need(None, "the position argument of `%s`" % short(d, 60), fi)
      run.ob(R5, fi.qualname, "%s = %s" % (m, short(d, 70)),
             "the match that bounds the `rec.` patch is anchored at the mapped-back position "
             "of the Name (re match/fullmatch with a position), not searched forward from it",
             meth in ANCHORED, fi=fi, node=d)
      n += 1
  return n


def _leaves(e, r, nid, seen=None, depth=0):
  """[(leaf expression, id of the CFG node where it is evaluated)] of a returned tree expression
  (not the recursive self.visit results). Locals are followed through the definitions that reach
  the node; lists built by append/extend through their elements."""
  seen = seen if seen is not None else set()
  if isinstance(e, _At):
    return _leaves(e.expr, r, e.nid, seen, depth)
  if isinstance(e, (ast.List, ast.Tuple)):
    out = []
    for x in e.elts:
      out += _leaves(x, r, nid, seen, depth)
    return out
  if isinstance(e, ast.BinOp) and isinstance(e.op, ast.Add):
    return _leaves(e.left, r, nid, seen, depth) + _leaves(e.right, r, nid, seen, depth)
  if isinstance(e, ast.IfExp):
    return _leaves(e.body, r, nid, seen, depth) + _leaves(e.orelse, r, nid, seen, depth)
  if isinstance(e, ast.ListComp):
    return _leaves(e.elt, r, nid, seen, depth)
  if isinstance(e, ast.Call):
    d = dotted(e.func) or ""
    if d.startswith("self.visit") or d == "self.generic_visit":
      return []
    tg = repo_callees(r.fn.world, r.fn, e)
    if tg:
      # a helper that was not dissolved (decorated, large): its own returns, with its parameters
      # read as the arguments passed here
      if len(tg) != 1 or depth > 2:
        raise AnalysisError("%s: part of the tree is built by %s, which is not followed"
                            % (r.fn.qualname, d or short(e.func, 40)))
      g = r.fn.world.fn_of(tg[0])
      gr = res_of(r.fn.world, g)
      ps = [x for x in tg[0].params() if not (tg[0].cls is not None and x in ("self", "cls"))]
      mapping = {}
      for i, a in enumerate(e.args):
        if isinstance(a, ast.Starred) or i >= len(ps):
          raise AnalysisError("%s: call of %s not understood" % (r.fn.qualname, d))
        mapping[ps[i]] = a
      for k in e.keywords:
        if k.arg is None or k.arg not in ps:
          raise AnalysisError("%s: call of %s not understood" % (r.fn.qualname, d))
        mapping[k.arg] = k.value
      class Sub(ast.NodeTransformer):
        def visit_Name(self, n):
          if isinstance(n.ctx, ast.Load) and n.id in mapping:
            return copy.deepcopy(mapping[n.id])
          return n
      out = []
      for (gn, gv) in gr.returns(expand=False):
        for (leaf, at) in _leaves(gv, gr, gn.id, set(), depth + 1):
          out.append((Sub().visit(gr.expand(leaf, at)), nid))
      if gr.falls_off_end() or gr.bare_returns():
        out.append((ast.Constant(value=None), nid))
      return out
  if isinstance(e, ast.Name):
    if depth > 6 or (e.id, nid) in seen:
      return []
    seen.add((e.id, nid))
    b = r.binding(nid, e.id)
    if b is not None:
      return _leaves(b[0], r, b[1], seen, depth + 1)
    els = r.elements(e, nid)
    if els is None:
      return [(e, nid)]     # not a list built here: a leaf of unknown type
    out = []
    for el in els:
      at = el.node.id if el.node is not None else nid
      if el.key is not None:
        out += _leaves(el.key, r, at, seen, depth + 1)
      out += _leaves(el.elt, r, at, seen, depth + 1)
    return out
  return [(e, nid)]


def _json_only(r, a, node, p):
  """atom: isinstance(<node>.value, (str, int, float, bool, type(None))) -- JSON types only"""
  if not (isinstance(a, ast.Call) and dotted(a.func) == "isinstance" and len(a.args) == 2 and
          r.norm(a.args[0], node.id) == p + ".value"):
    return False
  t = r.expand(a.args[1], node.id)
  names = {text(e) for e in (t.elts if isinstance(t, ast.Tuple) else [t])}
  return names <= JSON_TYPES


def _any_none_arg(r, a, node, p):
  """atom: any(<k>.arg is None for <k> in <node>.keywords)"""
  if not (isinstance(a, ast.Call) and dotted(a.func) == "any" and len(a.args) == 1 and
          isinstance(a.args[0], (ast.GeneratorExp, ast.ListComp))):
    return False
  g = a.args[0]
  if len(g.generators) != 1 or g.generators[0].ifs or \
      r.norm(g.generators[0].iter, node.id) != p + ".keywords":
    return False
  e, pol = canon(g.elt)
  return pol and isinstance(e, ast.Compare) and isinstance(e.ops[0], ast.Is) and \
      isinstance(e.comparators[0], ast.Constant) and e.comparators[0].value is None and \
      text(e.left) == text(g.generators[0].target) + ".arg"


P = "sandbox/grist/predicate_formula.py"
CB = "sandbox/grist/codebuilder.py"
VARIANTS = [
  ("dollar-replacer-searches-forward", CB, """      input_pos = tmp_formula.map_back_offset(startpos)
      m = DOLLAR_REGEX.match(formula, input_pos)
      if m:
        patches.append(textbuilder.make_patch(formula, m.start(0), m.end(0), 'rec.'))
  final_formula""", """      input_pos = tmp_formula.map_back_offset(startpos)
      m = DOLLAR_REGEX.search(formula, input_pos)
      if m:
        patches.append(textbuilder.make_patch(formula, m.start(0), m.end(0), 'rec.'))
  final_formula""", "C40-R5"),
  ("constant-unguarded", P, """    if not isinstance(node.value, (str, int, float, bool, type(None))):
      return self.generic_visit(node)
""", "", "C40-R4"),
  ("constant-allows-bytes", P, "(str, int, float, bool, type(None))", "(str, bytes, int, float, bool, type(None))", "C40-R4"),
  ("kwargs-unguarded", P, """    if any(v.arg is None for v in node.keywords):
      # A `**kwargs` argument has no name to keep; it is not supported.
      return self.generic_visit(node)
""", "", "C40-R4"),
  ("chained-compare-truncated", P, """    if len(node.ops) != 1 or len(node.comparators) != 1:
      raise SyntaxError("Can't use chained comparisons")
""", "", "C40-R2"),
  ("binop-unfiltered", P, """    if not isinstance(node.op, (ast.Add, ast.Sub, ast.Mult, ast.Div, ast.Mod)):
      return self.generic_visit(node)
""", "", "C40-R2"),
  ("new-operator-unknown-to-node", P, "(ast.Add, ast.Sub, ast.Mult, ast.Div, ast.Mod)", "(ast.Add, ast.Sub, ast.Mult, ast.Div, ast.Mod, ast.Pow)", "C40-R3"),
  ("generic-visit-silent", P, """  def generic_visit(self, node):
    raise SyntaxError("Unsupported syntax at %s:%s" % (node.lineno, node.col_offset + 1))""",
   """  def generic_visit(self, node):
    return ["Const", None]""", "C40-R2"),
  ("call-drops-keywords", P, """    if node.keywords:
      # E.g. foo(a, b=2, c=3) becomes [Call, foo, a, [keywords, [b, 2], [c, 3]]]
      args.append(['keywords'] + [[v.arg, self.visit(v.value)] for v in node.keywords])
""", "", "C40-R3"),
  ("attribute-drops-name", P, '    return ["Attr", self.visit(node.value), node.attr]', '    return ["Attr", self.visit(node.value)]', "C40-R1"),
  ("node-side-misses-tag", "app/common/PredicateFormula.ts", '      case "Comment": return compileNode(args[0]);\n', "", "C40-R3"),
]
