"""C14 Sorted searches and PREVIOUS/NEXT/RANK agree with a linear scan -- structural clauses.

Reading the code: every rule function is evaluated through H.guarded_views -- on the source as
written and on behaviour-preserving normal forms of it (see _h_C.py / _h_C_norm.py) -- and slots
are filled by role (flow origins, guard atoms, return cases, conditions as boolean formulas),
not by statement shape or local names.
"""
import ast
from ..fn import World
from ..index import AnalysisError, dotted
from ..astutil import text, short, endswith, walk_no_nested
from . import _h_C as H
from .c11 import _single

EXPLANATION = (
  "Decides, by constant propagation from every FindOps method through RecordSet._bisect_find / "
  "_bisect_index, that the (bisect function, shift, sentinel row id) it uses is one of the "
  "combinations that are correct for bisection over keys (sort values..., row id): lt=(any,-1,"
  "-inf) le=(any,-1,+inf) gt=(any,0,+inf) ge=eq=(any,0,-inf) -- with an infinite sentinel no "
  "stored key equals the probe, so left and right bisection coincide; previous in {(left,-1),"
  "(right,-2)}, next in {(right,0),(left,+1)}; rank asc/desc in {left: index+1 / len-index, "
  "right: index / len-index+1} -- and that the two helpers forward their parameters in role "
  "(R1); that RecordSet._at subscripts the row list only under a test establishing 0 <= index < "
  "len(rows), yielding the empty record otherwise (no negative wrap-around) (R2); that _find_eq "
  "returns the empty record when the found row's key is strictly greater than the probe (R3); "
  "and that PREVIOUS/NEXT/RANK call the matching FindOps method on a lookup of the record's own "
  "group ordered by order_by, with `order` forwarded (R4). Not decided: SortKey.__lt__ (value "
  "level), and behaviour for a record that is not in the searched set.")

NEG, POS = "-inf", "+inf"
LEFT, RIGHT = "bisect_left", "bisect_right"

# (shift, sentinel) accepted per comparison method; the bisect function is free because no stored
# key can equal a probe whose row id is infinite
FIND_TABLE = {
  "lt": (-1, NEG),     # first index with values >= probe, minus one: last row strictly before
  "le": (-1, POS),     # first index with values > probe, minus one: last row before-or-equal
  "gt": (0, POS),      # first index with values > probe
  "ge": (0, NEG),      # first index with values >= probe
  "eq": (0, NEG),      # same position as ge; _find_eq then checks equality (R3)
}
# the probe is the key of a row of the list itself: bisect_left gives its index i, bisect_right i+1
NEIGHBOUR_TABLE = {
  "previous": {(LEFT, -1), (RIGHT, -2)},
  "next": {(RIGHT, 0), (LEFT, 1)},
}
# rank as linear form (coefficient of index, coefficient of len, constant)
RANK_TABLE = {
  ("asc", LEFT): (1, 0, 1), ("asc", RIGHT): (1, 0, 0),
  ("desc", LEFT): (-1, 1, 0), ("desc", RIGHT): (-1, 1, 1),
}


def check(run, repo, tier):
  V = H.guarded_views
  V(run, repo, r1_search_parameters)
  V(run, repo, r2_index_guard)
  V(run, repo, r3_find_eq)
  V(run, repo, r4_prevnext)
  from ._extra import c14_sortkey_total_order
  V(run, repo, c14_sortkey_total_order, "C14-R5")
  H.finish_views(run, repo)


def _const_int(node):
  if isinstance(node, ast.Constant) and isinstance(node.value, int) and \
      not isinstance(node.value, bool):
    return node.value
  if isinstance(node, ast.UnaryOp) and isinstance(node.op, ast.USub):
    v = _const_int(node.operand)
    return -v if v is not None else None
  return None


def _sentinel_value(mod, node):
  """'-inf' / '+inf' for a module-level name bound to (-)sys.float_info.max or (-)float('inf')."""
  if isinstance(node, ast.Name):
    v = mod.assigns.get(node.id)
    if v is None:
      return None
    return _sentinel_value(mod, v)
  if isinstance(node, ast.UnaryOp) and isinstance(node.op, ast.USub):
    s = _sentinel_value(mod, node.operand)
    return {POS: NEG, NEG: POS}.get(s)
  if isinstance(node, ast.Attribute) and endswith(dotted(node), "float_info.max"):
    return POS
  if isinstance(node, ast.Call) and dotted(node.func) == "float" and len(node.args) == 1 and \
      isinstance(node.args[0], ast.Constant):
    return {"inf": POS, "+inf": POS, "-inf": NEG}.get(str(node.args[0].value).lower())
  return None


def _bisect_name(mod, node):
  if isinstance(node, ast.Name):
    imp = mod.imports.get(node.id)
    if imp and imp[0] == "name" and imp[1] == "bisect" and imp[2] in (LEFT, RIGHT):
      return imp[2]
  if isinstance(node, ast.Attribute) and dotted(node) in ("bisect." + LEFT, "bisect." + RIGHT):
    return node.attr
  return None


def _linear(e, is_idx, lenexprs):
  """(a, b, c) with e == a*index + b*len + c, or None. is_idx(expr) recognises the index."""
  if is_idx(e):
    return (1, 0, 0)
  c = _const_int(e)
  if c is not None:
    return (0, 0, c)
  if isinstance(e, ast.Call) and text(e) in lenexprs:
    return (0, 1, 0)
  if isinstance(e, ast.BinOp) and isinstance(e.op, (ast.Add, ast.Sub)):
    l, r = _linear(e.left, is_idx, lenexprs), _linear(e.right, is_idx, lenexprs)
    if l is None or r is None:
      return None
    s = 1 if isinstance(e.op, ast.Add) else -1
    return tuple(x + s * y for x, y in zip(l, r))
  if isinstance(e, ast.UnaryOp) and isinstance(e.op, ast.USub):
    v = _linear(e.operand, is_idx, lenexprs)
    return tuple(-x for x in v) if v else None
  return None


def _xname(fn, e):
  return fn.name(e) or text(e)


def _inl(flow, e):
  """Text-comparable copy of e with single-assignment locals replaced by their values."""
  return H.inline(flow, e)


def _returned(fn, flow):
  """[(Case, value with locals inlined)] for every way the function returns a value."""
  out = []
  for case in H.return_cases(fn.node):
    if case.value is None:
      continue
    out.append((case, _inl(flow, case.value)))
  return out


def _single_call_return(fn, flow, what):
  rs = _returned(fn, flow)
  if len(rs) != 1 or not isinstance(rs[0][1], ast.Call):
    raise AnalysisError("%s: expected a single returned call" % what)
  return rs[0]


def r1_search_parameters(run, w):
  R1 = run.rule("C14-R1", "every FindOps method uses a (bisect function, shift, sentinel) "
                "combination that is correct for bisection over (values..., row id) keys; the "
                "helpers forward their parameters in role", floor=10)
  mod = w.repo.module("records")
  bf = w.fn("records.RecordSet._bisect_find")
  bi = w.fn("records.RecordSet._bisect_index")
  N_BF, N_BI, N_AT = bf.fi.name, bi.fi.name, H.aname(w, "records.RecordSet._at")
  bff, bif = H.Flow(bf), H.Flow(bi)
  # --- helpers forward in role
  ps = bf.fi.params()
  if len(ps) != 5:
    raise AnalysisError("_bisect_find: parameter list changed")
  p_func, p_shift, p_row, p_vals = ps[1:]
  inner = [c for (n, c, nm) in bf.calls() if nm == "self." + N_BI]
  ic = _single(inner, "_bisect_find: call of _bisect_index")
  b = H.bind_args(ic, bi.fi)
  ips = bi.fi.params()
  if len(ips) != 4:
    raise AnalysisError("_bisect_index: parameter list changed")
  ok = [text(b[x]) if x in b else None for x in ips[1:4]] == [p_func, p_row, p_vals]
  rs = _returned(bf, bff)
  ok_ret = len(rs) == 1 and isinstance(rs[0][1], ast.Call) and \
      _xname(bf, rs[0][1].func) == "self." + N_AT and len(rs[0][1].args) == 1
  if ok_ret:
    e = rs[0][1].args[0]
    ok_ret = isinstance(e, ast.BinOp) and isinstance(e.op, ast.Add) and \
        {text(e.left), text(e.right)} == {text(_inl(bff, ic)), p_shift}
  run.ob(R1, bf.qualname, "i = self._bisect_index(%s, %s, search_values=%s); return self._at(i + %s)"
         % (p_func, p_row, p_vals, p_shift), "the helper bisects with the function, row id and "
         "values it was given and returns the record `shift` places from the insertion point",
         ok and ok_ret, fi=bf.fi)
  rs = _returned(bi, bif)
  ok = len(rs) == 1 and isinstance(rs[0][1], ast.Call)
  if ok:
    c = rs[0][1]
    K = "self._get_sort_key()"
    ok = text(c.func) == ips[1] and len(c.args) == 2 and text(c.args[0]) == "self._row_ids" and \
        text(c.args[1]) == "%s(%s, %s)" % (K, ips[2], ips[3]) and \
        [(k.arg, text(k.value)) for k in c.keywords] == [("key", K)]
  run.ob(R1, bi.qualname, "bisect_func(self._row_ids, key(search_row_id, search_values), key=key)",
         "the ordered row list is bisected with the probe built by the same sort key that "
         "orders the list", ok, fi=bi.fi)
  # --- RecordSet.__len__ is the length of the row list (rank desc uses len(self._rset))
  ln = w.fn("records.RecordSet.__len__")
  rs = _returned(ln, H.Flow(ln))
  run.ob(R1, ln.qualname, "return len(self._row_ids)", "len(record set) is the number of rows "
         "searched", len(rs) == 1 and text(rs[0][1]) == "len(self._row_ids)", fi=ln.fi,
         nontrivial=False)
  # --- FindOps methods
  fo = w.repo.cls("records.FindOps")
  init = w.fn("records.FindOps.__init__")
  rs_attr = [s.targets[0].attr for s in walk_no_nested(init.node) if isinstance(s, ast.Assign) and
             H.is_self_attr(s.targets[0]) and text(s.value) == init.fi.params()[1]]
  RS = "self." + _single(rs_attr, "FindOps.__init__: record set attribute")

  def triple_of(call):
    """(bisect, shift, row expr, values expr) of a _bisect_find call."""
    bb = H.bind_args(call, bf.fi)
    f = _bisect_name(mod, bb.get(p_func))
    sh = _const_int(bb.get(p_shift)) if bb.get(p_shift) is not None else None
    return f, sh, bb.get(p_row), bb.get(p_vals)

  for name in sorted(FIND_TABLE):
    m = fo.methods.get(name)
    if m is None:
      raise AnalysisError("FindOps.%s vanished" % name)
    fn = w.fn_of(m)
    flow = H.Flow(fn)
    va = fn.node.args.vararg.arg if fn.node.args.vararg else None
    if va is None:
      raise AnalysisError("FindOps.%s: unrecognised shape" % name)
    case, c = _single_call_return(fn, flow, "FindOps.%s" % name)
    site = m.qualname
    if text(c.func) == RS + "." + N_BF:
      pass
    elif isinstance(c.func, ast.Attribute) and text(c.func.value) == RS and \
        len(c.args) == 1 and isinstance(c.args[0], ast.Starred) and text(c.args[0].value) == va:
      # delegates to a RecordSet method that makes the _bisect_find call (eq -> _find_eq)
      target = w.repo.find_method(w.repo.cls("records.RecordSet"), c.func.attr)
      if target is None:
        raise AnalysisError("FindOps.%s delegates to unknown %s" % (name, c.func.attr))
      tfn = w.fn_of(target)
      tva = tfn.node.args.vararg.arg if tfn.node.args.vararg else None
      cc = [x for (n, x, nm) in tfn.calls() if nm == "self." + N_BF]
      if not cc and len([x for (n, x, nm) in tfn.calls() if nm == "self." + N_BI]) == 2:
        continue        # lower/upper-bound form of the equality search: decided by C14-R3
      c = _inl(H.Flow(tfn), _single(cc, "%s: _bisect_find call" % target.qualname))
      va = tva
    else:
      raise AnalysisError("FindOps.%s: unrecognised search call %s" % (name, short(c)))
    f, sh, rowe, valse = triple_of(c)
    sent = _sentinel_value(mod, rowe) if rowe is not None else None
    if f is None:
      raise AnalysisError("FindOps.%s: bisect function not recognised in %s" % (name, short(c)))
    want = FIND_TABLE[name]
    if sh is None or sent is None:
      raise AnalysisError("FindOps.%s: cannot read shift / sentinel row id in %s"
                          % (name, short(c)))
    ok = (sh, sent) == want and valse is not None and text(valse) == va
    run.ob(R1, site, "%s: (%s, shift %s, row id %s)" % (name, f, sh, sent),
           "find.%s lands on the record a linear scan would pick: needs shift %d and the %s "
           "sentinel row id, with the probe values passed on" % (name, want[0], want[1]), ok,
           fi=m, node=case.stmt)
  for name in sorted(NEIGHBOUR_TABLE):
    m = fo.methods.get(name)
    if m is None:
      raise AnalysisError("FindOps.%s vanished" % name)
    fn = w.fn_of(m)
    flow = H.Flow(fn)
    case, c = _single_call_return(fn, flow, "FindOps.%s" % name)
    if text(c.func) != RS + "." + N_BF:
      raise AnalysisError("FindOps.%s: unrecognised shape" % name)
    f, sh, rowe, valse = triple_of(c)
    own = rowe is not None and text(rowe) == "%s._to_local_row_id(%s)" % (RS, m.params()[1])
    if f is None or sh is None or not own:
      raise AnalysisError("FindOps.%s: cannot read the search %s" % (name, short(c)))
    ok = (f, sh) in NEIGHBOUR_TABLE[name] and own and valse is None
    run.ob(R1, m.qualname, "%s: (%s, shift %s, probe = the row itself)" % (name, f, sh),
           "with the row's own key as probe, bisect_left gives its index and bisect_right the "
           "index after it; %s must land one place %s" % (name, "before" if name == "previous"
                                                          else "after"), ok, fi=m, node=case.stmt)
  # rank
  m = fo.methods.get("rank")
  if m is None:
    raise AnalysisError("FindOps.rank vanished")
  fn = w.fn_of(m)
  flow = H.Flow(fn)
  p_order = m.params()[2]
  ics = [c for (n, c, nm) in fn.calls() if nm == RS + "." + N_BI]
  c = _inl(flow, _single(ics, "FindOps.rank: _bisect_index call"))
  bb = H.bind_args(c, bi.fi)
  f = _bisect_name(mod, bb.get(ips[1]))
  if f is None or ips[3] in bb or ips[2] not in bb or \
      text(bb[ips[2]]) != "%s._to_local_row_id(%s)" % (RS, m.params()[1]):
    raise AnalysisError("FindOps.rank: unrecognised bisection %s" % short(c))
  lenexprs = ("len(%s)" % RS, "len(%s._row_ids)" % RS)
  ctext = text(c)
  seen = {}
  for (case, v) in _returned(fn, flow):
    orders = []
    for (t, p) in case.atoms:
      t = _inl(flow, t)
      if isinstance(t, ast.Compare) and len(t.ops) == 1 and p is True and \
          isinstance(t.ops[0], ast.Eq):
        pair = [t.left, t.comparators[0]]
        consts = [x.value for x in pair if isinstance(x, ast.Constant)]
        names = [x for x in pair if text(x) == p_order]
        if len(consts) == 1 and len(names) == 1:
          orders.append(consts[0])
    if len(orders) != 1:
      raise AnalysisError("FindOps.rank: cannot tell for which order %s is returned"
                          % short(case.value))
    lin = _linear(v, lambda e: text(e) == ctext, lenexprs)
    if lin is None:
      raise AnalysisError("FindOps.rank: cannot read %s as index/length arithmetic" % short(v))
    seen[orders[0]] = (case.stmt, case.value, lin)
  for order in ("asc", "desc"):
    got = seen.get(order)
    want = RANK_TABLE[(order, f)]
    run.ob(R1, m.qualname, "rank %s with %s: %s" % (order, f, short(got[1]) if got else "-"),
           "1-based position counted from the %s of the ordered group" %
           ("start" if order == "asc" else "end"), got is not None and got[2] == want,
           witness="linear form %r, wanted %r" % (got[2] if got else None, want), fi=m,
           node=got[0] if got else None)
  dflt = fn.node.args.defaults
  run.ob(R1, m.qualname, "order defaults to \"asc\"", "RANK without `order` counts from the "
         "start", len(dflt) == 1 and isinstance(dflt[0], ast.Constant) and dflt[0].value == "asc",
         fi=m, nontrivial=False)


# --------------------------------------------------------------------------------------- R2

_NEG_OP = {ast.Lt: ast.GtE, ast.GtE: ast.Lt, ast.Gt: ast.LtE, ast.LtE: ast.Gt}


def _bounds(atoms, idx, seq):
  """(has lower bound index >= 0, has upper bound index < len(seq)) established by the atoms
  [(test, polarity)]; comparisons outside the recognised forms constrain nothing."""
  comps = []
  for (t, pol) in atoms:
    if not isinstance(t, ast.Compare):
      continue
    if pol:
      left = t.left
      for op, right in zip(t.ops, t.comparators):
        comps.append((left, type(op), right))
        left = right
    elif len(t.ops) == 1 and type(t.ops[0]) in _NEG_OP:
      comps.append((t.left, _NEG_OP[type(t.ops[0])], t.comparators[0]))
  lo = hi = False
  ln = "len(%s)" % seq
  for (l, op, r) in comps:
    lt, rt = text(l), text(r)
    lc, rc = _const_int(l), _const_int(r)
    if lt == idx:
      if (op is ast.GtE and rc is not None and rc >= 0) or \
          (op is ast.Gt and rc is not None and rc >= -1):
        lo = True
      if op is ast.Lt and rt == ln:
        hi = True
      if op is ast.LtE and rt in (ln + " - 1",):
        hi = True
    if rt == idx:
      if (op is ast.LtE and lc is not None and lc >= 0) or \
          (op is ast.Lt and lc is not None and lc >= -1):
        lo = True
      if op is ast.Gt and lt == ln:
        hi = True
      if op is ast.GtE and lt in (ln + " - 1",):
        hi = True
  return lo, hi


_expr_atoms = H.expr_atoms


def r2_index_guard(run, w):
  R2 = run.rule("C14-R2", "RecordSet._at subscripts the row list only under 0 <= index < "
                "len(rows); otherwise the empty record", floor=2)
  fn = w.fn("records.RecordSet._at")
  flow = H.Flow(fn)
  idx = fn.fi.params()[1]
  subs = [s for s in ast.walk(fn.node) if isinstance(s, ast.Subscript) and
          text(s.slice) == idx and isinstance(s.ctx, ast.Load)]
  if not subs:
    raise AnalysisError("RecordSet._at: subscript by the index parameter not found")
  if flow.du.defs.get(idx):
    raise AnalysisError("RecordSet._at: the index parameter is reassigned")
  for s in subs:
    seq = _xname(fn, s.value)
    atoms = _expr_atoms(fn.node, s)
    lo, hi = _bounds(atoms, idx, seq)
    if not (lo and hi) and any(not isinstance(t, (ast.Compare, ast.Name, ast.Attribute,
                                                  ast.Constant)) for (t, p) in atoms):
      raise AnalysisError("RecordSet._at: cannot read the guard %s of %s" % (
        "; ".join(short(t) for (t, p) in atoms), short(s)))
    run.ob(R2, fn.qualname, short(s), "the subscript is evaluated only when 0 <= %s (no "
           "negative wrap-around: find.lt/previous before the first row must not yield the last "
           "row)" % idx, lo, fi=fn.fi, node=s)
    run.ob(R2, fn.qualname, "%s < len(%s)" % (idx, seq), "the subscript is evaluated only when "
           "the index is inside the list (find.gt/next after the last row yields the empty "
           "record, not an error)", hi and seq == "self._row_ids", fi=fn.fi, node=s)
  # what becomes of the position: a record of this table, row id 0 when out of range
  ok = True
  others = []
  rcases = [c for c in H.return_cases(fn.node) if c.value is not None]
  for case in rcases:
    rn = [m.id for m in fn.cfg.nodes if m.stmt is case.stmt][0]
    v = H.resolve(flow, case.value, rn)
    if not (isinstance(v, ast.Call) and _xname(fn, v.func) == "self._table.Record" and v.args):
      ok = False
      continue
    for vc in H.value_cases(fn, flow, v.args[0], flow.node_of(v)):
      if any(vc.value is s for s in subs):
        continue
      others.append(vc.value)
  run.ob(R2, fn.qualname, "return self._table.Record(row_id, self._source_relation)",
         "the position is turned into a record of this table", ok and bool(rcases), fi=fn.fi,
         nontrivial=False)
  if others:
    run.ob(R2, fn.qualname, "else %s" % short(others[0]), "out-of-range positions yield the empty "
           "record (row id 0)", all(_const_int(o) == 0 for o in others), fi=fn.fi,
           nontrivial=False)


# --------------------------------------------------------------------------------------- R3

def _find_eq_two_bisections(run, R3, w, fn, flow, va):
  """The equality search written with two bisections: lo = lower bound (bisect_left with the
  -inf sentinel), hi = upper bound (bisect_right with the +inf sentinel) of the probe values;
  the rows equal to the probe are [lo, hi). find.eq must yield the FIRST of them -- the record at
  lo, as find.ge and a linear scan do -- when the range is non-empty, and the empty record
  otherwise. Returns False when the function is not of this form."""
  mod = w.repo.module("records")
  bi = w.fn("records.RecordSet._bisect_index")
  n_bi, n_at = bi.fi.name, H.aname(w, "records.RecordSet._at")
  ips = bi.fi.params()
  lo_t = hi_t = None
  for (n, c, nm) in fn.calls():
    if nm != "self." + n_bi:
      continue
    b = H.bind_args(c, bi.fi)
    f = _bisect_name(mod, b.get(ips[1]))
    sent = _sentinel_value(mod, b.get(ips[2])) if b.get(ips[2]) is not None else None
    vals = b.get(ips[3])
    if vals is None or text(vals) != va or f is None or sent is None:
      raise AnalysisError("_find_eq: cannot read the bisection %s" % short(c))
    # with an infinite sentinel no stored key equals the probe: -inf gives the lower bound,
    # +inf the upper bound, whichever bisect function is used
    if sent == NEG:
      lo_t = text(_inl(flow, c))
    else:
      hi_t = text(_inl(flow, c))
  if lo_t is None or hi_t is None:
    return False

  def range_nonempty(atoms):
    """True / False when the atoms say lo < hi / lo >= hi, else None."""
    out = set()
    for (t, p) in atoms:
      t = _inl(flow, t)
      if isinstance(t, ast.Compare) and len(t.ops) == 1:
        l, r, op = text(t.left), text(t.comparators[0]), type(t.ops[0])
        if (l, r) == (lo_t, hi_t) and op in (ast.Lt, ast.GtE):
          out.add(p if op is ast.Lt else not p)
        elif (l, r) == (hi_t, lo_t) and op in (ast.Gt, ast.LtE):
          out.add(p if op is ast.Gt else not p)
        elif (l, r) == (lo_t, hi_t) and op is ast.Eq:
          # lo <= hi always: equal means empty
          out.add(not p)
    return out.pop() if len(out) == 1 else None

  n_first = n_empty = 0
  ok = True
  wit = None
  for case in H.return_cases(fn.node):
    if case.value is None:
      raise AnalysisError("_find_eq: returns nothing on some path")
    rn = [m.id for m in fn.cfg.nodes if m.stmt is case.stmt][0]
    v = H.resolve(flow, case.value, rn)
    if isinstance(v, ast.Call) and text(v.func) == "self._table.Record" and v.args and \
        _const_int(v.args[0]) == 0:
      ne = range_nonempty(case.atoms)
      if ne is not False:
        raise AnalysisError("_find_eq: cannot read when the empty record is returned")
      n_empty += 1
      continue
    if not (isinstance(v, ast.Call) and text(v.func) == "self." + n_at and len(v.args) == 1):
      raise AnalysisError("_find_eq: cannot read the result %s" % short(v))
    for vc in H.value_cases(fn, flow, v.args[0], flow.node_of(v)):
      ne = range_nonempty(list(case.atoms) + list(vc.atoms))
      it = text(_inl(flow, vc.value))
      if ne is True:
        if it == lo_t:
          n_first += 1
        elif it in ("%s - 1" % hi_t, "(%s) - 1" % hi_t, hi_t):
          ok = False
          wit = "a match yields the record at %s, not the first of the equal rows" % short(vc.value)
        else:
          raise AnalysisError("_find_eq: cannot read the position %s" % short(vc.value))
      elif ne is False:
        c_ = _const_int(vc.value)
        if c_ is not None and c_ < 0:
          n_empty += 1          # _at yields the empty record for a negative position
        elif it == lo_t or it == hi_t:
          # lo == hi: the row there (if any) is strictly after the probe -- not an equal match
          ok = False
          wit = "without a match the record at %s is returned" % short(vc.value)
        else:
          raise AnalysisError("_find_eq: cannot read the position %s" % short(vc.value))
      else:
        raise AnalysisError("_find_eq: cannot read under which condition %s is used"
                            % short(vc.value))
  run.ob(R3, fn.qualname, "lo, hi = lower / upper bound of the probe; return self._at(lo) if "
         "lo < hi else <empty record>", "the equal rows are [lo, hi): find.eq yields the first "
         "of them, as find.ge and a linear scan do", ok and n_first >= 1, witness=wit,
         fi=fn.fi)
  run.ob(R3, fn.qualname, "no equal row -> empty record", "when no row equals the probe the "
         "empty record is returned (not the next greater row)", ok and n_empty >= 1,
         witness=wit, fi=fn.fi)
  return True


def r3_find_eq(run, w):
  R3 = run.rule("C14-R3", "_find_eq returns the empty record when the found row's key is "
                "strictly greater than the probe", floor=2)
  fn = w.fn("records.RecordSet._find_eq")
  flow = H.Flow(fn)
  cfg = fn.cfg
  va = fn.node.args.vararg.arg if fn.node.args.vararg else None
  found = [(n, c) for (n, c, nm) in fn.calls()
           if nm == "self." + H.aname(w, "records.RecordSet._bisect_find")]
  if not found:
    if _find_eq_two_bisections(run, R3, w, fn, flow, va):
      return
  (fdn, fdc) = _single(found, "_find_eq: _bisect_find call")
  K = "self._get_sort_key()"
  ftext = text(_inl(flow, fdc))

  def is_found(e):
    """e denotes the record the bisection found."""
    return text(_inl(flow, e)) == ftext

  def strictness(t):
    """True when test t says: the probe is strictly before the found row's key."""
    t = _inl(flow, t)
    if not (isinstance(t, ast.Compare) and len(t.ops) == 1):
      return None
    l, r = t.left, t.comparators[0]
    def key_call(e, nargs):
      return isinstance(e, ast.Call) and text(e.func) == K and len(e.args) == nargs and \
          isinstance(e.args[0], ast.Attribute) and e.args[0].attr == "_row_id" and \
          text(e.args[0].value) == ftext and (nargs == 1 or text(e.args[1]) == va)
    if not (isinstance(l, ast.Call) and isinstance(r, ast.Call) and text(l.func) == K and
            text(r.func) == K):
      return None
    if isinstance(t.ops[0], ast.Lt):
      return key_call(l, 2) and key_call(r, 1)
    if isinstance(t.ops[0], ast.Gt):
      return key_call(l, 1) and key_call(r, 2)
    return False

  def is_empty_record(e):
    e = _inl(flow, e)
    return isinstance(e, ast.Call) and text(e.func) == "self._table.Record" and e.args and \
        _const_int(e.args[0]) == 0

  cases = [c for c in H.return_cases(fn.node) if c.value is not None]
  tests = []
  for n in cfg.nodes:
    if n.kind == "if":
      for (t, p) in H.split_guard(n.stmt.test, True):
        st = strictness(t)
        if st is not None:
          tests.append((t, st))
  # some return of the empty record happens exactly under the strictness test
  good = False
  for case in cases:
    if is_empty_record(case.value) and any(p is True and strictness(t) for (t, p) in case.atoms):
      good = True
  if not tests:
    # no comparison of the two keys was recognised: dropped, or written in a way we cannot read?
    for n in cfg.nodes:
      if n.kind == "if" and not all(is_found(t) for (t, p) in H.split_guard(n.stmt.test, True)):
        raise AnalysisError("_find_eq: cannot read the test %s" % short(n.stmt.test))
    if any(not (is_found(c.value) or is_empty_record(c.value)) for c in cases):
      raise AnalysisError("_find_eq: cannot read what is returned")
  run.ob(R3, fn.qualname, "if key(found._row_id, %s) < key(found._row_id): return <empty record>"
         % va, "the row found by bisection is at-or-after the probe; it is an equal match only "
         "if the probe is not strictly before it", good,
         witness="; ".join(short(t) for (t, st) in tests) or None, fi=fn.fi)
  # every return of the found record passes the test (for a non-empty found record)
  def excluded(case):
    """The atoms of the case rule out `found is non-empty and strictly after the probe`."""
    for (t, p) in case.atoms:
      if p is not False:
        continue
      parts = t.values if isinstance(t, ast.BoolOp) and isinstance(t.op, ast.And) else [t]
      if parts and all(is_found(x) or strictness(x) for x in parts):
        return True
    return False
  frets = [c for c in cases if is_found(c.value)]
  ok = bool(frets) and good and all(excluded(c) for c in frets)
  run.ob(R3, fn.qualname, "return found only after the strictness test (or when nothing was "
         "found)", "no non-empty record is returned as an equal match without the test", ok,
         fi=fn.fi)


# --------------------------------------------------------------------------------------- R4

def r4_prevnext(run, w):
  R4 = run.rule("C14-R4", "PREVIOUS/NEXT/RANK call the matching FindOps method on the record's "
                "own group ordered by order_by; `order` forwarded", floor=4)
  sl = w.fn("functions.prevnext._sorted_lookup")
  fo = w.repo.cls("records.FindOps")
  for name in ("PREVIOUS", "NEXT", "RANK"):
    fn = w.fn("functions.prevnext." + name)
    flow = H.Flow(fn)
    a = fn.node.args
    rec = a.args[0].arg if a.args else None
    kwonly = [x.arg for x in a.kwonlyargs]
    if rec is None:
      raise AnalysisError("%s: unrecognised shape" % fn.qualname)
    case, c = _single_call_return(fn, flow, fn.qualname)
    ok = isinstance(c.func, ast.Attribute) and c.func.attr == name.lower() and \
        isinstance(c.func.value, ast.Attribute) and c.func.value.attr in ("_find", "find") and \
        isinstance(c.func.value.value, ast.Call) and \
        dotted(c.func.value.value.func) == sl.fi.name
    if not (isinstance(c.func, ast.Attribute) and c.func.attr in fo.methods and
            isinstance(c.func.value, ast.Attribute) and c.func.value.attr in ("_find", "find") and
            isinstance(c.func.value.value, ast.Call) and
            dotted(c.func.value.value.func) == sl.fi.name):
      raise AnalysisError("%s: cannot read the search %s" % (fn.qualname, short(c)))
    target = fo.methods.get(name.lower())
    if ok and target is not None:
      lb = H.bind_args(c.func.value.value, sl.fi, skip_self=False)
      fb = H.bind_args(c, target)
      tps = target.params()
      ok = sorted((k, text(v)) for k, v in lb.items()) == \
          [("group_by", "group_by"), ("order_by", "order_by"), (sl.fi.params()[0], rec)] and \
          {"group_by", "order_by"} <= set(kwonly) and text(fb.get(tps[1])) == rec
      extra = sorted((k, text(v)) for k, v in fb.items() if k != tps[1])
      want = [("order", "order")] if "order" in kwonly else []
      ok = ok and extra == want
    else:
      ok = False
    run.ob(R4, fn.qualname, short(c), "%s(rec, group_by, order_by) is find.%s(rec) on the "
           "lookup of rec's group ordered by order_by%s" %
           (name, name.lower(), ", with order passed on" if "order" in kwonly else ""), ok,
           fi=fn.fi, node=case.stmt)
  a = sl.node.args
  rec = a.args[0].arg
  flow = H.Flow(sl)
  rs = _returned(sl, flow)
  ok = len(rs) == 1 and isinstance(rs[0][1], ast.Call) and \
      text(rs[0][1].func) == rec + "._table.lookup_records"
  if not ok:
    raise AnalysisError("_sorted_lookup: cannot read what it returns")
  if ok:
    c = rs[0][1]
    kws = {k.arg: k.value for k in c.keywords}
    d = kws.get(None)
    if d is not None and not isinstance(d, ast.DictComp):
      raise AnalysisError("_sorted_lookup: cannot read the group criteria %s" % short(d))
    ok = not c.args and set(kws) == {None, "order_by"} and text(kws["order_by"]) == "order_by" \
        and isinstance(d, ast.DictComp) and len(d.generators) == 1 and \
        text(d.generators[0].iter) == "group_by" and \
        text(d.key) == text(d.generators[0].target) and \
        text(d.value) == "getattr(%s, %s)" % (rec, text(d.key)) and not d.generators[0].ifs
  run.ob(R4, sl.qualname, "rec._table.lookup_records(**{c: getattr(rec, c) for c in group_by}, "
         "order_by=order_by)", "the searched set is the rows of rec's table sharing rec's value "
         "in every group_by column, in order_by order", ok, fi=sl.fi)


RC = "sandbox/grist/records.py"
PN = "sandbox/grist/functions/prevnext.py"
VARIANTS = [
  ("previous-bisect-right", RC,
   "    return self._rset._bisect_find(bisect_left, -1, row_id)",
   "    return self._rset._bisect_find(bisect_right, -1, row_id)", "C14-R1"),
  ("next-off-by-one", RC,
   "    return self._rset._bisect_find(bisect_right, 0, row_id)",
   "    return self._rset._bisect_find(bisect_right, 1, row_id)", "C14-R1"),
  ("lt-shift-zero", RC,
   "    return self._rset._bisect_find(bisect_left, -1, _min_row_id, values)",
   "    return self._rset._bisect_find(bisect_left, 0, _min_row_id, values)", "C14-R1"),
  ("le-wrong-sentinel", RC,
   "    return self._rset._bisect_find(bisect_right, -1, _max_row_id, values)",
   "    return self._rset._bisect_find(bisect_right, -1, _min_row_id, values)", "C14-R1"),
  ("gt-wrong-sentinel", RC,
   "    return self._rset._bisect_find(bisect_right, 0, _max_row_id, values)",
   "    return self._rset._bisect_find(bisect_right, 0, _min_row_id, values)", "C14-R1"),
  ("rank-zero-based", RC,
   "    if order == \"asc\":\n      return index + 1",
   "    if order == \"asc\":\n      return index", "C14-R1"),
  ("rank-desc-off-by-one", RC,
   "      return len(self._rset) - index\n",
   "      return len(self._rset) - index - 1\n", "C14-R1"),
  ("bisect-find-ignores-values", RC,
   "    i = self._bisect_index(bisect_func, search_row_id, search_values=search_values)",
   "    i = self._bisect_index(bisect_func, search_row_id)", "C14-R1"),
  ("at-negative-wraps", RC,
   "    row_id = self._row_ids[index] if (0 <= index < len(self._row_ids)) else 0",
   "    row_id = self._row_ids[index] if (index < len(self._row_ids)) else 0", "C14-R2"),
  ("at-off-end", RC,
   "    row_id = self._row_ids[index] if (0 <= index < len(self._row_ids)) else 0",
   "    row_id = self._row_ids[index] if (0 <= index <= len(self._row_ids)) else 0", "C14-R2"),
  ("find-eq-comparison-flipped", RC,
   "      if key(found._row_id, values) < key(found._row_id):",
   "      if key(found._row_id) < key(found._row_id, values):", "C14-R3"),
  ("find-eq-returns-last-of-equal-run", RC,
   """    found = self._bisect_find(bisect_left, 0, _min_row_id, values)
    if found:
      # 'found' means that we found a row that's greater-than-or-equal-to the values we are
      # looking for. To check if the row is actually "equal", it remains to check if it is stictly
      # greater than the passed-in values.
      key = self._get_sort_key()
      if key(found._row_id, values) < key(found._row_id):
        return self._table.Record(0, self._source_relation)
    return found
""", """    lo = self._bisect_index(bisect_left, _min_row_id, values)
    hi = self._bisect_index(bisect_right, _max_row_id, values)
    return self._at(hi - 1 if lo < hi else -1)
""", "C14-R3"),
  ("find-eq-no-check", RC,
   """      key = self._get_sort_key()
      if key(found._row_id, values) < key(found._row_id):
        return self._table.Record(0, self._source_relation)
""", """      pass
""", "C14-R3"),
  ("next-calls-previous", PN,
   "  return _sorted_lookup(rec, group_by=group_by, order_by=order_by)._find.next(rec)",
   "  return _sorted_lookup(rec, group_by=group_by, order_by=order_by)._find.previous(rec)",
   "C14-R4"),
  ("rank-drops-order", PN,
   "._find.rank(rec, order=order)", "._find.rank(rec)", "C14-R4"),
  ("group-by-ignored", PN,
   "  return rec._table.lookup_records(**{c: getattr(rec, c) for c in group_by}, order_by=order_by)",
   "  return rec._table.lookup_records(order_by=order_by)", "C14-R4"),
]
