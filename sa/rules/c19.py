"""C19 Invalid formulas are isolated and valid ones mean what they say -- structural clauses."""
import ast
import re
from ..fn import World
from ..index import AnalysisError, dotted
from ..astutil import text, short, endswith, calls_in, walk_no_nested

EXPLANATION = (
  "Decides that a formula text cannot take down the shared usercode module: every parser or "
  "compiler call on user text in _do_make_formula_body is fenced by a handler that returns the "
  "syntax-error stub (R1); a newline normaliser whose regex matches exactly {CR, CRLF} and "
  "replaces them with LF dominates every line-based step, so the regex line model and the Python "
  "tokenizer's agree (R2); `$name` becomes `rec.name` only at ast.Name nodes of the parsed tree and "
  "`return` is inserted only in front of a final expression statement (R3); the translated body "
  "is returned only after the consumer's own acceptor -- compile() of the body wrapped in a "
  "function -- has accepted it inside the fence, because the parsers accept programs the "
  "compiler rejects (R4); the stub comments out every input line and embeds user text only "
  "through repr (R5). Not decided: semantic equivalence of valid formulas beyond these "
  "translation steps.")

CB = "codebuilder._do_make_formula_body"


def check(run, repo, tier):
  w = World(repo)
  r1_fenced(run, w)
  r2_line_model(run, w)
  r3_translation(run, w)
  r4_compile_acceptor(run, w)
  r5_stub(run, w)


def _stub_return(h, fn):
  """Does handler h return textbuilder.Text(_create_syntax_error_code(...)) on every path?"""
  rets = [x for s in h.body for x in ast.walk(s) if isinstance(x, ast.Return)]
  ok = bool(rets) and all(isinstance(r.value, ast.Call) and
                          endswith(dotted(r.value.func), "Text") and r.value.args and
                          isinstance(r.value.args[0], ast.Call) and
                          dotted(r.value.args[0].func) == "_create_syntax_error_code"
                          for r in rets)
  last = h.body[-1]
  return ok and isinstance(last, ast.Return)


def _parse_sites(fn):
  """AST nodes in fn that parse / compile user text."""
  out = []
  for s in fn.node.body:
    for n in walk_no_nested(s):
      if isinstance(n, ast.Attribute) and n.attr == "tree" and isinstance(n.ctx, ast.Load):
        out.append(("asttokens parse (.tree)", n))
      elif isinstance(n, ast.Call):
        d = dotted(n.func)
        if d in ("astroid.parse", "ast.parse", "compile", "_check_compiles"):
          out.append((d, n))
  return out


def _enclosing_try(fn, node):
  best = None
  for t in ast.walk(fn.node):
    if isinstance(t, ast.Try) and any(x is node for b in t.body for x in ast.walk(b)):
      best = t     # innermost last in walk order is fine: nested trys both enclose
  return best


def _catches(t, names):
  got = set()
  for h in t.handlers:
    if h.type is None:
      return True
    hs = h.type.elts if isinstance(h.type, ast.Tuple) else [h.type]
    for x in hs:
      got.add((dotted(x) or "").split(".")[-1])
  return bool(got & {"Exception", "BaseException"}) or set(names) <= got


def r1_fenced(run, w):
  R1 = run.rule("C19-R1", "every parse/compile of user text in _do_make_formula_body is inside a "
                "try whose handler returns the syntax-error stub", floor=3)
  fn = w.fn(CB)
  for kind, node in _parse_sites(fn):
    t = _enclosing_try(fn, node)
    need = ["SyntaxError"] + (["AstroidSyntaxError"] if kind == "astroid.parse" else [])
    ok = t is not None and _catches(t, need) and all(_stub_return(h, fn) for h in t.handlers)
    run.ob(R1, fn.qualname, "%s: %s" % (kind, short(node, 60)),
           "a syntax error found here is turned into an error stub for this column only", ok,
           fi=fn.fi, node=node)


def _regex_language(pattern, limit=64):
  """The finite set of strings matched by a small regex (literals, alternation, optional /
  bounded repeats); None when it is not finite-and-small."""
  import re._parser as sp    # regex parser only: the pattern is data, nothing of the repo runs
  try:
    tree = sp.parse(pattern)
  except Exception:
    return None
  def seq(items):
    res = {""}
    for it in items:
      nxt = one(it)
      if nxt is None:
        return None
      res = {a + b for a in res for b in nxt}
      if len(res) > limit:
        return None
    return res
  def one(it):
    op, av = it
    name = str(op)
    if name == "LITERAL":
      return {chr(av)}
    if name == "IN":
      out = set()
      for (o2, a2) in av:
        if str(o2) == "LITERAL":
          out.add(chr(a2))
        else:
          return None
      return out
    if name in ("MAX_REPEAT", "MIN_REPEAT"):
      lo, hi, sub = av
      if str(hi) == "MAXREPEAT" or hi > 3:
        return None
      body = seq(list(sub))
      if body is None:
        return None
      res = set()
      for k in range(lo, hi + 1):
        cur = {""}
        for _ in range(k):
          cur = {a + b for a in cur for b in body}
        res |= cur
      return res
    if name == "BRANCH":
      res = set()
      for alt in av[1]:
        r = seq(list(alt))
        if r is None:
          return None
        res |= r
      return res
    if name == "SUBPATTERN":
      return seq(list(av[3]))
    return None
  return seq(list(tree))


def _normaliser(w):
  """The function of codebuilder that replaces CR / CRLF by LF through textbuilder patches:
  returns (FuncInfo, regex variable) or raises."""
  mod = w.repo.module("codebuilder")
  for fi in mod.functions.values():
    for c in calls_in(fi.node):
      if endswith(dotted(c.func), "make_regexp_patches") and len(c.args) == 3 and \
          isinstance(c.args[2], ast.Constant) and c.args[2].value == "\n" and \
          isinstance(c.args[1], ast.Name):
        rx = mod.assigns.get(c.args[1].id)
        if isinstance(rx, ast.Call) and dotted(rx.func) == "re.compile" and rx.args and \
            isinstance(rx.args[0], ast.Constant):
          return fi, c.args[1].id, rx
  return None


def r2_line_model(run, w):
  R2 = run.rule("C19-R2", "a CR/CRLF -> LF normaliser dominates every line-based processing of "
                "the formula text", floor=3)
  fn = w.fn(CB)
  norm = _normaliser(w)
  run.ob(R2, "codebuilder", "newline normaliser: make_regexp_patches(text, <re>, '\\n')",
         "a function replacing other line breaks by LF exists", norm is not None,
         nontrivial=False)
  if norm is None:
    return
  nfi, rxname, rx = norm
  lang = _regex_language(rx.args[0].value)
  flags = [text(a) for a in rx.args[1:]] + [text(k.value) for k in rx.keywords]
  run.ob(R2, nfi.qualname, "%s = re.compile(%r)" % (rxname, rx.args[0].value),
         "the normaliser's regex matches exactly the tokenizer's other line breaks {CR, CRLF}",
         lang == {"\r", "\r\n"} and not flags, fi=nfi,
         witness=None if lang == {"\r", "\r\n"} else "language: %r" % (lang,))
  cfg = fn.cfg
  norm_nodes = fn.nodes_calling(lambda c, nm, f: nm == nfi.name)
  # line-based consumers of the formula text inside _do_make_formula_body
  consumers = fn.nodes_calling(lambda c, nm, f: nm in ("_dedent", "_indent",
                                                      "textbuilder.make_regexp_patches",
                                                      "asttokens.ASTText",
                                                      "_create_syntax_error_code"))
  ok = bool(norm_nodes) and bool(consumers) and all(cfg.dominated_by(c, norm_nodes)
                                                    for c in consumers)
  bad = [c for c in consumers if not cfg.dominated_by(c, norm_nodes)]
  run.ob(R2, fn.qualname, "%s(...) before _dedent / regexp patches / parsing" % nfi.name,
         "every line-based step sees text whose only line break is LF", ok,
         witness=cfg.describe_path(cfg.path(cfg.entry.id, set(bad[:1]), removed=norm_nodes))
         if bad else None, fi=fn.fi)
  # the normalised builder is the one used afterwards: result assigned to the variable that the
  # later steps read
  ok = False
  for n in cfg.nodes:
    if n.id in norm_nodes and n.kind == "stmt" and isinstance(n.stmt, ast.Assign) and \
        isinstance(n.stmt.targets[0], ast.Name):
      var = n.stmt.targets[0].id
      c = n.stmt.value
      ok = isinstance(c, ast.Call) and c.args and text(c.args[0]) == var
  run.ob(R2, fn.qualname, "x = %s(x)" % nfi.name, "the normalised text replaces the raw text for "
         "all later steps (positions stay mappable through the textbuilder)", ok, fi=fn.fi)
  # the normaliser goes through textbuilder (so renames can map positions back)
  ok = any(endswith(dotted(c.func), "Replacer") for c in calls_in(nfi.node))
  run.ob(R2, nfi.qualname, "textbuilder.Replacer(body, patches)", "normalisation is a recorded "
         "patch set, not a lossy string replace", ok, fi=nfi)


def r3_translation(run, w):
  R3 = run.rule("C19-R3", "$name -> rec.name only at ast.Name nodes; `return` only before a final "
                "expression statement", floor=3)
  fn = w.fn(CB)
  # (a) the 'rec.' patch
  recs = [c for c in calls_in(fn.node) if endswith(dotted(c.func), "make_patch") and
          len(c.args) == 4 and isinstance(c.args[3], ast.Constant) and c.args[3].value == "rec."]
  ok = len(recs) == 1
  if ok:
    c = recs[0]
    conds = []
    for n in ast.walk(fn.node):
      if isinstance(n, ast.If) and any(x is c for b in n.body for x in ast.walk(b)):
        conds.append(text(n.test))
    loops = [n for n in ast.walk(fn.node) if isinstance(n, ast.For) and
             any(x is c for b in n.body for x in ast.walk(b))]
    ok = any("isinstance(node, ast.Name)" in t and "startswith('DOLLAR')" in t for t in conds) \
        and any(text(l.iter) == "ast.walk(tree)" for l in loops) and \
        any(t in ("m",) for t in conds)
  run.ob(R3, fn.qualname, "patch '$' -> 'rec.' under isinstance(node, ast.Name) for node in "
         "ast.walk(tree)", "dollar signs inside strings and comments are never rewritten (they "
         "are not Name nodes of the parsed tree)", ok, fi=fn.fi)
  # (b) the 'return ' patch
  rets = [c for c in calls_in(fn.node) if endswith(dotted(c.func), "make_patch") and
          len(c.args) == 4 and isinstance(c.args[3], ast.Constant) and
          c.args[3].value == "return "]
  ok = len(rets) == 1
  if ok:
    c = rets[0]
    conds = [text(n.test) for n in ast.walk(fn.node) if isinstance(n, ast.If) and
             any(x is c for b in n.body for x in ast.walk(b))]
    ls = [text(v) for v in _defs(fn.node, "last_statement")]
    ok = "isinstance(last_statement, ast.Expr)" in conds and \
        ls == ["tree.body[-1] if tree.body else None"] and \
        text(c.args[1]) == text(c.args[2])
    pos = _defs(fn.node, text(c.args[1]))
    ok = ok and any(text(v) == "tmp_formula.map_back_offset(startpos)" for v in pos)
    start = _defs(fn.node, "startpos")
    ok = ok and any(text(v) == "atok.get_text_range(last_statement)[0]" for v in start)
  run.ob(R3, fn.qualname, "insert 'return ' at the start of tree.body[-1] when it is an ast.Expr",
         "the value of the last expression statement is what the formula returns", ok, fi=fn.fi)
  # (c) the missing-return error is raised only when no `return` occurs anywhere in the formula
  ok = False
  for n in ast.walk(fn.node):
    if isinstance(n, ast.If) and any(isinstance(x, ast.Call) and
                                     dotted(x.func) == "GristSyntaxError"
                                     for b in n.body for x in ast.walk(b)):
      t = n.test
      if isinstance(t, ast.UnaryOp) and isinstance(t.op, ast.Not) and \
          isinstance(t.operand, ast.Call) and dotted(t.operand.func) == "any" and \
          isinstance(t.operand.args[0], ast.GeneratorExp):
        g = t.operand.args[0]
        elt_ok = "ast.Return" in text(g.elt)
        src = text(g.generators[0].iter)
        ok = elt_ok and "ast.walk(tree)" in src and not g.generators[0].ifs
  run.ob(R3, fn.qualname, "if not any(<is ast.Return> for node in ...ast.walk(tree)): error",
         "a formula is rejected for a missing return only when it contains no return statement "
         "at all (returns in earlier statements count)", ok, fi=fn.fi)
  ok = any(isinstance(n, ast.Call) and dotted(n.func) == "GristSyntaxError" for n in
           ast.walk(fn.node))
  run.ob(R3, fn.qualname, "GristSyntaxError when nothing is returned", "a formula that cannot "
         "produce a value is reported, not silently None", ok, fi=fn.fi, nontrivial=False)


def _defs(fnode, name):
  return [n.value for s in fnode.body for n in walk_no_nested(s)
          if isinstance(n, ast.Assign) and any(isinstance(t, ast.Name) and t.id == name
                                               for t in n.targets)]


def r4_compile_acceptor(run, w):
  R4 = run.rule("C19-R4", "the translated body is returned only after compile() accepted it as a "
                "function body, inside the syntax-error fence", floor=3)
  fn = w.fn(CB)
  cfg = fn.cfg
  # acceptor: a codebuilder function that calls builtin compile on 'def ...' + indented body
  mod = w.repo.module("codebuilder")
  acceptors = []
  for fi in mod.functions.values():
    for c in calls_in(fi.node):
      if dotted(c.func) == "compile" and c.args:
        src = c.args[0]
        srcs = [src] + ([v for v in _defs(fi.node, src.id)] if isinstance(src, ast.Name) else [])
        for s_ in srcs:
          if isinstance(s_, ast.BinOp) and isinstance(s_.op, ast.Add) and \
              isinstance(s_.left, ast.Constant) and isinstance(s_.left.value, str) and \
              s_.left.value.startswith("def ") and s_.left.value.endswith(":\n") and \
              "_indent(" in text(s_.right):
            acceptors.append(fi)
  run.ob(R4, "codebuilder", "acceptor: compile('def f(...):\\n' + _indent(body).get_text(), ...)",
         "the body is compiled the way the module will use it: as a function body", bool(acceptors),
         nontrivial=False)
  if not acceptors:
    return
  names = {a.name for a in acceptors}
  acc_nodes = fn.nodes_calling(lambda c, nm, f: nm in names)
  # the return of the translated body
  finals = [n for n in cfg.nodes if n.kind == "return" and isinstance(n.stmt.value, ast.Name) and
            any(isinstance(v, ast.Call) and endswith(dotted(v.func), "Replacer")
                for v in _defs(fn.node, n.stmt.value.id))]
  if not finals:
    raise AnalysisError("_do_make_formula_body: return of the translated body not found")
  for r in finals:
    ok = bool(acc_nodes) and cfg.dominated_by(r.id, acc_nodes)
    run.ob(R4, fn.qualname, "return %s" % text(r.stmt.value), "the body handed to the module was "
           "accepted by compile()", ok, fi=fn.fi, node=r.stmt,
           witness=None if ok else cfg.describe_path(cfg.path(cfg.entry.id, {r.id},
                                                              removed=acc_nodes)))
    # and it is the same builder that was checked
    for a in acc_nodes:
      for c in calls_in(cfg.nodes[a].exprs):
        if fn.name(c) in names:
          run.ob(R4, fn.qualname, short(c), "the builder compiled is the builder returned",
                 bool(c.args) and text(c.args[0]) == text(r.stmt.value), fi=fn.fi, node=c)
  # the acceptor's own errors are positioned relative to the body (so the stub points at the
  # user's line): lineno is shifted by the header line
  for a in acceptors:
    ok = any(isinstance(n, ast.AugAssign) and text(n.target).endswith(".lineno") and
             isinstance(n.op, ast.Sub) for n in ast.walk(a.node)) and \
        any(isinstance(n, ast.Raise) and n.exc is None for n in ast.walk(a.node))
    run.ob(R4, a.qualname, "except SyntaxError as e: e.lineno -= 1; raise",
           "compile errors are re-raised with positions relative to the formula", ok, fi=a)
  # consumer really is compile() of the whole module
  ex = w.fn("gencode.exec_module_text")
  ok = any(dotted(c.func) == "compile" and text(c.args[0]) == ex.fi.params()[0]
           for c in calls_in(ex.node))
  run.ob(R4, ex.qualname, "compile(module_text, ...)", "all formulas are consumed by one "
         "compile() of the module (hence the need for the per-formula acceptor)", ok, fi=ex.fi,
         nontrivial=False)


def r5_stub(run, w):
  R5 = run.rule("C19-R5", "the syntax-error stub comments out every input line and embeds user "
                "text only through repr", floor=2)
  fn = w.fn("codebuilder._create_syntax_error_code")
  rets = [n for n in ast.walk(fn.node) if isinstance(n, ast.Return)]
  ok = False
  if len(rets) == 1 and isinstance(rets[0].value, ast.BinOp) and \
      isinstance(rets[0].value.op, ast.Mod) and isinstance(rets[0].value.left, ast.Constant):
    fmt = rets[0].value.left.value
    args = rets[0].value.right.elts if isinstance(rets[0].value.right, ast.Tuple) else []
    specs = re.findall(r"%[sr]", fmt)
    ok = len(specs) == len(args) and fmt.startswith("%s\nraise %s(")
    for sp, a in zip(specs, args):
      if sp == "%s":
        t = text(a)
        ok = ok and (t.endswith(".__name__") or
                     (isinstance(a, ast.Call) and endswith(dotted(a.func), "line_start_re.sub")
                      and isinstance(a.args[0], ast.Constant) and
                      a.args[0].value.startswith("#")))
  run.ob(R5, fn.qualname, "'%s\\nraise %s(%r, (..., %r, %r, %r))' % (commented input, type, ...)",
         "the only raw insertions are the commented-out input and an exception class name; "
         "everything else goes through repr", ok, fi=fn.fi)
  tb = w.repo.module("textbuilder")
  rx = tb.assigns.get("line_start_re")
  ok = isinstance(rx, ast.Call) and dotted(rx.func) == "re.compile" and \
      isinstance(rx.args[0], ast.Constant) and rx.args[0].value == "^" and \
      any(text(a) in ("re.M", "re.MULTILINE") for a in rx.args[1:])
  run.ob(R5, "textbuilder.line_start_re", "re.compile('^', re.M)", "every line (LF-separated, "
         "see R2) gets the comment prefix", ok, nontrivial=False)


C = "sandbox/grist/codebuilder.py"
VARIANTS = [
  ("no-newline-normalisation", C, "  formula_builder_text = _normalize_newlines(formula_builder_text)\n", "", "C19-R2"),
  ("normalise-after-dedent", C, """  formula_builder_text = _normalize_newlines(formula_builder_text)

  # Remove any common leading whitespace. In python, extra indent should not be an error, but
  # it is in Grist because we parse the formula body before it gets inserted into a function (i.e.
  # as if at module level). We have to do it using textbuilder as elsewhere (making changes to a
  # formula without remembering positions of changes will lead to errors when renaming).
  formula_builder_text = _dedent(formula_builder_text)
""", """  formula_builder_text = _dedent(formula_builder_text)
  formula_builder_text = _normalize_newlines(formula_builder_text)
""", "C19-R2"),
  ("normaliser-misses-bare-cr", C, "_newline_re = re.compile(r'\\r\\n?')", "_newline_re = re.compile(r'\\r\\n')", "C19-R2"),
  ("no-compile-check", C, "      _check_compiles(final_formula)\n", "", "C19-R4"),
  ("compile-check-outside-fence", C, """      astroid.parse(final_formula.get_text())
      _check_compiles(final_formula)
    except (astroid.AstroidSyntaxError, SyntaxError) as e:""", """      astroid.parse(final_formula.get_text())
    except (astroid.AstroidSyntaxError, SyntaxError) as e:""", "C19-R4"),
  ("compile-check-unfenced", C, """  with use_inferences(InferRecAssignment, InferRecAttrAssignment):
    try:
      astroid.parse(final_formula.get_text())
      _check_compiles(final_formula)""", """  _check_compiles(final_formula)
  with use_inferences(InferRecAssignment, InferRecAttrAssignment):
    try:
      astroid.parse(final_formula.get_text())""", "C19-R1"),
  ("first-parse-unfenced", C, """  try:
    tree = atok.tree
  except SyntaxError as e:
    return textbuilder.Text(_create_syntax_error_code(tmp_formula, formula, e))
""", """  tree = atok.tree
""", "C19-R1"),
  ("handler-narrowed", C, "    except (astroid.AstroidSyntaxError, SyntaxError) as e:", "    except astroid.AstroidSyntaxError as e:", "C19-R1"),
  ("dollar-in-any-node", C, "      have_multiline_strings = True\n\n    if isinstance(node, ast.Name) and node.id.startswith('DOLLAR'):",
   "      have_multiline_strings = True\n\n    if getattr(node, 'id', '').startswith('DOLLAR') or isinstance(node, ast.Constant):", "C19-R3"),
  ("return-before-any-last-stmt", C, "  if isinstance(last_statement, ast.Expr):", "  if isinstance(last_statement, (ast.Expr, ast.Assign)):", "C19-R3"),
  ("return-check-last-statement-only", C, "      for node in itertools.chain([last_statement], ast.walk(tree))",
   "      for node in ast.walk(last_statement)", "C19-R3"),
  ("stub-raw-message", C, """  return "%s\\nraise %s(%r, ('usercode', %r, %r, %r))" % (""", """  return "%s\\nraise %s('%s', ('usercode', %r, %r, %r))" % (""", "C19-R5"),
]
