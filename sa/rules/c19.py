"""C19 Invalid formulas are isolated and valid ones mean what they say -- structural clauses."""
import ast
import re
from ..fn import World
from ..index import AnalysisError, dotted
from ..astutil import text, short, endswith, calls_in, walk_no_nested
from ._h_E import decide, anchors_of, cname, calls_E, nodes_calling_E, Flow, arg, argn, return_nodes, return_cases, same_module_callees, is_const, \
    args_by_params

EXPLANATION = (
  "Decides that a formula text cannot take down the shared usercode module: every parser or "
  "compiler call on user text in _do_make_formula_body is fenced by a handler that returns the "
  "syntax-error stub (R1); a newline normaliser whose regex matches exactly {CR, CRLF} and "
  "replaces them with LF dominates every line-based step, so the regex line model and the Python "
  "tokenizer's agree (R2); `$name` becomes `rec.name` only at ast.Name nodes of the parsed tree and "
  "`return` is inserted only in front of a final expression statement (R3); the translated body "
  "is returned only after the consumer's own acceptor -- compile() of the body wrapped in a "
  "function -- has accepted it inside the fence, because the parsers accept programs the "
  "compiler rejects (R4); the stub comments out every input line and embeds user text only "
  "through repr (R5); the hint that makes make_formula_body undo the indentation inside multi-line "
  "literals is computed from each literal's source extent, for the same node types the un-indent "
  "pass handles, never from its runtime value (R6); the astroid inference tips registered while a "
  "formula is re-parsed are always unregistered again: either the context manager restores the "
  "registry in a finally, or no parse error can escape its with-block (the handler sits inside) "
  "(R7); the match that bounds each `$` -> `rec.` patch is anchored at the mapped-back position of "
  "the DOLLAR-prefixed Name, not searched forward from it (R8). Not decided: semantic equivalence of valid formulas beyond these "
  "translation steps.")

CB = "codebuilder._do_make_formula_body"


def check(run, repo, tier):
  # each rule is decided on the code as written; when it is not satisfied there, it is asked again
  # on the view with private helpers inlined (see _h_E.decide), so statements moved into a new
  # helper keep their place
  import os
  _HERE = os.path.dirname(os.path.abspath(__file__))
  decide(run, repo, [r1_fenced, r2_line_model, r3_translation, r4_compile_acceptor, r5_stub, r6_multiline_hint, r7_inference_scope, r8_dollar_anchor],
         anchors_of(os.path.join(_HERE, "c19.py"), os.path.join(_HERE, "_h_E.py"), os.path.join(_HERE, "../events.py")))


PARSERS = ("astroid.parse", "ast.parse", "compile")


def _is_call_of(e, *names):
  return isinstance(e, ast.Call) and dotted(e.func) in names


def _is_stub(flow):
  """pred(expr, nid): expr is textbuilder.Text(_create_syntax_error_code(...)), the inner call
  written inline or through a local."""
  def inner(x, n):
    return _is_call_of(x, "_create_syntax_error_code")
  def pred(e, nid):
    if not (isinstance(e, ast.Call) and endswith(dotted(e.func), "Text")):
      return False
    a0 = arg(e, 0, "text")
    return a0 is not None and flow.denotes(a0, nid, inner)
  return pred


def _stub_returns(fn, flow):
  """ids of the return nodes whose every possible value is the syntax-error stub."""
  pred = _is_stub(flow)
  return {n.id for n in return_nodes(flow.cfg) if n.stmt.value is not None and
          flow.denotes(n.stmt.value, n.id, pred)}


def _handler_returns_stub(fn, flow, h):
  """Every path out of handler h is a `return <stub>`: it neither falls through to the rest of the
  function, nor returns anything else, nor raises."""
  cfg = flow.cfg
  hn = [n.id for n in cfg.nodes if n.kind == "handler" and n.stmt is h]
  if not hn:
    raise AnalysisError("%s: handler has no CFG node" % fn.qualname)
  stubs = _stub_returns(fn, flow)
  if not stubs:
    return False
  after = cfg.reach_after(set(hn), removed=stubs)
  return not (after & {cfg.exit.id, cfg.raise_exit.id})


def _direct_parse_kinds(node):
  """Parser/compiler entry points evaluated directly inside ast `node` (not in nested defs)."""
  out = set()
  for n in walk_no_nested(node):
    if isinstance(n, ast.Attribute) and n.attr == "tree" and isinstance(n.ctx, ast.Load):
      out.add("asttokens parse (.tree)")
    elif isinstance(n, ast.Call) and dotted(n.func) in PARSERS:
      out.add(dotted(n.func))
  return out


def _parse_sites(w, fn):
  """[(kind, ast node, needs AstroidSyntaxError)] for everything in fn that parses / compiles user
  text: the parser entry points themselves and calls of codebuilder helpers that reach one."""
  out = []
  for s in fn.node.body:
    for n in walk_no_nested(s):
      if isinstance(n, ast.Attribute) and n.attr == "tree" and isinstance(n.ctx, ast.Load):
        out.append(("asttokens parse (.tree)", n, False))
      elif isinstance(n, ast.Call):
        d = dotted(n.func)
        if d in PARSERS:
          out.append((d, n, d == "astroid.parse"))
          continue
        kinds = set()
        for fi in same_module_callees(w, fn, n, depth=2):
          if fi.module is fn.fi.module and fi.qualname != fn.qualname:
            for b in fi.node.body:
              kinds |= _direct_parse_kinds(b)
        if len(kinds) == 1:
          out.append((d or "helper", n, "astroid.parse" in kinds))
        else:
          # one obligation per parser reached through the helper
          for k in sorted(kinds):
            out.append(("%s via %s" % (k, d or "helper"), n, k == "astroid.parse"))
  return out


def _enclosing_trys(fn, node):
  """Try statements whose body (at any depth) contains node, innermost first."""
  out = []
  for t in ast.walk(fn.node):
    if isinstance(t, ast.Try) and any(x is node for b in t.body for x in ast.walk(b)):
      out.append(t)
  out.sort(key=lambda t: sum(1 for _ in ast.walk(t)))
  return out


def _reraises(h):
  """Handler h only adjusts the exception and re-raises it (every path ends in a bare `raise`, none
  returns): the exception travels on to the next enclosing try."""
  has_raise = False
  for x in ast.walk(ast.Module(body=h.body, type_ignores=[])):
    if isinstance(x, ast.Return):
      return False
    if isinstance(x, ast.Raise):
      if x.exc is not None and not (isinstance(x.exc, ast.Name) and x.exc.id == h.name):
        return False
      has_raise = True
  last = h.body[-1]
  return has_raise and isinstance(last, ast.Raise)


def _handler_for(trys, exc_name):
  """The handler that finally deals with exception class `exc_name` raised inside the innermost of
  `trys` (handlers that merely re-raise it are passed through)."""
  for t in trys:
    for h in t.handlers:
      hs = [] if h.type is None else (h.type.elts if isinstance(h.type, ast.Tuple) else [h.type])
      got = {(dotted(x) or "").split(".")[-1] for x in hs}
      if h.type is None or got & {"Exception", "BaseException", exc_name}:
        if _reraises(h):
          break         # on to the enclosing try
        return h
  return None


def r1_fenced(run, w):
  R1 = run.rule("C19-R1", "every parse/compile of user text in _do_make_formula_body is inside a "
                "try whose handler returns the syntax-error stub", floor=3)
  fn = w.fn(CB)
  flow = Flow(fn)
  for kind, node, astroid_too in _parse_sites(w, fn):
    trys = _enclosing_trys(fn, node)
    need = ["SyntaxError"] + (["AstroidSyntaxError"] if astroid_too else [])
    ok = True
    for exc in need:
      h = _handler_for(trys, exc)
      ok = ok and h is not None and _handler_returns_stub(fn, flow, h)
    run.ob(R1, fn.qualname, "%s: %s" % (kind, short(node, 60)),
           "a syntax error found here is turned into an error stub for this column only", ok,
           fi=fn.fi, node=node)


def _regex_language(pattern, limit=64):
  """The finite set of strings matched by a small regex (literals, alternation, optional /
  bounded repeats); None when it is not finite-and-small."""
  import re._parser as sp    # regex parser only: the pattern is data, nothing of the repo runs
  try:
    tree = sp.parse(pattern)
  except Exception:
    return None
  def seq(items):
    res = {""}
    for it in items:
      nxt = one(it)
      if nxt is None:
        return None
      res = {a + b for a in res for b in nxt}
      if len(res) > limit:
        return None
    return res
  def one(it):
    op, av = it
    name = str(op)
    if name == "LITERAL":
      return {chr(av)}
    if name == "IN":
      out = set()
      for (o2, a2) in av:
        if str(o2) == "LITERAL":
          out.add(chr(a2))
        else:
          return None
      return out
    if name in ("MAX_REPEAT", "MIN_REPEAT"):
      lo, hi, sub = av
      if str(hi) == "MAXREPEAT" or hi > 3:
        return None
      body = seq(list(sub))
      if body is None:
        return None
      res = set()
      for k in range(lo, hi + 1):
        cur = {""}
        for _ in range(k):
          cur = {a + b for a in cur for b in body}
        res |= cur
      return res
    if name == "BRANCH":
      res = set()
      for alt in av[1]:
        r = seq(list(alt))
        if r is None:
          return None
        res |= r
      return res
    if name == "SUBPATTERN":
      return seq(list(av[3]))
    return None
  return seq(list(tree))


def _normaliser(w):
  """The function of codebuilder that replaces CR / CRLF by LF through textbuilder patches:
  returns (FuncInfo, regex variable) or raises."""
  mod = w.repo.module("codebuilder")
  for fi in mod.functions.values():
    for c in calls_in(fi.node):
      if endswith(dotted(c.func), "make_regexp_patches") and len(c.args) == 3 and \
          isinstance(c.args[2], ast.Constant) and c.args[2].value == "\n" and \
          isinstance(c.args[1], ast.Name):
        rx = mod.assigns.get(c.args[1].id)
        if isinstance(rx, ast.Call) and dotted(rx.func) == "re.compile" and rx.args and \
            isinstance(rx.args[0], ast.Constant):
          return fi, c.args[1].id, rx
  return None


def r2_line_model(run, w):
  R2 = run.rule("C19-R2", "a CR/CRLF -> LF normaliser dominates every line-based processing of "
                "the formula text", floor=3)
  fn = w.fn(CB)
  norm = _normaliser(w)
  run.ob(R2, "codebuilder", "newline normaliser: make_regexp_patches(text, <re>, '\\n')",
         "a function replacing other line breaks by LF exists", norm is not None,
         nontrivial=False)
  if norm is None:
    return
  nfi, rxname, rx = norm
  lang = _regex_language(rx.args[0].value)
  flags = [text(a) for a in rx.args[1:]] + [text(k.value) for k in rx.keywords]
  run.ob(R2, nfi.qualname, "%s = re.compile(%r)" % (rxname, rx.args[0].value),
         "the normaliser's regex matches exactly the tokenizer's other line breaks {CR, CRLF}",
         lang == {"\r", "\r\n"} and not flags, fi=nfi,
         witness=None if lang == {"\r", "\r\n"} else "language: %r" % (lang,))
  cfg = fn.cfg
  flow = Flow(fn)
  inline = nfi.qualname == fn.qualname     # the normaliser's statements sit in the function itself
  patch_calls = [c for c in calls_in(fn.node)
                 if endswith(dotted(c.func), "make_regexp_patches") and len(c.args) == 3 and
                 isinstance(c.args[2], ast.Constant) and c.args[2].value == "\n" and
                 text(c.args[1]) == rxname] if inline else []
  def is_norm(c, k):
    """the call that yields the normalised builder"""
    if not inline:
      return fn.name(c) == nfi.name
    return endswith(dotted(c.func), "Replacer") and len(c.args) == 2 and \
        flow.denotes_some(c.args[1], k, lambda v, kk: any(v is p for p in patch_calls))
  norm_nodes = {n.id for (n, c, nm) in calls_E(fn) if is_norm(c, n.id)}
  patch_nodes = {k for p in patch_calls for k in flow.where(p)}
  # line-based consumers of the formula text inside _do_make_formula_body
  consumers = nodes_calling_E(fn, lambda c, nm, f: nm in ("_dedent", "_indent",
                                                      "textbuilder.make_regexp_patches",
                                                      "asttokens.ASTText",
                                                      "_create_syntax_error_code")) - patch_nodes
  if inline and patch_nodes:
    # written in place: the patches are computed before every consumer, and a consumer is reached
    # from there only through the Replacer or along a branch on which there are no patches
    no_patches = flow.edges_where(
      lambda e, i: flow.denotes_some(e, i, lambda v, kk: any(v is p for p in patch_calls)), False)
    seen_, todo_ = set(), [x for k in patch_nodes for x in cfg.succ[k]]
    while todo_:
      x = todo_.pop()
      if x in seen_ or x in norm_nodes:
        continue
      seen_.add(x)
      todo_.extend(y for y in cfg.succ[x] if (x, y) not in no_patches)
    bad = [c for c in consumers if c in seen_ or not cfg.dominated_by(c, patch_nodes)]
  else:
    bad = [c for c in consumers if not cfg.dominated_by(c, norm_nodes)]
  ok = bool(norm_nodes) and bool(consumers) and not bad
  run.ob(R2, fn.qualname, "%s(...) before _dedent / regexp patches / parsing" % nfi.name,
         "every line-based step sees text whose only line break is LF", ok,
         witness=cfg.describe_path(cfg.path(cfg.entry.id, set(bad[:1]), removed=norm_nodes))
         if bad else None, fi=fn.fi, missing=not norm_nodes)
  # the normalised builder is the one used afterwards: the normaliser's result is kept (assigned or
  # passed on), and the raw builder it was given is not read again by any later step
  ok = bool(norm_nodes)
  for nid in norm_nodes:
    n = cfg.nodes[nid]
    for c in calls_in(n.exprs):
      if not is_norm(c, nid):
        continue
      def yields(v):
        """v evaluates to the call's result (possibly as one arm of a conditional expression)"""
        return v is c or (isinstance(v, ast.IfExp) and (yields(v.body) or yields(v.orelse)))
      kept = (n.kind == "stmt" and isinstance(n.stmt, (ast.Assign, ast.AnnAssign)) and
              yields(n.stmt.value) and all(isinstance(t, ast.Name) for t in
                                           (n.stmt.targets if isinstance(n.stmt, ast.Assign)
                                            else [n.stmt.target]))) or \
          (n.kind == "return" and yields(n.stmt.value)) or \
          any(isinstance(p, ast.Call) and any(a is c for a in list(p.args) +
                                              [k.value for k in p.keywords])
              for e in n.exprs for p in walk_no_nested(e))
      ok = ok and kept and (inline or len(c.args) + len(c.keywords) == 1)
      raw = c.args[0] if c.args else (c.keywords[0].value if c.keywords else None)
      rebinds_raw = isinstance(raw, ast.Name) and n.kind == "stmt" and \
          isinstance(n.stmt, ast.Assign) and \
          any(isinstance(t, ast.Name) and t.id == raw.id for t in n.stmt.targets)
      if isinstance(raw, ast.Name) and not rebinds_raw:
        rdefs = flow.reaching(raw.id, nid)[0]
        for m in cfg.reach_after({nid}):
          for e in cfg.nodes[m].exprs:
            for x in walk_no_nested(e, into_lambda=True):
              if isinstance(x, ast.Name) and isinstance(x.ctx, ast.Load) and x.id == raw.id and \
                  (flow.reaching(raw.id, m)[0] & rdefs):
                ok = False
  run.ob(R2, fn.qualname, "x = %s(x)" % nfi.name, "the normalised text replaces the raw text for "
         "all later steps (positions stay mappable through the textbuilder)", ok, fi=fn.fi)
  # the normaliser goes through textbuilder (so renames can map positions back)
  ok = any(endswith(dotted(c.func), "Replacer") for c in calls_in(nfi.node))
  run.ob(R2, nfi.qualname, "textbuilder.Replacer(body, patches)", "normalisation is a recorded "
         "patch set, not a lossy string replace", ok, fi=nfi)


def _tree_pred(x, n):
  """The parsed tree of the formula: asttokens' lazily parsed `.tree`."""
  return isinstance(x, ast.Attribute) and x.attr == "tree"


def _walks_tree(flow, it, nid):
  """`it` is ast.walk(T) with T the parsed tree."""
  return _is_call_of(it, "ast.walk") and len(it.args) == 1 and \
      flow.denotes(it.args[0], nid, _tree_pred)


def _const_arg(w, fn, flow, c, index):
  a = argn(w, fn, c, index)
  if a is None:
    return None
  a = flow.resolve(a, flow.at(c))[0]
  return a.value if isinstance(a, ast.Constant) else None


def _patches_inserting(w, fn, flow, new_text):
  return [c for c in calls_in(fn.node) if endswith(cname(fn, c), "make_patch") and
          flow.where(c) and _const_arg(w, fn, flow, c, 3) == new_text]


def r3_translation(run, w):
  R3 = run.rule("C19-R3", "$name -> rec.name only at ast.Name nodes; `return` only before a final "
                "expression statement", floor=3)
  fn = w.fn(CB)
  flow = Flow(fn)
  cfg = fn.cfg

  def walk_var(e, nid):
    """e is the variable of a `for ... in ast.walk(<parsed tree>)` loop."""
    src = flow.loop_source(e, nid)
    return src is not None and _walks_tree(flow, src[0], src[1])

  def atoms(fl, is_walk_var):
    def is_name_node(e, nid):
      return _is_call_of(e, "isinstance") and len(e.args) == 2 and \
          text(e.args[1]) == "ast.Name" and is_walk_var(e.args[0], nid)
    def is_dollar_id(e, nid):
      return isinstance(e, ast.Call) and isinstance(e.func, ast.Attribute) and \
          e.func.attr == "startswith" and len(e.args) == 1 and is_const(e.args[0], "DOLLAR") and \
          isinstance(e.func.value, ast.Attribute) and e.func.value.attr == "id" and \
          is_walk_var(e.func.value.value, nid)
    def is_dollar_match(e, nid):
      return fl.denotes(e, nid, lambda x, n: isinstance(x, ast.Call) and
                        isinstance(x.func, ast.Attribute) and x.func.attr == "match")
    return is_name_node, is_dollar_id, is_dollar_match

  is_name_node, is_dollar_id, is_dollar_match = atoms(flow, walk_var)

  # (a) the 'rec.' patch
  recs = _patches_inserting(w, fn, flow, "rec.")
  ok = len(recs) == 1
  for c in recs:
    for nid in flow.where(c):
      ok = ok and flow.guarded(nid, is_name_node, True) and flow.guarded(nid, is_dollar_id, True) \
          and flow.guarded(nid, is_dollar_match, True)
  if not recs:
    # the construction of the patch may have been extracted into a helper taking the node
    found = 0
    for (n, c, nm) in calls_E(fn):
      for hfi in same_module_callees(w, fn, c, depth=1):
        if hfi.module is not fn.fi.module or hfi.qualname == fn.qualname:
          continue
        hfn = w.fn_of(hfi)
        hflow = Flow(hfn)
        hrecs = _patches_inserting(w, hfn, hflow, "rec.")
        if not hrecs:
          continue
        found += len(hrecs)
        hps = hfi.params()
        bound = args_by_params(c, hps)
        def param_walk_var(e, k):
          return isinstance(e, ast.Name) and e.id in hps and not hflow.du.defs.get(e.id) and \
              bound is not None and e.id in bound and walk_var(bound[e.id], n.id)
        h_name, h_dollar, h_match = atoms(hflow, param_walk_var)
        ok = found == 1
        for hc in hrecs:
          for hk in hflow.where(hc):
            ok = ok and (flow.guarded(n.id, is_name_node, True) or
                         hflow.guarded(hk, h_name, True)) and \
                (flow.guarded(n.id, is_dollar_id, True) or hflow.guarded(hk, h_dollar, True)) and \
                hflow.guarded(hk, h_match, True)
    if not found:
      raise AnalysisError("_do_make_formula_body: the make_patch(..., 'rec.') call was not found "
                          "(translation moved?)")
  run.ob(R3, fn.qualname, "patch '$' -> 'rec.' under isinstance(node, ast.Name) for node in "
         "ast.walk(tree)", "dollar signs inside strings and comments are never rewritten (they "
         "are not Name nodes of the parsed tree)", ok, fi=fn.fi)

  # (b) the 'return ' patch
  def last_stmt_leaf(x, n):
    """tree.body[-1] (or the None standing for an empty body)."""
    if is_const(x, None):
      return True
    if not (isinstance(x, ast.Subscript) and text(x.slice) == "-1"):
      return False
    body, bn = flow.resolve(x.value, n)
    return isinstance(body, ast.Attribute) and body.attr == "body" and \
        flow.denotes(body.value, bn, _tree_pred)

  def is_last(e, nid):
    ls = flow.leaves(e, nid)
    return bool(ls) and all(last_stmt_leaf(l.expr, l.nid) for l in ls) and \
        any(not is_const(l.expr, None) for l in ls)

  rets = _patches_inserting(w, fn, flow, "return ")
  if not rets:
    raise AnalysisError("_do_make_formula_body: the make_patch(..., 'return ') call was not found "
                        "(translation moved?)")
  ok = len(rets) == 1
  for c in rets:
    for nid in flow.where(c):
      a_start, a_end = argn(w, fn, c, 1), argn(w, fn, c, 2)
      if a_start is None or a_end is None:
        ok = False
        continue
      ok = ok and flow.same_value(a_start, nid, a_end, nid)
      # the position: tmp_formula.map_back_offset(atok.get_text_range(<last statement>)[0])
      pos, pn = flow.resolve(a_start, nid)
      stmt_arg = None
      if isinstance(pos, ast.Call) and isinstance(pos.func, ast.Attribute) and \
          pos.func.attr == "map_back_offset" and len(pos.args) == 1:
        st, sn = flow.resolve(pos.args[0], pn)
        if isinstance(st, ast.Subscript) and is_const(st.slice, 0):
          rng, rn = flow.resolve(st.value, sn)
          if isinstance(rng, ast.Call) and isinstance(rng.func, ast.Attribute) and \
              rng.func.attr == "get_text_range" and len(rng.args) == 1:
            stmt_arg = (rng.args[0], rn)
      ok = ok and stmt_arg is not None and is_last(*stmt_arg)
      def is_expr_stmt(e, i):
        return _is_call_of(e, "isinstance") and len(e.args) == 2 and \
            text(e.args[1]) == "ast.Expr" and is_last(e.args[0], i) and \
            (stmt_arg is None or flow.same_value(e.args[0], i, stmt_arg[0], stmt_arg[1]))
      ok = ok and flow.guarded(nid, is_expr_stmt, True)
  run.ob(R3, fn.qualname, "insert 'return ' at the start of tree.body[-1] when it is an ast.Expr",
         "the value of the last expression statement is what the formula returns", ok, fi=fn.fi)

  # (c) the missing-return error is raised only when no `return` occurs anywhere in the formula
  def any_return_call(x, n):
    if not (_is_call_of(x, "any") and len(x.args) == 1 and
            isinstance(x.args[0], (ast.GeneratorExp, ast.ListComp))):
      return False
    return "ast.Return" in text(x.args[0].elt)

  def scans_whole_tree(x, n):
    g = x.args[0]
    if len(g.generators) != 1 or g.generators[0].ifs:
      return False
    return any(_walks_tree(flow, y, n) for y in ast.walk(g.generators[0].iter))

  errs = [c for c in calls_in(fn.node) if dotted(c.func) == "GristSyntaxError" and flow.where(c)]
  tests = [(e, n.id) for n in cfg.nodes if n.kind == "if" for e in ast.walk(n.stmt.test)
           if any(any_return_call(l.expr, l.nid) for l in flow.leaves(e, n.id))] \
      if errs else []
  ok = bool(errs)
  if errs and not tests:
    # the same search written as a loop (for/else, or a flag set when a Return node is seen)
    from ..guards import reachable_with_flags
    def is_return_test(e, i):
      """isinstance(<v>, ast.Return) / type(<v>) == ast.Return on the variable of a for loop"""
      v = None
      if _is_call_of(e, "isinstance") and len(e.args) == 2 and text(e.args[1]) == "ast.Return":
        v = e.args[0]
      elif isinstance(e, ast.Compare) and len(e.ops) == 1 and \
          isinstance(e.ops[0], (ast.Eq, ast.Is)) and text(e.comparators[0]) == "ast.Return" and \
          _is_call_of(e.left, "type") and len(e.left.args) == 1:
        v = e.left.args[0]
      return v is not None and flow.loop_source(v, i) is not None
    seen_edges = flow.edges_where(is_return_test, True)
    if not seen_edges:
      raise AnalysisError("_do_make_formula_body: the search for a Return node guarding the "
                          "missing-return error was not recognised")
    loops = {}
    for (i, b_) in seen_edges:
      for e in ast.walk(cfg.nodes[i].stmt.test):
        if is_return_test(e, i):
          v = e.args[0] if isinstance(e, ast.Call) else e.left.args[0]
          src = flow.loop_source(v, i)
          loops.setdefault(src[1], src[0])
    whole = {l for (l, it) in loops.items()
             if any(_walks_tree(flow, y, l) for y in ast.walk(it))}
    for c in errs:
      for nid in flow.where(c):
        # the error is raised only after a loop over the whole tree, and never on a path on which
        # that loop has seen a Return node
        starts = {b_ for (i, b_) in seen_edges
                  if any(i in flow.loop_body(l) for l in whole)}
        broken = not whole or not starts or \
            reachable_with_flags(cfg, starts, {nid}, follow_exc=False) is not None
        if not broken and not cfg.dominated_by(nid, whole):
          # some path reaches the error without running the search at all; whether that path is
          # feasible depends on conditions this rule does not correlate
          raise AnalysisError("_do_make_formula_body: cannot tell whether the missing-return "
                              "error is always preceded by the search for a Return node")
        ok = ok and not broken
  for c in (errs if tests else []):
    for nid in flow.where(c):
      ok = ok and flow.guarded(nid, lambda e, i: flow.denotes(
        e, i, lambda x, n: any_return_call(x, n) and scans_whole_tree(x, n)), False)
  run.ob(R3, fn.qualname, "if not any(<is ast.Return> for node in ...ast.walk(tree)): error",
         "a formula is rejected for a missing return only when it contains no return statement "
         "at all (returns in earlier statements count)", ok, fi=fn.fi)
  ok = any(isinstance(n, ast.Call) and dotted(n.func) == "GristSyntaxError" for n in
           ast.walk(fn.node))
  run.ob(R3, fn.qualname, "GristSyntaxError when nothing is returned", "a formula that cannot "
         "produce a value is reported, not silently None", ok, fi=fn.fi, nontrivial=False)


def r4_compile_acceptor(run, w):
  R4 = run.rule("C19-R4", "the translated body is returned only after compile() accepted it as a "
                "function body, inside the syntax-error fence", floor=3)
  fn = w.fn(CB)
  cfg = fn.cfg
  flow = Flow(fn)
  # acceptor: a codebuilder function that calls builtin compile on 'def ...' + indented body
  mod = w.repo.module("codebuilder")
  acceptors = []
  for fi in mod.functions.values():
    afn = w.fn_of(fi)
    aflow = None
    for c in calls_in(fi.node):
      if dotted(c.func) == "compile" and (c.args or c.keywords):
        aflow = aflow or Flow(afn)
        if not aflow.where(c):
          continue
        src = arg(c, 0, "source")
        if src is None:
          continue
        s_ = aflow.inline(src, aflow.at(c))
        if isinstance(s_, ast.BinOp) and isinstance(s_.op, ast.Add) and \
            isinstance(s_.left, ast.Constant) and isinstance(s_.left.value, str) and \
            s_.left.value.startswith("def ") and s_.left.value.endswith(":\n") and \
            "_indent(" in text(s_.right) and fi not in acceptors:
          acceptors.append(fi)
  run.ob(R4, "codebuilder", "acceptor: compile('def f(...):\\n' + _indent(body).get_text(), ...)",
         "the body is compiled the way the module will use it: as a function body", bool(acceptors),
         nontrivial=False)
  if not acceptors:
    return
  names = {a.name for a in acceptors}
  # helpers that hand their own argument to an acceptor on every path accept it too
  changed = True
  while changed:
    changed = False
    for fi in mod.functions.values():
      if fi.name in names or fi.qualname == fn.qualname or not fi.params():
        continue
      hfn = w.fn_of(fi)
      hflow = Flow(hfn)
      hits = {n.id for (n, c, nm) in calls_E(hfn) if nm in names and argn(w, hfn, c, 0) is not None
              and hflow.itext(argn(w, hfn, c, 0), n.id, stop=fi.params()) == fi.params()[0]}
      if hits and hfn.cfg.dominated_by(hfn.cfg.exit.id, hits):
        names.add(fi.name)
        changed = True
  acc_nodes = nodes_calling_E(fn, lambda c, nm, f: nm in names)
  # ... or the acceptor's compile() sits in the function itself
  own_accept = []     # (node id, the builder expression being indented and compiled)
  if any(a.qualname == fn.qualname for a in acceptors):
    for (n, c, nm) in calls_E(fn):
      if dotted(c.func) == "compile" and arg(c, 0, "source") is not None:
        s_ = flow.inline(arg(c, 0, "source"), n.id)
        for x in ast.walk(s_):
          if isinstance(x, ast.Call) and dotted(x.func) == "_indent" and x.args:
            own_accept.append((n.id, x.args[0]))
            acc_nodes = acc_nodes | {n.id}
  # the return of the translated body
  def is_replacer(x, n):
    return isinstance(x, ast.Call) and endswith(dotted(x.func), "Replacer")
  finals = [n for n in cfg.nodes if n.kind == "return" and n.stmt.value is not None and
            flow.denotes_some(n.stmt.value, n.id, is_replacer)]
  if not finals:
    raise AnalysisError("_do_make_formula_body: return of the translated body not found")
  for r in finals:
    ok = bool(acc_nodes) and cfg.dominated_by(r.id, acc_nodes)
    run.ob(R4, fn.qualname, "return %s" % text(r.stmt.value), "the body handed to the module was "
           "accepted by compile()", ok, fi=fn.fi, node=r.stmt, missing=not acc_nodes,
           witness=None if ok else cfg.describe_path(cfg.path(cfg.entry.id, {r.id},
                                                              removed=acc_nodes)))
    # and it is the same builder that was checked
    for (a, built) in own_accept:
      run.ob(R4, fn.qualname, "compile('def ...' + _indent(%s))" % short(built, 40),
             "the builder compiled is the builder returned",
             text(built) == flow.itext(r.stmt.value, r.id) or
             text(built) == text(r.stmt.value), fi=fn.fi)
    for a in acc_nodes:
      for c in calls_in(cfg.nodes[a].exprs):
        if fn.name(c) in names:
          a0 = argn(w, fn, c, 0)
          run.ob(R4, fn.qualname, short(c), "the builder compiled is the builder returned",
                 a0 is not None and flow.same_value(a0, a, r.stmt.value, r.id), fi=fn.fi, node=c)
  # the acceptor's own errors are positioned relative to the body (so the stub points at the
  # user's line): lineno is shifted by the header line
  for a in acceptors:
    ok = any(isinstance(n, ast.AugAssign) and text(n.target).endswith(".lineno") and
             isinstance(n.op, ast.Sub) for n in ast.walk(a.node)) and \
        any(isinstance(n, ast.Raise) and n.exc is None for n in ast.walk(a.node))
    run.ob(R4, a.qualname, "except SyntaxError as e: e.lineno -= 1; raise",
           "compile errors are re-raised with positions relative to the formula", ok, fi=a)
  # consumer really is compile() of the whole module
  ex = w.fn("gencode.exec_module_text")
  xflow = Flow(ex)
  ok = False
  for c in calls_in(ex.node):
    if dotted(c.func) == "compile" and xflow.where(c):
      src = arg(c, 0, "source")
      ok = ok or (src is not None and xflow.itext(src, xflow.at(c)) == ex.fi.params()[0])
  run.ob(R4, ex.qualname, "compile(module_text, ...)", "all formulas are consumed by one "
         "compile() of the module (hence the need for the per-formula acceptor)", ok, fi=ex.fi,
         nontrivial=False)


def r5_stub(run, w):
  R5 = run.rule("C19-R5", "the syntax-error stub comments out every input line and embeds user "
                "text only through repr", floor=2)
  fn = w.fn("codebuilder._create_syntax_error_code")
  flow = Flow(fn)
  cases = return_cases(flow)
  ok = False
  if len(cases) == 1 and isinstance(cases[0][1].expr, ast.BinOp) and \
      isinstance(cases[0][1].expr.op, ast.Mod):
    leaf = cases[0][1]
    fmt_e = flow.resolve(leaf.expr.left, leaf.nid)[0]
    right = flow.resolve(leaf.expr.right, leaf.nid)[0]
    if isinstance(fmt_e, ast.Constant) and isinstance(fmt_e.value, str):
      fmt = fmt_e.value
      args = right.elts if isinstance(right, ast.Tuple) else []
      specs = re.findall(r"%[sr]", fmt)
      ok = len(specs) == len(args) and fmt.startswith("%s\nraise %s(")
      for sp, a in zip(specs, args):
        if sp == "%s":
          for l in flow.leaves(a, leaf.nid):
            a_ = l.expr
            sub = isinstance(a_, ast.Call) and endswith(dotted(a_.func), "line_start_re.sub")
            prefix = flow.resolve(a_.args[0], l.nid)[0] if sub and a_.args else None
            ok = ok and (text(a_).endswith(".__name__") or
                         (sub and isinstance(prefix, ast.Constant) and
                          isinstance(prefix.value, str) and prefix.value.startswith("#")))
  run.ob(R5, fn.qualname, "'%s\\nraise %s(%r, (..., %r, %r, %r))' % (commented input, type, ...)",
         "the only raw insertions are the commented-out input and an exception class name; "
         "everything else goes through repr", ok, fi=fn.fi)
  tb = w.repo.module("textbuilder")
  rx = tb.assigns.get("line_start_re")
  ok = isinstance(rx, ast.Call) and dotted(rx.func) == "re.compile" and \
      isinstance(rx.args[0], ast.Constant) and rx.args[0].value == "^" and \
      any(text(a) in ("re.M", "re.MULTILINE") for a in rx.args[1:])
  run.ob(R5, "textbuilder.line_start_re", "re.compile('^', re.M)", "every line (LF-separated, "
         "see R2) gets the comment prefix", ok, nontrivial=False)


def _isinstance_types(e):
  """Type names of an `isinstance(x, T)` test (T a class or a tuple of classes)."""
  t = e.args[1]
  return {text(x) for x in (t.elts if isinstance(t, (ast.Tuple, ast.List)) else [t])}


def r6_multiline_hint(run, w):
  R6 = run.rule("C19-R6", "the multi-line-literal hint is set from the source extent of the "
                "literal (its text / line span), for every node type the un-indent pass handles, "
                "never from the literal's value", floor=2)
  fn = w.fn(CB)
  flow = Flow(fn)
  cfg = fn.cfg
  HINT = "have_multiline_strings"
  # the consumer: make_formula_body un-indents only when the hint is set
  mk = w.fn("codebuilder.make_formula_body")
  reads = [x for x in ast.walk(mk.node)
           if (isinstance(x, ast.Attribute) and x.attr == HINT) or
           (isinstance(x, ast.Call) and dotted(x.func) == "getattr" and len(x.args) >= 2 and
            is_const(x.args[1], HINT))]
  if not reads:
    raise AnalysisError("make_formula_body no longer reads the %s hint" % HINT)
  # the node types the un-indent pass looks at
  un = w.fn("codebuilder._multiline_string_nodes")
  handled = set()
  for x in ast.walk(un.node):
    if _is_call_of(x, "isinstance") and len(x.args) == 2:
      handled |= _isinstance_types(x)
  if not handled:
    raise AnalysisError("_multiline_string_nodes: node type test not recognised")
  # where the hint is stored on the returned builder
  stores = [n for n in cfg.nodes if n.kind == "stmt" and isinstance(n.stmt, ast.Assign) and
            any(isinstance(t, ast.Attribute) and t.attr == HINT for t in n.stmt.targets)]
  if not stores:
    raise AnalysisError("_do_make_formula_body no longer stores the %s hint" % HINT)

  def walk_var(e, nid):
    src = flow.loop_source(e, nid)
    return src is not None and _walks_tree(flow, src[0], src[1])

  def source_text(x, k):
    """<atok>.get_text(<walked node>) / ast.get_source_segment(..., <walked node>)"""
    return isinstance(x, ast.Call) and isinstance(x.func, ast.Attribute) and \
        x.func.attr in ("get_text", "get_source_segment") and \
        any(walk_var(a, k) for a in x.args)

  def line_of(x, k):
    return isinstance(x, ast.Attribute) and x.attr in ("lineno", "end_lineno") and \
        walk_var(x.value, k)

  def from_extent(t, pol, i):
    """`"\n" in <source text of the node>` or a comparison of the node's first and last line."""
    if not isinstance(t, ast.Compare) or len(t.ops) != 1:
      return False
    l, r = t.left, t.comparators[0]
    if isinstance(t.ops[0], ast.In) and pol is True:
      return is_const(flow.resolve(l, i)[0], "\n") and flow.denotes(r, i, source_text)
    if flow.denotes(l, i, line_of) and flow.denotes(r, i, line_of):
      return (isinstance(t.ops[0], ast.Eq) and pol is False) or \
          (isinstance(t.ops[0], (ast.Gt, ast.Lt)) and pol is True)
    return False

  for st in stores:
    ls = flow.leaves(st.stmt.value, st.id)
    consts = all(isinstance(l.expr, ast.Constant) and isinstance(l.expr.value, bool) for l in ls)
    trues = [l for l in ls if isinstance(l.expr, ast.Constant) and l.expr.value is True]
    run.ob(R6, fn.qualname, "final_formula.%s = <flag set while walking the tree>" % HINT,
           "the hint handed to make_formula_body is the flag computed from the parsed tree",
           bool(ls) and consts and bool(trues), fi=fn.fi, node=st.stmt)
    ok = bool(trues)
    types = set()
    hint_names = {st.stmt.value.id} if isinstance(st.stmt.value, ast.Name) else set()
    heads = [n.id for n in cfg.nodes if n.kind == "for" and _walks_tree(flow, n.stmt.iter, n.id)]
    for l in trues:
      extent = False
      inside = [h for h in heads if l.nid in flow.loop_body(h)]
      if not inside:
        ok = False
        continue
      for (t, pol, i) in flow.facts_inside(l.nid, inside[0]):
        if _is_call_of(t, "isinstance") and len(t.args) == 2 and walk_var(t.args[0], i) and pol:
          types |= _isinstance_types(t)
        elif from_extent(t, pol, i):
          extent = True
        elif isinstance(t, ast.Name) and t.id in hint_names and pol is False:
          pass        # "not decided yet": skips work once the flag is set
        else:
          ok = False  # any other condition (e.g. on the literal's value) can hide a multi-line literal
      ok = ok and extent
    ok = ok and handled <= types
    run.ob(R6, fn.qualname, "%s = True iff isinstance(node, (%s)) and '\\n' in <source text of node>"
           % (HINT, ", ".join(sorted(handled))),
           "a literal counts as multi-line by its source extent -- what decides whether indenting "
           "the body changed it -- for every node type the un-indent pass handles", ok,
           fi=fn.fi, node=st.stmt)


def r8_dollar_anchor(run, w):
  R8 = run.rule("C19-R8", "the `$` -> `rec.` translation of a formula patches only the `$` found "
                "AT the mapped-back position of a DOLLAR-prefixed Name: the match that bounds the "
                "patch is anchored there, so a genuine DOLLAR... identifier never makes a later "
                "`$x` in a string or comment (or an already translated one) be rewritten", floor=1)
  from .c40 import anchored_dollar_patches
  mod = w.repo.module("codebuilder")
  cands = [fi for fi in mod.functions.values()
           if any(isinstance(c.func, ast.Attribute) and c.func.attr == "make_regexp_patches" and
                  any(isinstance(a, ast.Constant) and a.value == "DOLLAR" for a in c.args)
                  for c in calls_in(fi.node)) and
           any(isinstance(x, ast.Return) for x in walk_no_nested(fi.node)) and
           any((dotted(c.func) or "").endswith("make_patch") for c in calls_in(fi.node))]
  if not cands:
    raise AnalysisError("codebuilder: the function that translates `$x` through DOLLARx tokens "
                        "not identified in the code as it is now written: cannot decide")
  n = 0
  for fi in cands:
    n += anchored_dollar_patches(run, R8, fi)
  return n


def r7_inference_scope(run, w):
  R7 = run.rule("C19-R7", "process-wide astroid transforms registered around a parse are removed "
                "again even when the formula does not parse", floor=1)
  mod = w.repo.module("codebuilder")
  # the context managers, by role: generator functions that register and later unregister
  # transforms on the astroid manager
  managers = {}
  for fi in mod.functions.values():
    names = {(dotted(c.func) or "").split(".")[-1] for c in calls_in(fi.node)}
    if "register_transform" in names and "unregister_transform" in names and \
        any(isinstance(x, (ast.Yield, ast.YieldFrom)) for x in ast.walk(fi.node)):
      safe = False
      for t in ast.walk(fi.node):
        if isinstance(t, ast.Try) and t.finalbody and \
            any(isinstance(x, (ast.Yield, ast.YieldFrom)) for b in t.body for x in ast.walk(b)):
          safe = any((dotted(c.func) or "").endswith("unregister_transform")
                     for c in calls_in(t.finalbody))
      managers[fi.name] = safe
  if not managers:
    raise AnalysisError("codebuilder: no context manager registering astroid transforms found")
  n_with = 0
  for fi in w.repo.all_functions():
    if fi.module is not mod:
      continue
    fn = w.fn_of(fi)
    withs = [s_ for s_ in ast.walk(fn.node) if isinstance(s_, ast.With) and
             any(isinstance(it.context_expr, ast.Call) and
                 (fn.name(it.context_expr) or "").split(".")[-1] in managers
                 for it in s_.items)]
    if not withs:
      continue
    sites = _parse_sites(w, fn)
    for wt in withs:
      inside = {id(x) for b in wt.body for x in ast.walk(b)}
      cm = [(fn.name(it.context_expr) or "").split(".")[-1] for it in wt.items
            if isinstance(it.context_expr, ast.Call)]
      safe_cm = all(managers.get(nm_, True) for nm_ in cm)
      n_with += 1
      ok = True
      wit = None
      if not safe_cm:
        for kind, node, astroid_too in sites:
          if id(node) not in inside:
            continue
          trys = _enclosing_trys(fn, node)
          for exc in ["SyntaxError"] + (["AstroidSyntaxError"] if astroid_too else []):
            h = _handler_for(trys, exc)
            if h is None or id(h) not in inside:
              ok = False
              wit = "a %s raised by `%s` leaves the with-block before the transforms are " \
                  "unregistered" % (exc, short(node, 50))
      run.ob(R7, fn.qualname, "with %s(...): <parse under a handler inside the block>" % cm[0],
             "a formula that does not parse cannot leave the inference tips registered for every "
             "later parse in the process", ok, witness=wit, fi=fn.fi, node=wt)
  if not n_with:
    raise AnalysisError("codebuilder: no `with <inference context manager>` statement found")


C = "sandbox/grist/codebuilder.py"
VARIANTS = [
  ("formula-dollar-searches-forward", C, """      m = DOLLAR_REGEX.match(formula, input_pos)
      # If there is no match""", """      m = DOLLAR_REGEX.search(formula, input_pos)
      # If there is no match""", "C19-R8"),
  ("no-newline-normalisation", C, "  formula_builder_text = _normalize_newlines(formula_builder_text)\n", "", "C19-R2"),
  ("normalise-after-dedent", C, """  formula_builder_text = _normalize_newlines(formula_builder_text)

  # Remove any common leading whitespace. In python, extra indent should not be an error, but
  # it is in Grist because we parse the formula body before it gets inserted into a function (i.e.
  # as if at module level). We have to do it using textbuilder as elsewhere (making changes to a
  # formula without remembering positions of changes will lead to errors when renaming).
  formula_builder_text = _dedent(formula_builder_text)
""", """  formula_builder_text = _dedent(formula_builder_text)
  formula_builder_text = _normalize_newlines(formula_builder_text)
""", "C19-R2"),
  ("normaliser-misses-bare-cr", C, "_newline_re = re.compile(r'\\r\\n?')", "_newline_re = re.compile(r'\\r\\n')", "C19-R2"),
  ("no-compile-check", C, "      _check_compiles(final_formula)\n", "", "C19-R4"),
  ("compile-check-outside-fence", C, """      astroid.parse(final_formula.get_text())
      _check_compiles(final_formula)
    except (astroid.AstroidSyntaxError, SyntaxError) as e:""", """      astroid.parse(final_formula.get_text())
    except (astroid.AstroidSyntaxError, SyntaxError) as e:""", "C19-R4"),
  ("compile-check-unfenced", C, """  with use_inferences(InferRecAssignment, InferRecAttrAssignment):
    try:
      astroid.parse(final_formula.get_text())
      _check_compiles(final_formula)""", """  _check_compiles(final_formula)
  with use_inferences(InferRecAssignment, InferRecAttrAssignment):
    try:
      astroid.parse(final_formula.get_text())""", "C19-R1"),
  ("first-parse-unfenced", C, """  try:
    tree = atok.tree
  except SyntaxError as e:
    return textbuilder.Text(_create_syntax_error_code(tmp_formula, formula, e))
""", """  tree = atok.tree
""", "C19-R1"),
  ("handler-narrowed", C, "    except (astroid.AstroidSyntaxError, SyntaxError) as e:", "    except astroid.AstroidSyntaxError as e:", "C19-R1"),
  ("dollar-in-any-node", C, "      have_multiline_strings = True\n\n    if isinstance(node, ast.Name) and node.id.startswith('DOLLAR'):",
   "      have_multiline_strings = True\n\n    if getattr(node, 'id', '').startswith('DOLLAR') or isinstance(node, ast.Constant):", "C19-R3"),
  ("return-before-any-last-stmt", C, "  if isinstance(last_statement, ast.Expr):", "  if isinstance(last_statement, (ast.Expr, ast.Assign)):", "C19-R3"),
  ("return-check-last-statement-only", C, "      for node in itertools.chain([last_statement], ast.walk(tree))",
   "      for node in ast.walk(last_statement)", "C19-R3"),
  ("multiline-hint-from-value", C, """    if isinstance(node, (ast.Constant, ast.JoinedStr)) and "\\n" in atok.get_text(node):
      have_multiline_strings = True""", """    if isinstance(node, ast.Constant) and isinstance(node.value, str) and "\\n" in node.value:
      have_multiline_strings = True""", "C19-R6"),
  ("multiline-hint-misses-fstrings", C, """    if isinstance(node, (ast.Constant, ast.JoinedStr)) and "\\n" in atok.get_text(node):
      have_multiline_strings = True""", """    if isinstance(node, ast.Constant) and "\\n" in atok.get_text(node):
      have_multiline_strings = True""", "C19-R6"),
  ("inference-scope-leaks-on-syntax-error", C, """  with use_inferences(InferRecAssignment, InferRecAttrAssignment):
    try:
      astroid.parse(final_formula.get_text())
      _check_compiles(final_formula)
    except (astroid.AstroidSyntaxError, SyntaxError) as e:
      error = getattr(e, "error", e)  # extract SyntaxError from AstroidSyntaxError
      return textbuilder.Text(_create_syntax_error_code(final_formula, formula, error))
""", """  try:
    with use_inferences(InferRecAssignment, InferRecAttrAssignment):
      astroid.parse(final_formula.get_text())
    _check_compiles(final_formula)
  except (astroid.AstroidSyntaxError, SyntaxError) as e:
    error = getattr(e, "error", e)  # extract SyntaxError from AstroidSyntaxError
    return textbuilder.Text(_create_syntax_error_code(final_formula, formula, error))
""", "C19-R7"),
  ("stub-raw-message", C, """  return "%s\\nraise %s(%r, ('usercode', %r, %r, %r))" % (""", """  return "%s\\nraise %s('%s', ('usercode', %r, %r, %r))" % (""", "C19-R5"),
]
