"""C05 Incremental recalculation equals recalculation from scratch -- dependency discipline."""
import ast
from ..fn import World
from ..index import AnalysisError, dotted
from ..astutil import text, short, endswith, calls_in, walk_no_nested
from ..dataflow import DefUse
from .. import events as E
from .. import types as T
from ..guards import facts
from ._h_E import decide, anchors_of, analysed_separately, cname, calls_E, nodes_calling_E, Flow, arg, argn, nargs, return_cases, leaf_polarity, is_const, nfacts, \
    mutation_nodes_deep, own_helper, args_by_params

EXPLANATION = (
  "Decides the dependency discipline incremental recalculation rests on: record-level doc actions "
  "invalidate what they wrote on every path (R1); every action that makes rows disappear unsets "
  "each column for those rows (keeping lookup indexes and reference inverse maps exact) and "
  "invalidates them (R2); every formula-visible cell read is preceded by recording the dependency "
  "(R3); relations honour the ALL_ROWS contract and compose target-then-source (R4); reference "
  "columns keep their inverse map in step with every write (R5); lookup indexes invalidate the "
  "keys they changed and keep sorted caches consistent (R6); columns entering or leaving a table "
  "are invalidated and removed from the graph (R7); every doc action that makes a new column name "
  "appear in a table invalidates what referred to unknown columns of it, after the usercode "
  "rebuild (R8). Not decided: that recorded relations are the "
  "right row mappings for every formula shape.")

RECORD_ACTIONS = ("BulkAddRecord", "BulkRemoveRecord", "BulkUpdateRecord", "ReplaceTableData")


def check(run, repo, tier):
  # each rule is decided on the code as written; when it is not satisfied there, it is asked again
  # on the view with private helpers inlined (see _h_E.decide), so statements moved into a new
  # helper keep their place
  import os
  _HERE = os.path.dirname(os.path.abspath(__file__))
  decide(run, repo, [r1_invalidate, r2_removal_siblings, r3_read_requires_dependency, r4_relations, r5_reference_index, r6_lookup_index, r7_column_lifecycle, r6_reset_all_keys, r8_new_column_names],
         anchors_of(os.path.join(_HERE, "c05.py"), os.path.join(_HERE, "_extra.py"), os.path.join(_HERE, "_h_E.py"), os.path.join(_HERE, "../events.py")))

def r6_reset_all_keys(run, w):
  from ._extra import c13_reset_all_keys
  run.guard(c13_reset_all_keys, run, w, "C05-R6")


def _invalidating(c, nm, fn):
  return any(E.is_engine_call(m)(c, nm, fn) for m in
             ("invalidate_records", "add_records", "load_table"))


def r1_invalidate(run, w):
  R1 = run.rule("C05-R1", "record-level doc actions invalidate the rows they wrote on every "
                "normal path after the write", floor=6)
  for an in RECORD_ACTIONS:
    fn = w.fn("docactions.DocActions." + an)
    cfg = fn.cfg
    muts = mutation_nodes_deep(w, fn, exclude=set(w.doc_action_names()))
    inv = nodes_calling_E(fn, _invalidating)
    bad = None
    for m in sorted(muts):
      if m in inv:
        continue
      if cfg.exit.id in cfg.reach_after({m}, removed=inv):
        bad = m
        break
    wit = cfg.describe_path(cfg.path(bad, {cfg.exit.id}, removed=inv, after=True)) \
        if bad is not None else None
    run.ob(R1, fn.qualname, "mutation -> invalidate_records",
           "every write is followed by invalidation before the action returns", bad is None,
           witness=wit, fi=fn.fi, node=cfg.nodes[bad].stmt if bad is not None else None,
           missing=not inv)
  # add_records / load_table do end in invalidation
  ar = w.fn("engine.Engine.add_records")
  inv = nodes_calling_E(ar, E.is_engine_call("invalidate_records")) | \
      nodes_calling_E(ar, lambda c, nm, f: nm == "self.invalidate_records")
  ok = bool(inv) and ar.cfg.dominated_by(ar.cfg.exit.id, inv)
  aflow = Flow(ar)
  ps = ar.fi.params()
  def whole_rows(n, c):
    """invalidate_records(<table_id param>, <row_ids param>) with no column restriction."""
    a0, a1 = argn(w, ar, c, 0), argn(w, ar, c, 1)
    return a0 is not None and a1 is not None and aflow.itext(a0, n.id, stop=ps) == ps[1] and \
        aflow.itext(a1, n.id, stop=ps) == ps[2] and argn(w, ar, c, 2) is None and \
        not any(k.arg == "col_ids" for k in c.keywords)
  ok_args = any(whole_rows(n, c) for (n, c, nm) in calls_E(ar) if nm == "self.invalidate_records")
  run.ob(R1, ar.qualname, "self.invalidate_records(table_id, row_ids)",
         "adding records invalidates every column of the new rows", ok and ok_args, fi=ar.fi,
         missing=not inv)
  lt = w.fn("engine.Engine.load_table")
  adds = nodes_calling_E(lt, lambda c, nm, f: nm == "self.add_records")
  run.ob(R1, lt.qualname, "self.add_records(...)", "loading a table goes through add_records",
         bool(adds) and lt.cfg.dominated_by(lt.cfg.exit.id, adds), fi=lt.fi, missing=not adds)
  # BulkUpdateRecord invalidates exactly the rows and columns it wrote
  bu = w.fn("docactions.DocActions.BulkUpdateRecord")
  bflow = Flow(bu)
  ps = bu.fi.params()
  ok = False
  for (n, c, nm) in calls_E(bu):
    if E.is_engine_call("invalidate_records")(c, nm, bu):
      cols = argn(w, bu, c, 2) or arg(c, None, "col_ids")
      rows = argn(w, bu, c, 1) or arg(c, None, "row_ids")
      ok = cols is not None and rows is not None and \
          bflow.itext(rows, n.id, stop=ps) == ps[2] and \
          bflow.itext(cols, n.id, stop=ps) in (ps[3] + ".keys()", ps[3], "list(%s)" % ps[3],
                                                "list(%s.keys())" % ps[3], "set(%s)" % ps[3])
  run.ob(R1, bu.qualname, "invalidate_records(table_id, row_ids, col_ids=columns.keys())",
         "the update invalidates the rows and all the columns it wrote", ok, fi=bu.fi)
  # the BulkRemoveRecord invalidation covers all columns of the removed rows
  br = w.fn("docactions.DocActions.BulkRemoveRecord")
  rflow = Flow(br)
  ok = False
  for (n, c, nm) in calls_E(br):
    if E.is_engine_call("invalidate_records")(c, nm, br):
      a0 = argn(w, br, c, 0)
      ok = nargs(c) == 2 and a0 is not None and argn(w, br, c, 1) is not None and \
          rflow.itext(a0, n.id, stop=br.fi.params()) == br.fi.params()[1]
  run.ob(R1, br.qualname, "invalidate_records(table_id, row_ids)",
         "removal invalidates every column of the removed rows", ok, fi=br.fi)


def _unset_all_columns_loop(fn, flow, depth=1):
  """[(unset node id, rows iterable expr, node id of the rows loop, conditions inside the column
  loop)] for every `<col>.unset(<row>)` whose receiver is the variable of a loop over the values of
  a table's column dict and whose argument is the variable of a loop over some rows."""
  out = []
  for (n, c, nm) in calls_E(fn):
    if not (isinstance(c.func, ast.Attribute) and c.func.attr == "unset" and
            len(c.args) + len(c.keywords) == 1):
      continue
    src = flow.loop_source(c.func.value, n.id)
    if src is None:
      continue
    it = flow.resolve(src[0], src[1])[0]
    if not (isinstance(it, ast.Call) and isinstance(it.func, ast.Attribute) and
            it.func.attr == "values" and
            (fn.type_of(it.func.value) == "dict[column.BaseColumn]" or
             (fn.type_of(it.func.value) is None and
              text(it.func.value).endswith(".all_columns")))):
      continue
    a0 = c.args[0] if c.args else c.keywords[0].value
    rows = flow.loop_source(a0, n.id)
    conds = flow.facts_inside(n.id, src[1])
    out.append((n.id, rows[0] if rows else None, rows[1] if rows else None, conds))
  if depth > 0:
    # the loop may have been extracted into a helper of the same class taking the rows
    w = fn.world
    for (n, c, nm) in calls_E(fn):
      h = own_helper(w, fn, c, exclude=set(w.doc_action_names()))
      if h is None:
        continue
      hfn = w.fn_of(h)
      hflow = Flow(hfn)
      hps = h.params()[1:]
      b = args_by_params(c, hps)
      for (hn, hrows, hrn, hconds) in _unset_all_columns_loop(hfn, hflow, depth - 1):
        if hrows is None or b is None:
          continue
        t = hflow.itext(hrows, hrn, stop=hps)
        if t in hps and t in b:
          out.append((n.id, b[t], n.id, hconds))
  return out


def r2_removal_siblings(run, w):
  R2 = run.rule("C05-R2", "doc actions that make rows disappear unset every column for those rows "
                "and invalidate them (reference implementation: BulkRemoveRecord)", floor=4)
  for an in ("BulkRemoveRecord", "ReplaceTableData"):
    fn = w.fn("docactions.DocActions." + an)
    flow = Flow(fn)
    loops = _unset_all_columns_loop(fn, flow)
    good = [(rows, rn) for (_, rows, rn, conds) in loops if rows is not None and not conds]
    run.ob(R2, fn.qualname, "for column in table.all_columns.values(): column.unset(<gone row>)",
           "every column (lookup maps and reference columns included) forgets the rows that "
           "disappear, unconditionally", bool(good), fi=fn.fi, missing=not loops)
    inv_ok = False
    for (n, c, nm) in calls_E(fn):
      if E.is_engine_call("invalidate_records")(c, nm, fn) and nargs(c) == 2:
        a1 = argn(w, fn, c, 1)
        if a1 is not None and any(flow.same_value(a1, n.id, rows, rn) for (rows, rn) in good):
          inv_ok = True
    run.ob(R2, fn.qualname, "invalidate_records(table_id, <gone rows>)",
           "everything depending on the vanished rows is recomputed", inv_ok, fi=fn.fi,
           missing=not good)
  # the gone rows of ReplaceTableData are the rows the table had before
  fn = w.fn("docactions.DocActions.ReplaceTableData")
  flow = Flow(fn)
  ok = False
  for (_, rows, rn, conds) in _unset_all_columns_loop(fn, flow):
    if rows is None:
      continue
    ok = ok or flow.du.flows_from(lambda x: isinstance(x, ast.Call) and
                                  isinstance(x.func, ast.Attribute) and
                                  x.func.attr == "fetch_table", rows)
  run.ob(R2, fn.qualname, "<gone rows> come from fetch_table(table_id, ...)",
         "the rows unset by ReplaceTableData are the rows present before the replacement", ok,
         fi=fn.fi)
  # RemoveTable: exempt by mechanism -- _update_table_model(table, None) deletes every column
  ru = w.fn("engine.Engine.rebuild_usercode")
  ok = any(nm == "self._update_table_model" and nargs(c) == 2 and
           argn(w, ru, c, 1) is not None and is_const(argn(w, ru, c, 1), None)
           for (n, c, nm) in calls_E(ru))
  run.ob(R2, ru.qualname, "self._update_table_model(table, None) for tables that are gone",
         "a removed table has all its columns deleted and invalidated (RemoveTable's equivalent "
         "of unsetting rows)", ok, fi=ru.fi)


# Cell reads that need no dependency edge of their own, each with its reason.
READ_EXCEPTIONS = {
  "sort_key.make_sort_key.SortKey.__init__": "dependency is created by SortedLookupMapColumn._recalc_rec_method "
                               "touching every sort column (checked in R6)",
  "engine.Engine._recompute_one_cell": "a trigger formula reads its own cell (restore=True)",
}


def _node_param_of_column(w, fi, node_param, col_param):
  """fi takes the column and its node as two parameters: at every call site of fi the argument for
  `node_param` is <the argument for col_param>.node (written in place, or a local / captured
  variable assigned from it). True / False / None (cannot be followed)."""
  ps = fi.params()
  if fi.cls is not None and fi.parent is None:
    ps = ps[1:]
  if node_param not in ps or col_param not in ps:
    return None
  sites = []
  for g in w.repo.all_functions():
    if g.module is not fi.module or g.qualname == fi.qualname:
      continue
    for s_ in g.node.body:
      if isinstance(s_, (ast.FunctionDef, ast.AsyncFunctionDef, ast.ClassDef)):
        continue      # a nested def is a function of its own
      for x in walk_no_nested(s_, into_lambda=True):
        if isinstance(x, ast.Call) and \
            ((isinstance(x.func, ast.Name) and x.func.id == fi.name) or
             (isinstance(x.func, ast.Attribute) and x.func.attr == fi.name)):
          sites.append((g, x))
  if not sites or fi.name in {x.id for g in w.repo.all_functions() if g.module is fi.module
                              for x in ast.walk(g.node) if isinstance(x, ast.Name)
                              and not any(x is c.func for (_, c) in sites)}:
    return None      # never called directly, or also passed around as a value
  for (g, call) in sites:
    bound = args_by_params(call, ps)
    if bound is None or node_param not in bound or col_param not in bound:
      return None
    gfn = w.fn_of(g)
    gflow = Flow(gfn)
    ws = gflow.where(call)
    if not ws:
      return None
    colx = gflow.itext(bound[col_param], ws[0])
    nodex = gflow.itext(bound[node_param], ws[0])
    if nodex == colx + ".node":
      continue
    ok = False
    if isinstance(bound[node_param], ast.Name):
      owner = g
      while owner is not None and not ok:
        ok = any(text(v) == colx + ".node" for v in E.local_defs(owner.node, bound[node_param].id))
        owner = owner.parent
    if not ok:
      return None
  return True


def r3_read_requires_dependency(run, w):
  R3 = run.rule("C05-R3", "every formula-visible cell read (get_cell_value) is dominated by "
                "_use_node for that column in the same function", floor=3)
  accessors, unfollowed = [], []
  for fi in w.repo.all_functions():
    if not analysed_separately(w, fi):
      continue
    fn = w.fn_of(fi)
    fi = fn.fi
    sites = [(n, c) for (n, c, nm) in calls_E(fn) if isinstance(c.func, ast.Attribute) and
             c.func.attr == "get_cell_value"]
    if not sites:
      continue
    if fi.cls is not None and w.typer.is_column(fi.cls.qualname):
      continue      # the column classes' own implementation
    cfg = fn.cfg
    for (n, c) in sites:
      if fi.qualname in READ_EXCEPTIONS:
        run.ob(R3, fi.qualname, short(c), "named exception: " + READ_EXCEPTIONS[fi.qualname],
               True, fi=fi, node=c, nontrivial=False)
        continue
      colvar = text(c.func.value)
      flow = Flow(fn)
      uses, unknown = set(), set()
      for (m, c2, nm) in calls_E(fn):
        last = (nm or "").split(".")[-1]
        if not (endswith(nm, "_use_node") or last in ("use_node", "_use_node")):
          continue
        a0n = argn(w, fn, c2, 0)
        if a0n is None:
          unknown.add(m.id)
          continue
        a0 = flow.itext(a0n, m.id)
        if a0 == colvar + ".node" or \
            a0 == flow.itext(c.func.value, n.id) + ".node":
          uses.add(m.id)
        elif isinstance(a0n, ast.Name):
          # node = col_obj.node captured in an enclosing scope
          owner = fi.parent
          found_def = False
          while owner is not None:
            ds = E.local_defs(owner.node, a0n.id)
            found_def = found_def or bool(ds)
            if any(text(v) == colvar + ".node" for v in ds):
              uses.add(m.id)
            owner = owner.parent
          if m.id not in uses and not found_def and not flow.values_at(a0n.id, m.id):
            # a parameter / free name: look at what the callers pass for it and for the column
            if _node_param_of_column(w, fi, a0n.id, colvar) is True:
              uses.add(m.id)
            else:
              unknown.add(m.id)    # which node it is cannot be seen
        # the row read, for the accessor check below
        row = argn(w, fn, c, 0)
        rps = fi.params()
        if row is not None and rps and m.id in uses | unknown and \
            flow.itext(row, n.id, stop=tuple(rps)) in ["%s._row_id" % p_ for p_ in rps]:
          accessors.append((fn, flow, m, c2, flow.itext(row, n.id, stop=tuple(rps)).split(".")[0]))
      ok = bool(uses) and cfg.dominated_by(n.id, uses)
      if not ok and (uses | unknown) and cfg.dominated_by(n.id, uses | unknown):
        unfollowed.append("%s: `%s` is preceded by a _use_node call whose node argument cannot "
                          "be related to the column read" % (fi.qualname, short(c, 60)))
        continue
      wit = None
      if not ok and uses:
        wit = cfg.describe_path(cfg.path(cfg.entry.id, {n.id}, removed=uses))
      run.ob(R3, fi.qualname, short(c), "cell read is preceded on every path by _use_node(%s.node"
             ", ...)" % colvar, ok, witness=wit, fi=fi, node=c, missing=not uses)
  # the accessor passes the row being read, so only that row is brought up to date / depended on
  if not accessors:
    unfollowed.append("no per-record accessor (get_cell_value(<rec>._row_id) after _use_node) found")
  for (fn, flow, m, c2, rec) in accessors:
    a1, a2 = argn(w, fn, c2, 1), argn(w, fn, c2, 2)
    ok = nargs(c2) == 3 and a1 is not None and a2 is not None and \
        flow.itext(a1, m.id, stop=(rec,)) == rec + "._source_relation" and \
        flow.itext(a2, m.id, stop=(rec,)) in ("(%s._row_id,)" % rec, "[%s._row_id]" % rec)
    run.ob(R3, fn.qualname, "use_node(node, rec._source_relation, (rec._row_id,))",
           "the dependency is recorded with the record's own relation and row", ok, fi=fn.fi)
  # _use_node: adds the edge (current node -> used node) for every formula node that is not
  # peeking; the only other reason to skip it is that the very same edge was added before
  un = w.fn("engine.Engine._use_node")
  cfg = un.cfg
  flow = Flow(un)
  ups = un.fi.params()
  adds = [(n, c) for (n, c, nm) in calls_E(un) if endswith(nm, "dep_graph.add_edge")]
  # bringing the used node up to date: Engine._recompute, or its body written in place
  recomp = nodes_calling_E(un, lambda c, nm, f: nm in ("self._recompute", "self._recompute_step",
                                                      "self._update_loop"))
  ok = bool(adds) and bool(recomp)
  shape = bool(adds)
  for (n, c) in adds:
    # the edge: (self._current_node, <node param>, <relation param>), inline or through a local
    elts = None
    if len(c.args) == 1 and isinstance(c.args[0], ast.Starred):
      ls = flow.leaves(c.args[0].value, n.id)
      if len(ls) == 1 and isinstance(ls[0].expr, ast.Tuple):
        elts = [flow.itext(e, ls[0].nid, stop=ups) for e in ls[0].expr.elts]
    elif len(c.args) == 3:
      elts = [flow.itext(e, n.id, stop=ups) for e in c.args]
    shape = shape and elts == ["self._current_node", ups[1], ups[2]]
    for (t, pol, i) in flow.required_facts(n.id):
      tt = text(t)
      allowed = (tt == "self._peeking" and pol is False) or \
          (tt == "self._is_current_node_formula" and pol is True) or \
          (isinstance(t, ast.Compare) and len(t.ops) == 1 and
           text(t.comparators[0]) == "self._recompute_edge_set" and
           ((isinstance(t.ops[0], ast.NotIn) and pol is True) or
            (isinstance(t.ops[0], ast.In) and pol is False)))
      ok = ok and allowed
  run.ob(R3, un.qualname, "edge = (self._current_node, node, relation); dep_graph.add_edge(*edge)",
         "the edge says: the node being computed depends on the node read, via the relation in use",
         ok and shape, fi=un.fi)
  if unfollowed:
    raise AnalysisError(unfollowed[0])


def _all_rows_atom(flow, p):
  """atom(expr, nid): `<p> == depend.ALL_ROWS` (either operand order, == or is)."""
  def atom(e, i):
    if not (isinstance(e, ast.Compare) and len(e.ops) == 1 and
            isinstance(e.ops[0], (ast.Eq, ast.Is))):
      return False
    for (x, y) in ((e.left, e.comparators[0]), (e.comparators[0], e.left)):
      if flow.itext(x, i, stop=(p,)) == p and endswith(dotted(y), "ALL_ROWS"):
        return True
    return False
  return atom


def _expr_facts(root, target):
  """(test, polarity) facts established by the conditional expressions of `root` on the way down
  to sub-expression `target`."""
  out = []
  def go(e):
    if e is target:
      return True
    for ch in ast.iter_child_nodes(e):
      if go(ch):
        if isinstance(e, ast.IfExp) and ch is e.body:
          out.extend(nfacts(e.test, True))
        elif isinstance(e, ast.IfExp) and ch is e.orelse:
          out.extend(nfacts(e.test, False))
        return True
    return False
  go(root)
  return out


def r4_relations(run, w):
  R4 = run.rule("C05-R4", "relations: ALL_ROWS is guarded before iterating; composition applies "
                "target then source; SingleRowsIdentityRelation drops ALL_ROWS", floor=5)
  base = w.repo.cls("relation.Relation")
  for ci in w.repo.subclasses(base, strict=True):
    m = ci.methods.get("get_affected_rows")
    if m is None:
      continue
    fn = w.fn_of(m)
    flow = Flow(fn)
    p = m.params()[1]
    cfg = fn.cfg
    atom = _all_rows_atom(flow, p)
    def mentions_p(e, nid):
      return any(isinstance(x, ast.Name) and flow.itext(x, nid, stop=(p,)) == p
                 for x in ast.walk(e))
    sites = []     # (cfg node id, root expression evaluated there, the iterable)
    for n in cfg.nodes:
      if n.kind == "for" and mentions_p(n.stmt.iter, n.id):
        sites.append((n.id, n.stmt.iter, n.stmt.iter))
      for e in n.exprs:
        for x in walk_no_nested(e):
          if isinstance(x, ast.comprehension) and mentions_p(x.iter, n.id):
            sites.append((n.id, e, x.iter))
    if not sites:
      run.ob(R4, m.qualname, "does not iterate its argument", "no ALL_ROWS guard needed", True,
             fi=m, nontrivial=False)
      continue
    ok = True
    for (nid, root, it) in sites:
      inline_guard = any(pol is False and atom(t, nid) for (t, pol) in _expr_facts(root, it))
      ok = ok and (inline_guard or flow.guarded(nid, atom, False))
    # and the guard branch returns ALL_ROWS (or nothing for SingleRows)
    run.ob(R4, m.qualname, "if %s == depend.ALL_ROWS: return ..." % p,
           "the ALL_ROWS sentinel is never iterated", ok, fi=m)
  cr = w.fn("relation.ComposedRelation.get_affected_rows")
  cflow = Flow(cr)
  p = cr.fi.params()[1]
  cases = return_cases(cflow)
  ok = len(cases) == 1 and cases[0][1].expr is not None and \
      cflow.itext(cases[0][1].expr, cases[0][1].nid, stop=(p,)) == \
      "self.source_relation.get_affected_rows(self.target_relation.get_affected_rows(%s))" % p
  run.ob(R4, cr.qualname, "source(target(rows))", "composed relation maps target-side rows first, "
         "then source-side", ok, fi=cr.fi)
  init = w.fn("relation.ComposedRelation.__init__")
  iflow = Flow(init)
  ps = init.fi.params()
  def stores(attr, param):
    for n in init.cfg.nodes:
      if n.kind == "stmt" and isinstance(n.stmt, ast.Assign):
        for t in n.stmt.targets:
          if text(t) == "self." + attr and iflow.itext(n.stmt.value, n.id, stop=ps) == param:
            return True
    return False
  ok = stores("source_relation", ps[1]) and stores("target_relation", ps[2])
  run.ob(R4, init.qualname, "source_relation = referring side; target_relation = target side",
         "sides are not swapped", ok, fi=init.fi)
  sr = w.fn("relation.SingleRowsIdentityRelation.get_affected_rows")
  sflow = Flow(sr)
  p = sr.fi.params()[1]
  atom = _all_rows_atom(sflow, p)
  seen = set()
  ok = True
  for (rn, l) in return_cases(sflow):
    t = sflow.itext(l.expr, l.nid, stop=(p,)) if l.expr is not None else None
    pol = leaf_polarity(sflow, l, atom)
    if t in ("[]", "()", "set()", "list()", "tuple()") and pol is True:
      seen.add("none")
    elif t == p and pol is False:
      seen.add("rows")
    else:
      ok = False
  run.ob(R4, sr.qualname, "[] if rows == ALL_ROWS else rows",
         "trigger dependencies ignore whole-column invalidation and pass specific rows",
         ok and seen == {"none", "rows"}, fi=sr.fi)
  ir = w.fn("relation.IdentityRelation.get_affected_rows")
  rflow = Flow(ir)
  cases = return_cases(rflow)
  p = ir.fi.params()[1]
  run.ob(R4, ir.qualname, "return input_rows", "identity relation maps rows to themselves",
         len(cases) == 1 and cases[0][1].expr is not None and
         rflow.itext(cases[0][1].expr, cases[0][1].nid, stop=(p,)) == p, fi=ir.fi)


def r5_reference_index(run, w):
  R5 = run.rule("C05-R5", "reference columns: inverse map updated from the stored values read "
                "before and after every write; copy rebuilds it", floor=4)
  fn = w.fn("column.BaseReferenceColumn.set")
  cfg = fn.cfg
  row = fn.fi.params()[1]
  base_set = {n.id for (n, c, nm) in calls_E(fn) if isinstance(c.func, ast.Attribute) and
              c.func.attr == "set" and isinstance(c.func.value, ast.Call) and
              dotted(c.func.value.func) == "super"}
  upd = [(n, c) for (n, c, nm) in calls_E(fn) if nm == "self._update_references"]
  if not base_set or not upd:
    raise AnalysisError("BaseReferenceColumn.set: base write or _update_references not found")
  flow = Flow(fn)
  def stored_read(x, k):
    """self.safe_get(<row param>)"""
    return isinstance(x, ast.Call) and text(x.func) == "self.safe_get" and nargs(x) == 1 and \
        flow.itext(x.args[0] if x.args else x.keywords[0].value, k, stop=(row,)) == row
  for (n, c) in upd:
    a0, a1, a2 = argn(w, fn, c, 0), argn(w, fn, c, 1), argn(w, fn, c, 2)
    ok = nargs(c) == 3 and None not in (a0, a1, a2) and flow.itext(a0, n.id, stop=(row,)) == row
    if ok:
      lo, ln = flow.leaves(a1, n.id), flow.leaves(a2, n.id)
      after_write = cfg.reach_after(base_set)
      ok = bool(lo) and bool(ln) and \
          all(stored_read(l.expr, l.nid) and l.nid not in after_write and
              l.nid not in base_set for l in lo) and \
          all(stored_read(l.expr, l.nid) and cfg.dominated_by(l.nid, base_set) and
              l.nid not in base_set for l in ln) and \
          all(cfg.dominated_by(n.id, {l.nid}) for l in lo + ln)
    run.ob(R5, fn.qualname, short(c), "old = safe_get before the write, new = safe_get after it "
           "(the value as stored, after clean-up), both passed to _update_references", ok,
           fi=fn.fi, node=c)
  run.ob(R5, fn.qualname, "_update_references on every path",
         "no write leaves the inverse map untouched",
         all(cfg.postdominated_by(b, {n.id for (n, _) in upd}) for b in base_set), fi=fn.fi)
  ur = w.fn("column.BaseReferenceColumn._update_references")
  ps = ur.fi.params()
  rem = [c for (n, c, nm) in calls_E(ur) if endswith(nm, "_relation.remove_reference")]
  add = [c for (n, c, nm) in calls_E(ur) if endswith(nm, "_relation.add_reference")]
  uflow = Flow(ur)
  def loop_over(call, var):
    """call(<row param>, r) for r in self._value_iterable(<var>)"""
    ok_ = False
    for nid in uflow.where(call):
      a0, a1 = argn(w, ur, call, 0), argn(w, ur, call, 1)
      if a0 is None or a1 is None or nargs(call) != 2:
        return False
      src = uflow.loop_source(a1, nid)
      ok_ = uflow.itext(a0, nid, stop=ps) == ps[1] and src is not None and \
          uflow.itext(src[0], src[1], stop=ps) == "self._value_iterable(%s)" % var and \
          not uflow.required_facts(nid)
    return ok_
  ok = len(rem) == 1 and len(add) == 1 and loop_over(rem[0], ps[2]) and loop_over(add[0], ps[3])
  run.ob(R5, ur.qualname, "remove old targets, add new targets",
         "references of the old value are removed and those of the new value added, for this row",
         ok, fi=ur.fi)
  cp = w.fn("column.BaseReferenceColumn.copy_from_column")
  cfg = cp.cfg
  clr = nodes_calling_E(cp, lambda c, nm, f: endswith(nm, "_relation.clear"))
  reb = nodes_calling_E(cp, lambda c, nm, f: nm == "self._update_references")
  base = {n.id for (n, c, nm) in calls_E(cp) if isinstance(c.func, ast.Attribute) and
          c.func.attr == "copy_from_column" and isinstance(c.func.value, ast.Call)}
  ok = bool(clr) and bool(reb) and bool(base) and cfg.dominated_by(cfg.exit.id, clr) and \
      all(cfg.dominated_by(r, clr | base) and cfg.dominated_by(r, base) for r in reb)
  run.ob(R5, cp.qualname, "copy -> relation.clear() -> re-add every reference",
         "a copied column's inverse map is rebuilt from the copied data", ok, fi=cp.fi)
  rr = w.repo.cls("relation.ReferenceRelation")
  ar = w.fn("relation.ReferenceRelation.add_reference")
  aflow = Flow(ar)
  aps = ar.fi.params()
  ok = False
  for (n, c, nm) in calls_E(ar):
    if isinstance(c.func, ast.Attribute) and c.func.attr == "add" and nargs(c) == 1:
      recv = aflow.inline(c.func.value, n.id, stop=aps)
      ok = ok or (aflow.itext(c.args[0], n.id, stop=aps) == aps[1] and
                  isinstance(recv, ast.Call) and text(recv.func) == "self.inverse_map.setdefault"
                  and bool(recv.args) and text(recv.args[0]) == aps[2])
  run.ob(R5, ar.qualname, "inverse_map.setdefault(target, set()).add(referring)",
         "inverse map is keyed by target row and holds referring rows", ok, fi=ar.fi)
  rm = w.fn("relation.ReferenceRelation.remove_reference")
  mflow = Flow(rm)
  mps = rm.fi.params()
  ok = False
  for (n, c, nm) in calls_E(rm):
    if isinstance(c.func, ast.Attribute) and c.func.attr in ("discard", "remove") and \
        nargs(c) == 1 and c.args:
      ok = ok or (mflow.itext(c.args[0], n.id, stop=mps) == mps[1] and
                  mflow.itext(c.func.value, n.id, stop=mps) == "self.inverse_map[%s]" % mps[2]
                  and not mflow.required_facts(n.id))
  ok = ok and not any(isinstance(s_, ast.Try) for s_ in ast.walk(rm.node))
  run.ob(R5, rm.qualname, "inverse_map[target].discard(referring)",
         "removal addresses the entry directly (a missing entry is a detected inconsistency, "
         "not silently ignored)", ok, fi=rm.fi)


def r6_lookup_index(run, w):
  R6 = run.rule("C05-R6", "lookup maps: index update then invalidation of exactly the affected "
                "keys; sorted helper touches every sort column and resets the cached order; "
                "LookupSet clears cached orders when it changes", floor=7)
  for q, upd in (("lookup.LookupMapColumn._recalc_rec_method", "_mapping.update_record"),
                 ("lookup.LookupMapColumn.unset", "_mapping.remove_row_id"),
                 ("lookup.SortedLookupMapColumn._recalc_rec_method",
                  "_lookup_col._reset_sorted_versions")):
    fn = w.fn(q)
    cfg = fn.cfg
    flow = Flow(fn)
    ups = [n for (n, c, nm) in calls_E(fn) if endswith(nm, upd)]
    inv = [(n, c) for (n, c, nm) in calls_E(fn)
           if endswith(nm, "_relation_tracker.invalidate_affected_keys")]
    ok = len(ups) == 1 and len(inv) == 1 and nargs(inv[0][1]) == 1
    if ok:
      a0 = argn(w, fn, inv[0][1], 0)
      ok = a0 is not None and \
          flow.denotes(a0, inv[0][0].id, lambda x, k: isinstance(x, ast.Call) and
                       endswith(cname(fn, x), upd)) and \
          cfg.dominated_by(inv[0][0].id, {ups[0].id}) and \
          cfg.dominated_by(cfg.exit.id, {inv[0][0].id})
    run.ob(R6, q, "affected = %s(...); invalidate_affected_keys(affected)" % upd,
           "the keys whose row sets changed are exactly the ones whose lookups are invalidated",
           ok, fi=fn.fi)
  srt = w.fn("lookup.SortedLookupMapColumn._recalc_rec_method")
  sflow = Flow(srt)
  rec = srt.fi.params()[1]
  ok = False
  n_touch = 0
  for (n, c, nm) in calls_E(srt):
    if dotted(c.func) == "getattr" and len(c.args) == 2 and \
        sflow.itext(c.args[0], n.id, stop=(rec,)) == rec:
      n_touch += 1
      src = sflow.loop_source(c.args[1], n.id)
      ok = src is not None and sflow.itext(src[0], src[1]) == "self._sort_col_ids" and \
          not sflow.required_facts(n.id) and \
          srt.cfg.dominated_by(srt.cfg.exit.id, {src[1]})
  run.ob(R6, srt.qualname, "for col_id in self._sort_col_ids: getattr(rec, col_id)",
         "the sorted helper depends on every sort column (this is the dependency SortKey relies on)",
         ok and n_touch == 1, fi=srt.fi)
  rs = w.fn("lookup.LookupMapColumn._reset_sorted_versions")
  rflow = Flow(rs)
  ok = False
  for (n, c, nm) in calls_E(rs):
    if endswith(nm, "sorted_versions.pop") and c.args:
      ok = ok or rflow.itext(c.args[0], n.id, stop=rs.fi.params()) == rs.fi.params()[2]
  run.ob(R6, rs.qualname, "row_ids.sorted_versions.pop(sort_spec, None)",
         "the cached order for this sort spec is dropped for every affected key", ok, fi=rs.fi)
  dl = w.fn("lookup.LookupMapColumn._do_lookup_with_sort")
  dflow = Flow(dl)
  ps = dl.fi.params()
  gets = [(n, c) for (n, c, nm) in calls_E(dl) if endswith(nm, "sorted_versions.get")]
  sets = [n for n in dl.cfg.nodes if n.kind == "stmt" and isinstance(n.stmt, ast.Assign) and
          isinstance(n.stmt.targets[0], ast.Subscript) and
          endswith(dl.aliases.dotted(n.stmt.targets[0].value) or "", "sorted_versions")]
  ok = len(gets) == 1 and len(sets) == 1 and bool(gets[0][1].args) and \
      dflow.itext(gets[0][1].args[0], gets[0][0].id, stop=ps) == ps[2] and \
      dflow.itext(sets[0].stmt.targets[0].slice, sets[0].id, stop=ps) == ps[2]
  srt_calls = [(n, c) for (n, c, nm) in calls_E(dl) if dotted(c.func) == "sorted"]
  ok = ok and len(srt_calls) == 1 and any(
    k.arg == "key" and dflow.itext(k.value, srt_calls[0][0].id, stop=ps) == ps[3]
    for k in srt_calls[0][1].keywords)
  run.ob(R6, dl.qualname, "cache read and write use the same sort_spec key; sorted(..., "
         "key=sort_key)", "a cached order is only ever returned for the sort spec that produced it",
         ok, fi=dl.fi)
  # LookupSet (twowaymap): the registered add/remove functions clear sorted_versions on the path
  # that changed the set
  tw = w.repo.module("twowaymap")
  reg = None
  for node in tw.tree.body:
    if isinstance(node, ast.Expr) and isinstance(node.value, ast.Call) and \
        dotted(node.value.func) == "register_container" and node.value.args and \
        text(node.value.args[0]) == "LookupSet":
      reg = node.value
  if reg is None or len(reg.args) != 4:
    raise AnalysisError("twowaymap: register_container(LookupSet, ...) not found")
  for reg_fn, meths in ((reg.args[2], ("add",)), (reg.args[3], ("discard", "remove"))):
    fn = w.fn("twowaymap." + text(reg_fn))
    cont = fn.fi.params()[0]
    muts = [(n, c) for (n, c, nm) in calls_E(fn) if nm in [cont + "." + m for m in meths]]
    clr = nodes_calling_E(fn, lambda c, nm, f: nm == cont + ".sorted_versions.clear")
    ok = bool(muts) and bool(clr) and all(fn.cfg.postdominated_by(n.id, clr) for (n, c) in muts)
    run.ob(R6, fn.qualname, "%s.%s(value); %s.sorted_versions.clear()" % (cont, meths[0], cont),
           "a cached order never survives a change of the set it orders", ok, fi=fn.fi)
  # the index of a LookupMapColumn uses LookupSet bins (so the cache clearing applies)
  for q in ("lookup.SimpleLookupMapping._make_row_key_map",
            "lookup.ContainsLookupMapping._make_row_key_map"):
    fn = w.fn(q)
    ok = any(endswith(dotted(c.func), "TwoWayMap") and
             arg(c, 0, "left") is not None and text(arg(c, 0, "left")) == "LookupSet"
             for c in calls_in(fn.node))
    run.ob(R6, q, "TwoWayMap(left=LookupSet, ...)", "row sets of the index are LookupSets", ok,
           fi=fn.fi, nontrivial=False)


def r7_column_lifecycle(run, w):
  R7 = run.rule("C05-R7", "columns entering or leaving a table are invalidated; a deleted "
                "column's dependents are invalidated, its edges cleared and it leaves "
                "recompute_map", floor=5)
  fn = w.fn("engine.Engine._update_table_model")
  cfg = fn.cfg
  flow = Flow(fn)
  rebuild = nodes_calling_E(fn, lambda c, nm, f: endswith(nm, "_rebuild_model"))
  def is_old(x, k):
    """snapshot of the table's columns taken before the model is rebuilt"""
    return isinstance(x, ast.Call) and isinstance(x.func, ast.Attribute) and \
        x.func.attr == "copy" and text(x.func.value).endswith(".all_columns") and \
        not (cfg.reach_after(rebuild) & {k})
  def is_new(x, k):
    """the table's columns after the rebuild, or nothing when the table is going away"""
    if isinstance(x, ast.Dict) and not x.keys:
      return True
    return isinstance(x, ast.Attribute) and x.attr == "all_columns" and \
        bool(rebuild) and cfg.dominated_by(k, rebuild)
  def keys_of(e, k, pred):
    e = flow.resolve(e, k)[0]
    if isinstance(e, ast.Call) and isinstance(e.func, ast.Attribute) and e.func.attr == "keys" \
        and not e.args:
      e = e.func.value
    elif isinstance(e, ast.Call) and dotted(e.func) == "set" and len(e.args) == 1:
      e = e.args[0]
    else:
      return False
    ls = flow.leaves(e, k)
    return bool(ls) and all(pred(l.expr, l.nid) for l in ls) and \
        (pred is is_old or any(not isinstance(l.expr, ast.Dict) for l in ls))
  def difference(x, k, first, second):
    return isinstance(x, ast.BinOp) and isinstance(x.op, ast.Sub) and \
        keys_of(x.left, k, first) and keys_of(x.right, k, second)
  def is_added(x, k):
    return difference(x, k, is_new, is_old)
  def is_deleted(x, k):
    return difference(x, k, is_old, is_new)
  n_added = [n for n in cfg.nodes for e in n.exprs for x in walk_no_nested(e)
             if is_added(x, n.id)]
  n_deleted = [n for n in cfg.nodes for e in n.exprs for x in walk_no_nested(e)
               if is_deleted(x, n.id)]
  ok = bool(n_added) and bool(n_deleted)
  run.ob(R7, fn.qualname, "added = new - old; deleted = old - new",
         "added and deleted column sets are the two set differences", ok, fi=fn.fi)
  if ok:
    inv_added = False
    for (n, c, nm) in calls_E(fn):
      if nm == "self.invalidate_records":
        cols = arg(c, None, "col_ids") or argn(w, fn, c, 2)
        if cols is not None and flow.denotes(cols, n.id, is_added):
          # the only thing that may skip it is the set being empty
          inv_added = all(pol is True and flow.denotes(t, i, is_added)
                          for (t, pol, i) in flow.required_facts(n.id))
    run.ob(R7, fn.qualname, "invalidate_records(table_id, col_ids=added)",
           "new columns and their dependents are computed", inv_added, fi=fn.fi)
    def loop_calls(meth):
      for (n, c, nm) in calls_E(fn):
        if nm == "self." + meth and nargs(c) == 1:
          a0 = flow.resolve(argn(w, fn, c, 0), n.id)[0] if argn(w, fn, c, 0) is not None else None
          if isinstance(a0, ast.Subscript) and \
              keys_of(ast.Call(func=ast.Attribute(value=a0.value, attr="keys", ctx=ast.Load()),
                               args=[], keywords=[]), n.id, is_old):
            src = flow.loop_source(a0.slice, n.id)
            if src is not None and flow.denotes(src[0], src[1], is_deleted) and \
                not flow.required_facts(n.id):
              return True
      return False
    run.ob(R7, fn.qualname, "for c in deleted: invalidate_column(old_columns[c]); "
           "delete_column(old_columns[c])", "removed columns invalidate their dependents and are "
           "scheduled for clean-up", loop_calls("invalidate_column") and loop_calls("delete_column"),
           fi=fn.fi)
  dc = w.fn("engine.Engine.delete_column")
  dcfg = dc.cfg
  want = ["self.invalidate_column", "self.dep_graph.clear_dependencies", "self.recompute_map.pop",
          "self._gone_columns.append"]
  at = {x: {n.id for (n, c, nm) in calls_E(dc) if nm == x} for x in want}
  ok = all(at[x] and dcfg.dominated_by(dcfg.exit.id, at[x]) for x in want) and \
      all(dcfg.dominated_by(x, at[want[0]]) for x in at[want[1]])
  run.ob(R7, dc.qualname, " -> ".join(w_.split(".")[-1] for w_ in want),
         "deleting a column invalidates dependents, clears its edges, drops its dirty set and "
         "queues it for destruction", ok, fi=dc.fi)
  # created columns are invalidated
  cc = w.fn("table.Table._create_or_update_col")
  cfg = cc.cfg
  creates = {n.id for (n, c, nm) in calls_E(cc) if endswith(nm, "create_column")}
  inv = nodes_calling_E(cc, lambda c, nm, f: endswith(nm, "_engine.invalidate_column"))
  run.ob(R7, cc.qualname, "col_obj = create_column(...); invalidate_column(col_obj)",
         "a newly created column object starts fully dirty",
         bool(creates) and all(cfg.postdominated_by(c, inv) for c in creates), fi=cc.fi,
         missing=not inv or not creates)


def r8_new_column_names(run, w):
  R8 = run.rule("C05-R8", "doc actions that make a new column name appear in a table (inverse is "
                "RemoveColumn / RenameColumn) call the engine's new-column-name invalidation on "
                "every path, after rebuild_usercode()", floor=2)
  from .c01 import INVERSE
  # the engine method, by role: invalidates the dependents of <table>._new_columns_node
  eng = w.repo.cls("engine.Engine")
  notifiers = []
  for m in eng.methods.values():
    f = w.fn_of(m)
    for (n, c, nm) in calls_E(f):
      if endswith(nm, "invalidate_deps") and c.args and \
          text(c.args[0]).endswith("._new_columns_node"):
        notifiers.append(m)
  if not notifiers:
    raise AnalysisError("no Engine method invalidates <table>._new_columns_node any more")
  nnames = {m.name for m in notifiers}
  for m in notifiers:
    f = w.fn_of(m)
    inv = {n.id for (n, c, nm) in calls_E(f) if endswith(nm, "invalidate_deps") and c.args and
           text(c.args[0]).endswith("._new_columns_node")}
    run.ob(R8, m.qualname, "dep_graph.invalidate_deps(table._new_columns_node, ALL_ROWS, ...)",
           "formulas that failed on an unknown column name are recomputed, unconditionally",
           f.cfg.dominated_by(f.cfg.exit.id, inv), fi=m, nontrivial=False)
  cls = w.repo.cls("docactions.DocActions")
  makers = sorted(an for an, (prim, extras) in INVERSE.items()
                  if set(prim) & {"RemoveColumn", "RenameColumn"})
  for an in makers:
    if an not in cls.methods:
      continue
    fn = w.fn_of(cls.methods[an])
    cfg = fn.cfg
    rebuilds = nodes_calling_E(fn, E.is_engine_call("rebuild_usercode"))
    notes = {n.id for (n, c, nm) in calls_E(fn)
             if nm is not None and nm.split(".")[-1] in nnames and
             (E.is_engine_call(nm.split(".")[-1])(c, nm, fn))}
    if not rebuilds:
      raise AnalysisError("%s: rebuild_usercode() call not found" % fn.qualname)
    # after every rebuild (only then does the new name resolve), on every path
    ok = bool(notes) and all(cfg.postdominated_by(r, notes) for r in rebuilds)
    run.ob(R8, fn.qualname, "rebuild_usercode(); new_column_name(table)",
           "after the rebuild made the new name resolvable, everything that referred to an unknown "
           "column of this table is invalidated", ok, fi=fn.fi, missing=not notes)


D = "sandbox/grist/docactions.py"
EN = "sandbox/grist/engine.py"
CO = "sandbox/grist/column.py"
LK = "sandbox/grist/lookup.py"
TB = "sandbox/grist/table.py"
RL = "sandbox/grist/relation.py"
VARIANTS = [
  ("update-no-invalidate", D,
   "    self._engine.invalidate_records(table_id, row_ids, col_ids=columns.keys())\n",
   "    if undo_values:\n      self._engine.invalidate_records(table_id, row_ids, col_ids=columns.keys())\n", "C05-R1"),
  ("add-records-no-invalidate", EN,
   "    # Invalidate new records to cause the formula columns to get recomputed.\n    self.invalidate_records(table_id, row_ids)\n", "", "C05-R1"),
  ("replace-no-unset", D,
   """    table = self._engine.tables[table_id]
    for column in table.all_columns.values():
      for row_id in old_data[1]:
        column.unset(row_id)
    self._engine.invalidate_records(table_id, old_data[1])
""", "", "C05-R2"),
  ("remove-unset-skips-private", D,
   """    for column in table.all_columns.values():
      for row_id in row_ids:
        column.unset(row_id)
""", """    for column in table.all_columns.values():
      if not column.is_private():
        for row_id in row_ids:
          column.unset(row_id)
""", "C05-R2"),
  ("accessor-skips-empty-record", TB,
   """      use_node(node, rec._source_relation, (rec._row_id,))
      value = col_obj.get_cell_value(rec._row_id)""",
   """      if rec._row_id:
        use_node(node, rec._source_relation, (rec._row_id,))
      value = col_obj.get_cell_value(rec._row_id)""", "C05-R3"),
  ("subset-no-use-node", TB,
   "    self._engine._use_node(col_obj.node, relation, row_ids)\n\n    # We construct",
   "    if row_ids:\n      self._engine._use_node(col_obj.node, relation, row_ids)\n\n    # We construct", "C05-R3"),
  ("composed-swapped", RL,
   """    return self.source_relation.get_affected_rows(
      self.target_relation.get_affected_rows(input_rows))""",
   """    return self.target_relation.get_affected_rows(
      self.source_relation.get_affected_rows(input_rows))""", "C05-R4"),
  ("refrel-no-allrows-guard", RL,
   """    if input_rows == depend.ALL_ROWS:
      return depend.ALL_ROWS
    affected_rows = set()
    for target_row_id in input_rows:""",
   """    affected_rows = set()
    for target_row_id in input_rows:""", "C05-R4"),
  ("singlerows-passes-all", RL,
   "    return [] if input_rows == depend.ALL_ROWS else input_rows",
   "    return input_rows", "C05-R4"),
  ("ref-index-from-raw-value", CO,
   """    new = self.safe_get(row_id)
    self._update_references(row_id, old, new)""",
   """    new = value
    self._update_references(row_id, old, new)""", "C05-R5"),
  ("ref-remove-tolerant", RL,
   "    self.inverse_map[target_row_id].discard(referring_row_id)",
   "    if target_row_id in self.inverse_map:\n      self.inverse_map[target_row_id].discard(referring_row_id)", "C05-R5"),
  ("copy-no-clear", CO,
   "    self._relation.clear()\n", "", "C05-R5"),
  ("lookup-unset-no-invalidate", LK,
   """    affected_keys = self._mapping.remove_row_id(row_id)
    self._relation_tracker.invalidate_affected_keys(affected_keys)""",
   """    affected_keys = self._mapping.remove_row_id(row_id)""", "C05-R6"),
  ("sorted-helper-skips-cols", LK,
   """    for col_id in self._sort_col_ids:
      getattr(rec, col_id)
""", """    for col_id in self._sort_col_ids[:1]:
      getattr(rec, col_id)
""", "C05-R6"),
  ("cache-key-mismatch", LK,
   "      row_id_set.sorted_versions[sort_spec] = row_ids",
   "      row_id_set.sorted_versions[()] = row_ids", "C05-R6"),
  ("lookupset-remove-keeps-cache", "sandbox/grist/twowaymap.py",
   "    container.discard(value)\n    container.sorted_versions.clear()", "    container.discard(value)", "C05-R6"),
  ("delete-col-keeps-dirty", EN,
   "    self.recompute_map.pop(col_obj.node, None)\n", "", "C05-R7"),
  ("rename-no-new-column-name", D,
   "    self._engine.new_column_name(table)\n\n    # We replaced the old column", "\n    # We replaced the old column", "C05-R8"),
  ("add-new-column-name-before-rebuild", D,
   "    self._engine.rebuild_usercode()\n    self._engine.new_column_name(table)\n\n    # Generate the undo action.\n    self._engine.out_actions.undo.append(actions.RemoveColumn",
   "    self._engine.new_column_name(table)\n    self._engine.rebuild_usercode()\n\n    # Generate the undo action.\n    self._engine.out_actions.undo.append(actions.RemoveColumn", "C05-R8"),
  ("new-col-not-invalidated", TB,
   "      col_obj = column.create_column(self, col_id, col_info)\n      self._engine.invalidate_column(col_obj)",
   "      col_obj = column.create_column(self, col_id, col_info)", "C05-R7"),
]
