"""C22 Cell value conversion is total and idempotent -- totality shape + result type tags."""
import ast
from ..fn import World
from ..index import AnalysisError, dotted
from ..astutil import text, short, endswith, calls_in, walk_no_nested

EXPLANATION = (
  "Decides (R1) totality by shape: no column type overrides convert(); convert() returns error "
  "objects unchanged and wraps do_convert() in a try whose catch-all handler cannot raise; and "
  "(R2) by a type-tag abstract interpretation of every do_convert(), that each returned value "
  "has an outer type accepted by that type's is_right_type() (read from its own source), or is a "
  "str (alt-text). Tags are inferred from constructors, literals, isinstance guards on the "
  "returned name, local assignments and, across calls, the returns of the repo's own helpers. "
  "Container results are checked at the outer tag only. Not decided: idempotence of convert() on "
  "its own results (value-level).")

PRIM = {"str", "int", "float", "bool", "none", "bytes", "tuple", "list", "RecordList", "dict"}
ALLNUM = {"int", "float"}


def check(run, repo, tier):
  w = World(repo)
  r1_totality(run, w)
  r2_tags(run, w)


def _types(w):
  base = w.repo.cls("usertypes.BaseColumnType")
  return [base] + w.repo.subclasses(base, strict=True)


def r1_totality(run, w):
  R1 = run.rule("C22-R1", "convert() is defined once, returns errors unchanged and fences "
                "do_convert() with a handler that cannot raise", floor=4)
  types = _types(w)
  for ci in types[1:]:
    run.ob(R1, ci.qualname, "no convert() override", "column types customise do_convert only",
           "convert" not in ci.methods, nontrivial=False)
  fn = w.fn("usertypes.BaseColumnType.convert")
  p = fn.fi.params()[1]
  cfg = fn.xcfg
  # error objects are returned as they are, before anything else
  first = fn.node.body[0]
  while isinstance(first, ast.Expr) and isinstance(first.value, ast.Constant):
    first = fn.node.body[fn.node.body.index(first) + 1]
  ok = isinstance(first, ast.If) and isinstance(first.test, ast.Call) and \
      dotted(first.test.func) == "isinstance" and text(first.test.args[0]) == p and \
      endswith(dotted(first.test.args[1]), "RaisedException") and \
      len(first.body) == 1 and isinstance(first.body[0], ast.Return) and \
      text(first.body[0].value) == p
  run.ob(R1, fn.qualname, "if isinstance(value, RaisedException): return value",
         "error objects pass through conversion unchanged", ok, fi=fn.fi)
  # do_convert is called inside try/except Exception
  calls = [(n, c) for (n, c, nm) in fn.calls(cfg) if nm == "self.do_convert"]
  trys = [t for t in ast.walk(fn.node) if isinstance(t, ast.Try) and
          any(c is x for (n, c) in calls for b in t.body for x in ast.walk(b))]
  ok = len(calls) == 1 and len(trys) >= 1 and any(
    h.type is None or text(h.type) in ("Exception", "BaseException") for h in trys[0].handlers)
  run.ob(R1, fn.qualname, "try: return self.do_convert(value) except Exception", "a failing "
         "conversion is caught whatever it raises", ok, fi=fn.fi)
  # nothing escapes: no path from entry reaches the exceptional exit
  reach = cfg.reach({cfg.entry.id})
  esc = cfg.raise_exit.id in reach
  wit = None
  if esc:
    wit = cfg.describe_path(cfg.path(cfg.entry.id, {cfg.raise_exit.id}))
  # calls allowed to be unfenced on the last fallback path: safe_repr (itself fenced) and the
  # isinstance test
  if esc:
    # tolerate the final fallback `return objtypes.safe_repr(x)` if safe_repr cannot raise
    sr = w.fn("objtypes.safe_repr")
    sr_ok = any(isinstance(t, ast.Try) and any(h.type is None or
                                               text(h.type) in ("Exception", "BaseException")
                                               for h in t.handlers) for t in sr.node.body)
    pth = cfg.path(cfg.entry.id, {cfg.raise_exit.id})
    last = cfg.nodes[pth[-2]] if pth and len(pth) >= 2 else None
    # recompute reachability ignoring raise edges out of nodes that only call safe_repr/isinstance
    benign = set()
    for n in cfg.nodes:
      cs = [dotted(c.func) for c in calls_in(n.exprs)]
      if n.stmt is not None and cs and all(d in ("objtypes.safe_repr", "safe_repr", "isinstance")
                                           for d in cs) and sr_ok:
        benign.add(n.id)
    # remove exceptional edges of benign nodes
    saved = {b: set(cfg.succ[b]) for b in benign}
    for b in benign:
      cfg.succ[b] = cfg.normal_succ(b)
    esc = cfg.raise_exit.id in cfg.reach({cfg.entry.id})
    if esc:
      wit = cfg.describe_path(cfg.path(cfg.entry.id, {cfg.raise_exit.id}))
    for b, s_ in saved.items():
      cfg.succ[b] = s_
  run.ob(R1, fn.qualname, "no exceptional exit", "every statement of convert() that can raise "
         "is itself fenced (str() of the value falls back to safe_repr)", not esc, witness=wit,
         fi=fn.fi)


# ------------------------------------------------------------------------------------------ tags
def _accept_set(w, ci):
  """Outer type tags accepted by ci.is_right_type, read from its source; None = everything."""
  m = w.repo.find_method(ci, "is_right_type")
  if m is None:
    raise AnalysisError("no is_right_type for %s" % ci.qualname)
  rets = [n for n in ast.walk(m.node) if isinstance(n, ast.Return)]
  if len(rets) != 1:
    raise AnalysisError("%s: is_right_type has %d returns" % (ci.qualname, len(rets)))
  p = m.params()[1]
  mod = m.module
  def names(e):
    if isinstance(e, (ast.Tuple, ast.List)):
      out = set()
      for x in e.elts:
        out |= names(x)
      return out
    d = dotted(e)
    if d in mod.assigns and isinstance(mod.assigns[d], ast.Tuple):
      return names(mod.assigns[d])
    if d == "NoneType":
      return {"none"}
    if d in ("float", "int", "str", "bytes", "bool", "tuple", "list", "dict"):
      return {d}
    if d and d.endswith("RecordList"):
      return {"RecordList"}
    raise AnalysisError("%s: unknown type name %s in is_right_type" % (ci.qualname, d))
  def acc(e, exact_only=False):
    if isinstance(e, ast.Constant) and e.value is True:
      return None
    if isinstance(e, ast.BoolOp) and isinstance(e.op, ast.Or):
      out = set()
      for v in e.values:
        a = acc(v)
        if a is None:
          return None
        out |= a
      return out
    if isinstance(e, ast.BoolOp) and isinstance(e.op, ast.And):
      # first conjunct decides the outer tag; the others only narrow. One narrowing is tracked:
      # `is_int_short(value)` turns int into the refined tag shortint.
      a = acc(e.values[0])
      if a is not None and "int" in a and any(
          isinstance(v, ast.Call) and dotted(v.func) == "is_int_short" and text(v.args[0]) == p
          for v in e.values[1:]):
        a = (a - {"int", "bool"}) | {"shortint"}
      return a
    if isinstance(e, ast.Call) and dotted(e.func) == "isinstance" and text(e.args[0]) == p:
      s = names(e.args[1])
      # isinstance(x, int) also admits bool; isinstance(x, list) admits RecordList
      if "int" in s:
        s = s | {"bool"}
      if "list" in s:
        s = s | {"RecordList"}
      return s
    if isinstance(e, ast.Compare) and len(e.ops) == 1:
      l, op, r = e.left, e.ops[0], e.comparators[0]
      if isinstance(op, ast.Is) and text(l) == p and isinstance(r, ast.Constant) and r.value is None:
        return {"none"}
      if isinstance(op, ast.Is) and isinstance(l, ast.Call) and dotted(l.func) == "type" and \
          text(l.args[0]) == p:
        return names(r)
      if isinstance(op, ast.In) and isinstance(l, ast.Call) and dotted(l.func) == "type" and \
          text(l.args[0]) == p:
        return names(r)
    raise AnalysisError("%s: is_right_type shape not understood: %s" % (ci.qualname, short(e)))
  return acc(rets[0].value)


class Tagger(object):
  def __init__(self, w):
    self.w = w
    self._fn_cache = {}

  def fn_tags(self, fi, depth=0):
    if fi.qualname in self._fn_cache:
      return self._fn_cache[fi.qualname]
    self._fn_cache[fi.qualname] = {"any"}
    out = set()
    for s in fi.node.body:
      for n in walk_no_nested(s):
        if isinstance(n, ast.Return):
          out |= self.tags(n.value, fi, n, depth + 1) if n.value is not None else {"none"}
    self._fn_cache[fi.qualname] = out
    return out

  def guards(self, fi, node, name):
    """Tags established for `name` by the isinstance / None tests on the if/elif chain that
    encloses `node` (positive branches only)."""
    tags = None
    def visit(stmts, cur):
      nonlocal tags
      for s in stmts:
        if s is node or any(x is node for x in ast.walk(s)):
          if isinstance(s, ast.If):
            in_body = any(x is node for b in s.body for x in ast.walk(b))
            t = self.test_tags(s.test, name) if in_body else None
            visit(s.body if in_body else s.orelse, t if t is not None else cur)
          elif isinstance(s, (ast.For, ast.While, ast.With, ast.Try)):
            for b in (getattr(s, "body", []), getattr(s, "orelse", []),
                      getattr(s, "finalbody", [])):
              visit(b, cur)
            for h in getattr(s, "handlers", []):
              visit(h.body, cur)
          else:
            tags = cur
          return
    visit(fi.node.body, None)
    return tags

  def range_checked(self, fi, site, name):
    """Is `site` dominated by `if not is_int_short(name): raise ...` with no rebinding of name in
    between, and is name's only definition an exact int (int(...))?"""
    fn = self.w.fn_of(fi)
    cfg = fn.cfg
    sites = [n for n in cfg.nodes if n.stmt is site]
    if not sites:
      return False
    guards = set()
    for n in cfg.nodes:
      if n.kind == "if" and isinstance(n.stmt.test, ast.UnaryOp) and \
          isinstance(n.stmt.test.op, ast.Not) and isinstance(n.stmt.test.operand, ast.Call) and \
          dotted(n.stmt.test.operand.func) == "is_int_short" and \
          text(n.stmt.test.operand.args[0]) == name and \
          n.stmt.body and all(isinstance(s, ast.Raise) for s in n.stmt.body):
        guards.add(n.id)
    if not guards or not cfg.dominated_by(sites[0].id, guards):
      return False
    defs = [n for n in cfg.nodes if n.kind == "stmt" and isinstance(n.stmt, ast.Assign) and
            any(isinstance(t, ast.Name) and t.id == name for t in n.stmt.targets)]
    if name in fi.params() or len(defs) != 1:
      return False
    d = defs[0]
    exact_int = isinstance(d.stmt.value, ast.Call) and dotted(d.stmt.value.func) == "int"
    return exact_int and all(cfg.dominated_by(g, {d.id}) for g in guards)

  def test_tags(self, test, name):
    if isinstance(test, ast.Call) and dotted(test.func) == "isinstance" and \
        text(test.args[0]) == name:
      t = test.args[1]
      elts = t.elts if isinstance(t, ast.Tuple) else [t]
      out = set()
      for e in elts:
        d = (dotted(e) or "").split(".")[-1]
        if d in ("str", "bytes", "float", "int", "bool", "list", "tuple", "dict"):
          out.add(d)
        elif d == "NoneType":
          out.add("none")
        elif d in ("_numeric_types",):
          out |= {"float", "int"}
        else:
          return None
      return out
    if isinstance(test, ast.Compare) and text(test.left) == name and \
        isinstance(test.ops[0], ast.Is) and isinstance(test.comparators[0], ast.Constant) and \
        test.comparators[0].value is None:
      return {"none"}
    if isinstance(test, ast.BoolOp) and isinstance(test.op, ast.And):
      for v in test.values:
        t = self.test_tags(v, name)
        if t is not None:
          return t
    return None

  def tags(self, e, fi, site, depth=0):
    if e is None:
      return {"none"}
    if isinstance(e, ast.Constant):
      v = e.value
      if type(v) is int and -(1 << 31) <= v < (1 << 31):
        return {"shortint"}
      return {"none" if v is None else type(v).__name__}
    if isinstance(e, ast.IfExp):
      return self.tags(e.body, fi, site, depth) | self.tags(e.orelse, fi, site, depth)
    if isinstance(e, ast.JoinedStr):
      return {"str"}
    if isinstance(e, (ast.List, ast.ListComp)):
      return {"list"}
    if isinstance(e, ast.Tuple):
      return {"tuple"}
    if isinstance(e, (ast.Dict, ast.DictComp)):
      return {"dict"}
    if isinstance(e, ast.BinOp):
      if isinstance(e.op, ast.Mod) and isinstance(e.left, ast.Constant) and \
          isinstance(e.left.value, str):
        return {"str"}
      l, r = self.tags(e.left, fi, site, depth), self.tags(e.right, fi, site, depth)
      if l <= ALLNUM | {"bool"} and r <= ALLNUM | {"bool"}:
        return {"float"} if ("float" in l and len(l) == 1) or ("float" in r and len(r) == 1) \
            else ALLNUM
      if l == {"str"} and r == {"str"}:
        return {"str"}
      return {"any"}
    if isinstance(e, ast.Call):
      d = dotted(e.func)
      if d in ("str", "repr"):
        return {"str"}
      if d in ("float",):
        return {"float"}
      if d in ("int", "len"):
        return {"int"}
      if d == "bool":
        return {"bool"}
      if d == "tuple":
        return {"tuple"}
      if d in ("list", "sorted"):
        return {"list"}
      if d and d.endswith("RecordList"):
        return {"RecordList"}
      if isinstance(e.func, ast.Attribute):
        if e.func.attr == "decode":
          return {"str"}
        if e.func.attr == "total_seconds":
          return {"float"}
        if e.func.attr in ("keys", "values"):
          return {"any"}
      if depth < 4:
        fn = self.w.fn_of(fi)
        from ..callgraph import CallGraph
        cg = getattr(self, "_cg", None) or CallGraph(self.w)
        self._cg = cg
        tg = cg.resolve(fn, e)
        # classmethod-style call  Reference.do_convert(val)
        if not tg and isinstance(e.func, ast.Attribute):
          ci = self.w.repo.resolve_class_name(fi.module, dotted(e.func.value))
          if ci is not None:
            m = self.w.repo.find_method(ci, e.func.attr)
            tg = [m] if m else []
        if tg and len(tg) <= 3:
          out = set()
          for t in tg:
            out |= self.fn_tags(t, depth)
          return out
      return {"any"}
    if isinstance(e, ast.Name):
      if self.range_checked(fi, site, e.id):
        return {"shortint"}
      g = self.guards(fi, site, e.id)
      if g is not None:
        return g
      defs = [n.value for s in fi.node.body for n in walk_no_nested(s)
              if isinstance(n, ast.Assign) and any(isinstance(t, ast.Name) and t.id == e.id
                                                   for t in n.targets)]
      if defs and e.id not in fi.params():
        out = set()
        for v in defs:
          out |= self.tags(v, fi, site, depth)
        return out
      return {"any"}
    return {"any"}


def r2_tags(run, w):
  R2 = run.rule("C22-R2", "every value returned by do_convert has an outer type accepted by the "
                "type's is_right_type, or is a str (alt-text)", floor=30)
  tg = Tagger(w)
  for ci in _types(w):
    dc = w.repo.find_method(ci, "do_convert")
    if dc is None or (ci.methods.get("do_convert") is None and
                      ci.methods.get("is_right_type") is None):
      continue    # inherits both: checked on the defining class
    accept = _accept_set(w, ci)
    rets = [n for s in dc.node.body for n in walk_no_nested(s) if isinstance(n, ast.Return)]
    for r in rets:
      tags = tg.tags(r.value, dc, r)
      if accept is None:
        ok, why = True, None
      else:
        eff = set(accept)
        if "shortint" in eff and "int" not in eff:
          pass                      # int results must be range-checked
        elif "int" in eff:
          eff.add("shortint")
        extra = tags - eff - {"str"}
        ok = not extra
        why = None if ok else "may return %s; is_right_type accepts %s" % (
          ",".join(sorted(extra)), ",".join(sorted(accept)))
      run.ob(R2, "%s (do_convert of %s)" % (ci.qualname, dc.qualname),
             "return " + short(r.value, 70),
             "result is of the column type or alt-text (tags: %s)" % ",".join(sorted(tags)), ok,
             witness=why, fi=dc, node=r)


UT = "sandbox/grist/usertypes.py"
VARIANTS = [
  ("blob-identity", UT, """    if isinstance(value, (bytes, NoneType)):
      return value
    raise objtypes.ConversionError("Blob")""", "    return value", "C22-R2"),
  ("int-passthrough-skips-range-check", UT, """    if value in ("", None):
      return None
    # Convert to float first, since python does not allow casting strings with decimals to int""",
   """    if value in ("", None):
      return None
    if type(value) is int:
      return value
    # Convert to float first, since python does not allow casting strings with decimals to int""", "C22-R2"),
  ("id-range-check-dropped", UT, """    ret = int(value)
    if not is_int_short(ret):
      raise OverflowError("Integer value too large")
    return ret

  @classmethod
  def is_right_type(cls, value):
    return (type(value) is int and is_int_short(value))""", """    ret = int(value)
    return ret

  @classmethod
  def is_right_type(cls, value):
    return (type(value) is int and is_int_short(value))""", "C22-R2"),
  ("int-returns-float", UT, "    ret = int(float(value))\n    if not is_int_short(ret):\n      raise OverflowError(\"Integer value too large\")\n    return ret\n\n  @classmethod\n  def is_right_type(cls, value):\n    return value is None or",
   "    ret = float(value)\n    if not is_int_short(ret):\n      raise OverflowError(\"Integer value too large\")\n    return ret\n\n  @classmethod\n  def is_right_type(cls, value):\n    return value is None or", "C22-R2"),
  ("bool-returns-none", UT, "    if not value:\n      return False\n    if isinstance(value, _numeric_types):\n      return True",
   "    if not value:\n      return False\n    if isinstance(value, _numeric_types):\n      return value", "C22-R2"),
  ("choicelist-returns-list-of-any", UT, "      return tuple(str(item) for item in value)\n\n  @classmethod",
   "      return dict.fromkeys(value)\n\n  @classmethod", "C22-R2"),
  ("position-returns-none", UT, "    return float(value) if value not in (\"\", None) else float('inf')",
   "    return float(value) if value not in (\"\", None) else None", "C22-R2"),
  ("convert-handler-narrowed", UT, "      return self.do_convert(value_to_convert)\n    except Exception as e:",
   "      return self.do_convert(value_to_convert)\n    except ValueError as e:", "C22-R1"),
  ("convert-str-unfenced", UT, """      try:
        return str(value_to_convert)
      except Exception:
        # If converting to string failed, we should still produce something.
        return objtypes.safe_repr(value_to_convert)""", """      return str(value_to_convert)""", "C22-R1"),
  ("errors-converted", UT, """    if isinstance(value_to_convert, objtypes.RaisedException):
      return value_to_convert
""", "", "C22-R1"),
  ("subclass-overrides-convert", UT, "class ManualSortPos(PositionNumber):\n  pass",
   "class ManualSortPos(PositionNumber):\n  def convert(self, value_to_convert):\n    return float(value_to_convert)", "C22-R1"),
]
