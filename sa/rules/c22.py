"""C22 Cell value conversion is total and idempotent -- totality shape + result type tags."""
import ast
from ..fn import World
from ..index import AnalysisError, dotted
from ..astutil import text, short, endswith, calls_in, walk_no_nested
from ._h_F import ifn, Res, res_of, atoms, sole_arg, need, repo_callees

from . import _c22_idem

EXPLANATION = (
  "Decides (R1) totality by shape: no column type overrides convert(); convert() returns error "
  "objects unchanged and wraps do_convert() in a try whose catch-all handler cannot raise; and "
  "(R2) by a type-tag abstract interpretation of every do_convert(), that each returned value "
  "has an outer type accepted by that type's is_right_type() (read from its own source), or is a "
  "str (alt-text). Tags are inferred from constructors, literals, isinstance guards on the "
  "returned name, local assignments and, across calls, the returns of the repo's own helpers. "
  "Container results are checked at the outer tag, and -- where is_right_type demands a type of "
  "every element (ChoiceList: str) -- at the tags of the elements placed in the returned "
  "tuple/list. (R3) decides idempotence of do_convert() "
  "on its own constructed results by result classes: each class of constructed result is fed back "
  "through the same function's CFG and every return it can reach must be a fixpoint (see "
  "_c22_idem docstring); what that small theory cannot prove equal is reported as undecided, not "
  "guessed.")

PRIM = {"str", "int", "float", "bool", "none", "bytes", "tuple", "list", "RecordList", "dict"}
ALLNUM = {"int", "float"}


def check(run, repo, tier):
  w = World(repo)
  r1_totality(run, w)
  r2_tags(run, w)
  run.guard(_c22_idem.r3_idempotence, run, w, _types(w))


def _types(w):
  base = w.repo.cls("usertypes.BaseColumnType")
  return [base] + w.repo.subclasses(base, strict=True)


def _catch_all(h):
  if h.type is None:
    return True
  names = h.type.elts if isinstance(h.type, ast.Tuple) else [h.type]
  return any(text(x) in ("Exception", "BaseException") for x in names)


RENDERERS = ("str", "repr", "safe_repr", "objtypes.safe_repr")


def _resolves_to_renderer(w, fn, call, p):
  """call(p) resolves to a repo function all of whose own returns are renderer calls on its
  parameter (one level)."""
  from ..callgraph import CallGraph
  if sole_arg(call) is None or text(sole_arg(call)) != p:
    return False
  tg = CallGraph(w).resolve(fn, call)
  if not tg or len(tg) > 1:
    return False
  g = w.fn_of(tg[0])
  gp = [x for x in tg[0].params() if x not in ("self", "cls")]
  if len(gp) != 1:
    return False
  gr = res_of(w, g)
  rets = gr.returns()
  return bool(rets) and not gr.falls_off_end() and all(
    isinstance(leaf, ast.Call) and dotted(leaf.func) in RENDERERS and
    sole_arg(leaf) is not None and text(sole_arg(leaf)) == gp[0]
    for (n, v) in rets for (f, leaf) in Res.cases(v))


def r1_totality(run, w):
  R1 = run.rule("C22-R1", "convert() is defined once, returns errors unchanged and fences "
                "do_convert() with a handler that cannot raise", floor=4)
  types = _types(w)
  for ci in types[1:]:
    run.ob(R1, ci.qualname, "no convert() override", "column types customise do_convert only",
           "convert" not in ci.methods, nontrivial=False)
  fn = ifn(w, "usertypes.BaseColumnType.convert")
  p = fn.fi.params()[1]
  cfg = fn.xcfg
  r = res_of(w, fn)          # normal CFG: guards and values
  # error objects are returned as they are, and nothing is attempted on them
  def is_error(a, node):
    return isinstance(a, ast.Call) and dotted(a.func) == "isinstance" and len(a.args) == 2 and \
        r.norm(a.args[0], node.id) == p and endswith(dotted(a.args[1]), "RaisedException")
  passthrough = [n for (n, v) in r.returns() if text(v) == p and r.known(n.id, is_error, True)]
  conv = [(n, c) for (n, c, nm) in fn.calls(r.cfg) if nm == "self.do_convert"]
  need(conv, "the call of self.do_convert", fn)
  ok = bool(passthrough) and bool(conv) and all(r.known(n.id, is_error, False) for (n, c) in conv)
  run.ob(R1, fn.qualname, "if isinstance(value, RaisedException): return value",
         "error objects pass through conversion unchanged", ok, fi=fn.fi)
  # do_convert is called inside try/except Exception
  calls = [(n, c) for (n, c, nm) in fn.calls(cfg) if nm == "self.do_convert"]
  trys = [t for t in ast.walk(fn.node) if isinstance(t, ast.Try) and
          any(c is x for (n, c) in calls for b in t.body for x in ast.walk(b))]
  ok = len({id(c) for (n, c) in calls}) == 1 and len(trys) >= 1 and \
      any(_catch_all(h) for t in trys for h in t.handlers)
  run.ob(R1, fn.qualname, "try: return self.do_convert(value) except Exception", "a failing "
         "conversion is caught whatever it raises", ok, fi=fn.fi)
  # what the handler hands back (the alt-text) is the rejected value rendered by a total,
  # type-agnostic renderer: never another trip through a column type's conversion
  hs = {n.id for t in trys for h in t.handlers for n in r.cfg.nodes
        if n.kind == "handler" and n.stmt is h}
  after = r.cfg.reach(hs) if hs else set()
  alt = [(n, n.stmt.value) for n in r.cfg.nodes
         if n.kind == "return" and n.stmt.value is not None and n.id in after]
  ok = bool(alt)
  wit = None
  for (n, v) in alt:
    for (leaf, at) in r.alternatives(v, n.id):
      d = dotted(leaf.func) if isinstance(leaf, ast.Call) else None
      if d in RENDERERS and sole_arg(leaf) is not None and text(sole_arg(leaf)) == p:
        continue
      if isinstance(leaf, ast.JoinedStr) or (isinstance(leaf, ast.Constant) and
                                             isinstance(leaf.value, str)):
        continue
      if d is not None and (d.endswith("do_convert") or d.endswith(".convert") or
                            d.endswith("toString")):
        ok, wit = False, "alt-text produced by %s: the result can be convertible again" % d
      elif isinstance(leaf, ast.Call) and _resolves_to_renderer(w, fn, leaf, p):
        continue
      else:
        raise AnalysisError("convert(): alt-text expression not understood: %s" % short(leaf))
  if trys:
    need(alt, "what convert() returns after a failed conversion", fn)
  run.ob(R1, fn.qualname, "except Exception: return str(value) / safe_repr(value)",
         "the alt-text of a rejected value is its plain rendering (str / repr), so converting "
         "it again cannot succeed where the first conversion failed differently", ok,
         witness=wit, fi=fn.fi)
  # nothing escapes: no path from entry reaches the exceptional exit
  reach = cfg.reach({cfg.entry.id})
  esc = cfg.raise_exit.id in reach
  wit = None
  if esc:
    wit = cfg.describe_path(cfg.path(cfg.entry.id, {cfg.raise_exit.id}))
    # tolerate calls of safe_repr (itself fenced) and the isinstance test outside a fence
    sr = ifn(w, "objtypes.safe_repr")
    sr_ok = any(isinstance(t, ast.Try) and any(_catch_all(h) for h in t.handlers)
                for t in sr.node.body)
    benign = set()
    for n in cfg.nodes:
      cs = [fn.name(c) for c in calls_in(n.exprs)]
      if n.stmt is not None and cs and all(d in ("objtypes.safe_repr", "safe_repr", "isinstance")
                                           for d in cs) and sr_ok and \
          not any(isinstance(x, (ast.Subscript, ast.BinOp)) for e in n.exprs
                  for x in walk_no_nested(e)):
        benign.add(n.id)
    saved = {b: set(cfg.succ[b]) for b in benign}
    for b in benign:
      cfg.succ[b] = cfg.normal_succ(b)
    esc = cfg.raise_exit.id in cfg.reach({cfg.entry.id})
    if esc:
      wit = cfg.describe_path(cfg.path(cfg.entry.id, {cfg.raise_exit.id}))
    for b, s_ in saved.items():
      cfg.succ[b] = s_
  run.ob(R1, fn.qualname, "no exceptional exit", "every statement of convert() that can raise "
         "is itself fenced (str() of the value falls back to safe_repr)", not esc, witness=wit,
         fi=fn.fi)


# ------------------------------------------------------------------------------------------ tags
BUILTIN_TAGS = ("float", "int", "str", "bytes", "bool", "tuple", "list", "dict")


def _type_tags(mod, e, strict=True):
  """Tags named by the class-info argument of isinstance / the right side of `type(x) in|is ...`:
  builtin types, NoneType, RecordList, module-level tuples of those. None when a name is not one
  of these (strict: raise instead)."""
  if isinstance(e, (ast.Tuple, ast.List)):
    out = set()
    for x in e.elts:
      t = _type_tags(mod, x, strict)
      if t is None:
        return None
      out |= t
    return out
  d = dotted(e)
  if d is not None and d in mod.assigns and isinstance(mod.assigns[d], ast.Tuple):
    return _type_tags(mod, mod.assigns[d], strict)
  if d == "NoneType" or (isinstance(e, ast.Call) and text(e) == "type(None)"):
    return {"none"}
  if d in BUILTIN_TAGS:
    return {d}
  if d and d.split(".")[-1] == "RecordList":
    return {"RecordList"}
  if strict:
    raise AnalysisError("unknown type name %s in a type test" % (d or short(e)))
  return None


def _accept_set(w, ci):
  """Outer type tags accepted by ci.is_right_type, read from its source; None = everything."""
  m = w.repo.find_method(ci, "is_right_type")
  if m is None:
    raise AnalysisError("no is_right_type for %s" % ci.qualname)
  r = res_of(w, w.fn_of(m))
  e0 = r.result_expr()
  if e0 is None:
    raise AnalysisError("%s: is_right_type is not a plain boolean expression" % ci.qualname)
  p = m.params()[1]
  mod = m.module
  def names(e):
    try:
      return _type_tags(mod, e)
    except AnalysisError as ex:
      raise AnalysisError("%s: %s (is_right_type)" % (ci.qualname, ex))
  def acc(e):
    if isinstance(e, ast.Constant) and e.value is True:
      return None
    if isinstance(e, ast.IfExp):
      # `A if c else B` as a boolean:  True if c else B == c or B ;  B if c else False == c and B
      if isinstance(e.body, ast.Constant) and e.body.value is True:
        return acc(ast.BoolOp(op=ast.Or(), values=[e.test, e.orelse]))
      if isinstance(e.orelse, ast.Constant) and e.orelse.value is False:
        return acc(ast.BoolOp(op=ast.And(), values=[e.test, e.body]))
    if isinstance(e, ast.BoolOp) and isinstance(e.op, ast.Or):
      out = set()
      for v in e.values:
        a = acc(v)
        if a is None:
          return None
        out |= a
      return out
    if isinstance(e, ast.BoolOp) and isinstance(e.op, ast.And):
      # first conjunct decides the outer tag; the others only narrow. One narrowing is tracked:
      # `is_int_short(value)` turns int into the refined tag shortint.
      a = acc(e.values[0])
      if a is not None and "int" in a and any(
          isinstance(v, ast.Call) and dotted(v.func) == "is_int_short" and text(v.args[0]) == p
          for v in e.values[1:]):
        a = (a - {"int", "bool"}) | {"shortint"}
      return a
    if isinstance(e, ast.Call) and dotted(e.func) == "isinstance" and text(e.args[0]) == p:
      s = names(e.args[1])
      # isinstance(x, int) also admits bool; isinstance(x, list) admits RecordList
      if "int" in s:
        s = s | {"bool"}
      if "list" in s:
        s = s | {"RecordList"}
      return s
    if isinstance(e, ast.Compare) and len(e.ops) == 1:
      l, op, rr = e.left, e.ops[0], e.comparators[0]
      if isinstance(op, ast.Is) and text(l) == p and isinstance(rr, ast.Constant) and \
          rr.value is None:
        return {"none"}
      if isinstance(op, (ast.Is, ast.In, ast.Eq)) and isinstance(l, ast.Call) and \
          dotted(l.func) == "type" and text(l.args[0]) == p:
        return names(rr)
    raise AnalysisError("%s: is_right_type shape not understood: %s" % (ci.qualname, short(e)))
  return acc(e0)


class Tagger(object):
  """Outer type tags of an expression evaluated at a CFG node. Locals are followed through the
  definitions that reach the node; a name's tags are narrowed by every isinstance / `is None` /
  is_int_short test known to hold there, however the test is spelled (sa/rules/_h_F.Res.known)."""
  def __init__(self, w):
    self.w = w
    self._fn_cache = {}
    self._cg = None

  def res(self, fi):
    return res_of(self.w, self.w.fn_of(fi))

  def fn_tags(self, fi, depth=0):
    if fi.qualname in self._fn_cache:
      return self._fn_cache[fi.qualname]
    self._fn_cache[fi.qualname] = {"any"}
    r = self.res(fi)
    out = set()
    for n in r.cfg.nodes:
      if n.kind == "return":
        out |= self.tags(n.stmt.value, fi, n.id, (), depth + 1) if n.stmt.value is not None \
            else {"none"}
    self._fn_cache[fi.qualname] = out
    return out

  def test_tags(self, fi, atom, name):
    """Tags a (canonical, positive) test establishes for local `name`; None if it says nothing."""
    if isinstance(atom, ast.Call) and dotted(atom.func) == "isinstance" and len(atom.args) == 2 \
        and text(atom.args[0]) == name:
      return _type_tags(fi.module, atom.args[1], strict=False)
    if isinstance(atom, ast.Compare) and len(atom.ops) == 1 and text(atom.left) == name:
      op, rr = atom.ops[0], atom.comparators[0]
      if isinstance(op, (ast.Is, ast.Eq)) and isinstance(rr, ast.Constant) and rr.value is None \
          and isinstance(op, ast.Is):
        return {"none"}
    if isinstance(atom, ast.Compare) and len(atom.ops) == 1 and \
        isinstance(atom.left, ast.Call) and dotted(atom.left.func) == "type" and \
        len(atom.left.args) == 1 and text(atom.left.args[0]) == name and \
        isinstance(atom.ops[0], (ast.Is, ast.In, ast.Eq)):
      return _type_tags(fi.module, atom.comparators[0], strict=False)
    return None

  def guard_tags(self, fi, r, name, nid, facts):
    """Intersection of the tag sets of all type tests on `name` known to hold at node nid."""
    cands = {}
    for n in r.cfg.nodes:
      if n.kind in ("if", "assert", "while"):
        for pol in (True, False):
          for (a, p) in atoms(n.stmt.test, pol):
            cands.setdefault(text(a), a)
    for (a, p) in facts:
      cands.setdefault(text(a), a)
    out = None
    for t, a in cands.items():
      tg = self.test_tags(fi, a, name)
      if tg is None:
        continue
      if r.known(nid, lambda x, nd, t=t: text(x) == t, True, facts):
        out = tg if out is None else (out & tg)
    return out

  def name_tags(self, name, fi, nid, facts, depth):
    r = self.res(fi)
    # what the definitions reaching this point produce
    if name in r.params and not r.defs.get(name):
      base = {"any"}
    else:
      defs, entry = r.reaching(nid, name)
      base = {"any"} if (entry or not defs) else set()
      for d in defs:
        v = r._plain_value(r.cfg.nodes[d], name)
        base |= self.tags(v, fi, d, (), depth + 1) if v is not None and depth < 8 else {"any"}
    def short_test(a, nd):
      return isinstance(a, ast.Call) and dotted(a.func) == "is_int_short" and \
          len(a.args) == 1 and text(a.args[0]) == name
    if base <= {"int", "shortint"} and r.known(nid, short_test, True, facts):
      return {"shortint"}
    g = self.guard_tags(fi, r, name, nid, facts)
    if g is not None:
      return g
    return base

  def tags(self, e, fi, nid, facts=(), depth=0):
    if e is None:
      return {"none"}
    if isinstance(e, ast.Constant):
      v = e.value
      if type(v) is int and -(1 << 31) <= v < (1 << 31):
        return {"shortint"}
      return {"none" if v is None else type(v).__name__}
    if isinstance(e, ast.IfExp):
      return self.tags(e.body, fi, nid, tuple(facts) + tuple(atoms(e.test, True)), depth) | \
          self.tags(e.orelse, fi, nid, tuple(facts) + tuple(atoms(e.test, False)), depth)
    if isinstance(e, ast.BoolOp):
      # `A or B` / `A and B` evaluate to one of their operands
      out = set()
      for v in e.values:
        out |= self.tags(v, fi, nid, facts, depth)
      return out
    if isinstance(e, ast.JoinedStr):
      return {"str"}
    if isinstance(e, (ast.List, ast.ListComp)):
      return {"list"}
    if isinstance(e, ast.Tuple):
      return {"tuple"}
    if isinstance(e, (ast.Dict, ast.DictComp)):
      return {"dict"}
    if isinstance(e, ast.BinOp):
      if isinstance(e.op, ast.Mod) and isinstance(e.left, ast.Constant) and \
          isinstance(e.left.value, str):
        return {"str"}
      l, r = self.tags(e.left, fi, nid, facts, depth), self.tags(e.right, fi, nid, facts, depth)
      num = ALLNUM | {"bool", "shortint"}
      if l <= num and r <= num:
        return {"float"} if ("float" in l and len(l) == 1) or ("float" in r and len(r) == 1) \
            else ALLNUM
      if l == {"str"} and r == {"str"}:
        return {"str"}
      return {"any"}
    if isinstance(e, ast.Call):
      d = dotted(e.func)
      if d in ("str", "repr"):
        return {"str"}
      if d in ("float",):
        return {"float"}
      if d in ("int", "len"):
        return {"int"}
      if d == "bool":
        return {"bool"}
      if d == "tuple":
        return {"tuple"}
      if d in ("list", "sorted"):
        return {"list"}
      if d and d.endswith("RecordList"):
        return {"RecordList"}
      if d in ("dict", "dict.fromkeys", "OrderedDict", "collections.OrderedDict"):
        return {"dict"}
      if d in ("set", "frozenset"):
        return {"set"}
      if d in ("bytes", "bytearray"):
        return {"bytes"}
      if d in ("map", "filter", "zip", "iter", "reversed", "enumerate", "range", "complex"):
        return {"object:" + d}
      if isinstance(e.func, ast.Attribute):
        if e.func.attr == "decode":
          return {"str"}
        if e.func.attr == "total_seconds":
          return {"float"}
        if e.func.attr in ("keys", "values"):
          return {"any"}
      if depth < 4:
        fn = self.w.fn_of(fi)
        from ..callgraph import CallGraph
        cg = self._cg or CallGraph(self.w)
        self._cg = cg
        tg = cg.resolve(fn, e)
        # classmethod-style call  Reference.do_convert(val)
        if not tg and isinstance(e.func, ast.Attribute):
          ci = self.w.repo.resolve_class_name(fi.module, dotted(e.func.value))
          if ci is not None:
            m = self.w.repo.find_method(ci, e.func.attr)
            tg = [m] if m else []
        if tg and len(tg) <= 3:
          out = set()
          for t in tg:
            out |= self.fn_tags(t, depth)
          return out
      # what this call returns could not be looked up: undecided rather than "anything"
      return {"unknown"}
    if isinstance(e, ast.Name):
      return self.name_tags(e.id, fi, nid, facts, depth)
    return {"any"}


def _elem_accept(w, ci):
  """Tags is_right_type demands of the *elements* of a container value, read from a conjunct
  `all(isinstance(<item>, T) for <item> in <value>)`; None when it demands nothing of them."""
  m = w.repo.find_method(ci, "is_right_type")
  if m is None:
    return None
  r = res_of(w, w.fn_of(m))
  e0 = r.result_expr()
  if e0 is None:
    return None
  p = m.params()[1]
  for x in ast.walk(e0):
    if isinstance(x, ast.Call) and dotted(x.func) == "all" and len(x.args) == 1 and \
        isinstance(x.args[0], (ast.GeneratorExp, ast.ListComp)):
      g = x.args[0]
      if len(g.generators) == 1 and not g.generators[0].ifs and \
          text(g.generators[0].iter) == p and isinstance(g.elt, ast.Call) and \
          dotted(g.elt.func) == "isinstance" and len(g.elt.args) == 2 and \
          text(g.elt.args[0]) == text(g.generators[0].target):
        return _type_tags(m.module, g.elt.args[1], strict=False)
  return None


def _alternatives(e):
  """Expressions a value expression can evaluate to: arms of conditional expressions, operands
  of and/or."""
  if isinstance(e, ast.IfExp):
    return _alternatives(e.body) + _alternatives(e.orelse)
  if isinstance(e, ast.BoolOp):
    return [a for v in e.values for a in _alternatives(v)]
  return [e]


def _element_tags(w, tg, fi, r, e, nid):
  """Tags of the elements of container expression e (a tuple/list being returned) at node nid.
  Elements copied raw from something opaque (a parameter, the result of an external call) are
  'any'; a repo helper's result or an untraceable local is undecided (AnalysisError)."""
  inner = e
  while isinstance(inner, ast.Call) and dotted(inner.func) in ("tuple", "list", "sorted") and \
      len(inner.args) == 1:
    inner = inner.args[0]
  if isinstance(inner, (ast.GeneratorExp, ast.ListComp, ast.SetComp)):
    return tg.tags(inner.elt, fi, nid)
  if isinstance(inner, (ast.List, ast.Tuple)):
    out = set()
    for x in inner.elts:
      out |= tg.tags(x, fi, nid)
    return out
  if isinstance(inner, ast.Call):
    if repo_callees(w, w.fn_of(fi), inner):
      raise AnalysisError("%s: the elements of %s come from a helper that is not followed"
                          % (fi.qualname, short(e, 50)))
    return {"any"}           # items handed over as an external call produced them
  if isinstance(inner, ast.Name):
    if inner.id in r.params and not r.defs.get(inner.id):
      return {"any"}         # the caller's items, as they came
    els = r.elements(inner, nid)
    if els is None:
      raise AnalysisError("%s: how the elements of %s are produced is not understood"
                          % (fi.qualname, short(e, 50)))
    out = set()
    for el in els:
      out |= tg.tags(el.elt, fi, el.node.id if el.node is not None else nid)
    return out
  raise AnalysisError("%s: the elements of %s are not understood" % (fi.qualname, short(e, 50)))


def r2_tags(run, w):
  R2 = run.rule("C22-R2", "every value returned by do_convert has an outer type accepted by the "
                "type's is_right_type, or is a str (alt-text)", floor=30)
  tg = Tagger(w)
  for ci in _types(w):
    dc = w.repo.find_method(ci, "do_convert")
    if dc is None or (ci.methods.get("do_convert") is None and
                      ci.methods.get("is_right_type") is None):
      continue    # inherits both: checked on the defining class
    accept = _accept_set(w, ci)
    elem_accept = _elem_accept(w, ci)
    r = res_of(w, w.fn_of(dc))
    for n in [x for x in r.cfg.nodes if x.kind == "return"]:
      v = n.stmt.value
      tags = tg.tags(v, dc, n.id)
      if accept is None:
        ok, why = True, None
      else:
        eff = set(accept)
        if "shortint" in eff and "int" not in eff:
          pass                      # int results must be range-checked
        elif "int" in eff:
          eff.add("shortint")
        extra = tags - eff - {"str"}
        if extra == {"unknown"} or (extra and "unknown" in extra and
                                    not (extra - {"unknown", "any"})):
          raise AnalysisError("%s: the type of the value returned by %s could not be inferred"
                              % (dc.qualname, short(v, 60)))
        extra = extra - {"unknown"}
        ok = not extra
        why = None if ok else "may return %s; is_right_type accepts %s" % (
          ",".join(sorted(extra)), ",".join(sorted(accept)))
      run.ob(R2, "%s (do_convert of %s)" % (ci.qualname, dc.qualname),
             "return " + short(r.expand(v, n.id) if v is not None else v, 70),
             "result is of the column type or alt-text (tags: %s)" % ",".join(sorted(tags)), ok,
             witness=why, fi=dc, node=n.stmt)
      # containers: what is_right_type demands of the elements
      if elem_accept is not None and v is not None and ok:
        def elems(n=n, v=v):
          for alt in _alternatives(r.expand(v, n.id)):
            at = tg.tags(alt, dc, n.id)
            if not (at and at <= {"tuple", "list"}):
              continue
            et = _element_tags(w, tg, dc, r, alt, n.id)
            bad = et - elem_accept - ({"shortint"} if "int" in elem_accept else set())
            run.ob(R2, "%s (do_convert of %s)" % (ci.qualname, dc.qualname),
                   "elements of " + short(alt, 60),
                   "every element of a returned list/tuple has a type is_right_type accepts "
                   "(element tags: %s)" % ",".join(sorted(et)), not bad,
                   witness=None if not bad else "elements may be %s; is_right_type requires %s"
                   % (",".join(sorted(bad)), ",".join(sorted(elem_accept))), fi=dc, node=n.stmt)
        run.guard(elems)
    if r.falls_off_end() and accept is not None and "none" not in accept:
      run.ob(R2, "%s (do_convert of %s)" % (ci.qualname, dc.qualname), "implicit return None",
             "result is of the column type or alt-text (tags: none)", False, fi=dc)


UT = "sandbox/grist/usertypes.py"
VARIANTS = [
  ("blob-identity", UT, """    if isinstance(value, (bytes, NoneType)):
      return value
    raise objtypes.ConversionError("Blob")""", "    return value", "C22-R2"),
  ("int-passthrough-skips-range-check", UT, """    if value in ("", None):
      return None
    # Convert to float first, since python does not allow casting strings with decimals to int""",
   """    if value in ("", None):
      return None
    if type(value) is int:
      return value
    # Convert to float first, since python does not allow casting strings with decimals to int""", "C22-R2"),
  ("id-range-check-dropped", UT, """    ret = int(value)
    if not is_int_short(ret):
      raise OverflowError("Integer value too large")
    return ret

  @classmethod
  def is_right_type(cls, value):
    return (type(value) is int and is_int_short(value))""", """    ret = int(value)
    return ret

  @classmethod
  def is_right_type(cls, value):
    return (type(value) is int and is_int_short(value))""", "C22-R2"),
  ("int-returns-float", UT, "    ret = int(float(value))\n    if not is_int_short(ret):\n      raise OverflowError(\"Integer value too large\")\n    return ret\n\n  @classmethod\n  def is_right_type(cls, value):\n    return value is None or",
   "    ret = float(value)\n    if not is_int_short(ret):\n      raise OverflowError(\"Integer value too large\")\n    return ret\n\n  @classmethod\n  def is_right_type(cls, value):\n    return value is None or", "C22-R2"),
  ("bool-returns-none", UT, "    if not value:\n      return False\n    if isinstance(value, _numeric_types):\n      return True",
   "    if not value:\n      return False\n    if isinstance(value, _numeric_types):\n      return value", "C22-R2"),
  ("choicelist-returns-list-of-any", UT, "      return tuple(str(item) for item in value) or None\n\n  @classmethod",
   "      return dict.fromkeys(value)\n\n  @classmethod", "C22-R2"),
  ("position-returns-none", UT, "    return float(value) if value not in (\"\", None) else float('inf')",
   "    return float(value) if value not in (\"\", None) else None", "C22-R2"),
  ("convert-handler-narrowed", UT, "      return self.do_convert(value_to_convert)\n    except Exception as e:",
   "      return self.do_convert(value_to_convert)\n    except ValueError as e:", "C22-R1"),
  ("convert-str-unfenced", UT, """      try:
        return str(value_to_convert)
      except Exception:
        # If converting to string failed, we should still produce something.
        return objtypes.safe_repr(value_to_convert)""", """      return str(value_to_convert)""", "C22-R1"),
  ("alttext-via-text-type", UT, "        return str(value_to_convert)\n", "        return Text.do_convert(value_to_convert)\n", "C22-R1"),
  ("choicelist-items-raw", UT, "          return tuple(str(item) for item in json.loads(value)) or None",
   "          return tuple(json.loads(value)) or None", "C22-R2"),
  ("errors-converted", UT, """    if isinstance(value_to_convert, objtypes.RaisedException):
      return value_to_convert
""", "", "C22-R1"),
  ("subclass-overrides-convert", UT, "class ManualSortPos(PositionNumber):\n  pass",
   "class ManualSortPos(PositionNumber):\n  def convert(self, value_to_convert):\n    return float(value_to_convert)", "C22-R1"),
]
