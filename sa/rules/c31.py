"""C31 Actions are marked direct only when the user asked for them -- structural clauses
(DESIGN.md section 4, C31)."""
import ast
from ..fn import World, _default_may_raise
from ..cfg import CFG
from ..index import AnalysisError, dotted
from ..astutil import text, short, endswith, calls_in, walk_no_nested
from ..dataflow import DefUse
from .. import events as E
from .. import types as T
from . import _h_B as H

EXPLANATION = (
  "Decides the bookkeeping behind the direct flags: every function that grows ActionGroup.stored "
  "grows ActionGroup.direct by the same count on every normal path (gateway: one append each; "
  "InitNewDoc: extend / [True] * len; calc flushes: length difference), the rollback cuts both at "
  "the same index and the ActionBundle copies both lists the same way (R1); stored and direct are "
  "written by the same enumerated functions and by nobody else (R2); indirect_actions raises the "
  "indirection level and lowers it again on every path, exceptional ones included, the level "
  "starts at DIRECT_ACTION, only these two places write it, and the gateway's flag is "
  "`level == DIRECT_ACTION` (R3); every user-action call made from formula code, from "
  "apply_auto_removes and from the empty-column conversion in _ensure_column_accepts_data is "
  "lexically inside `with ...indirect_actions()`, and calc flushes append False (R4). Not "
  "decided: which of the remaining actions a user 'asked for' (that is the meaning of the "
  "indirection level, not a structural fact).")

AG = "action_obj.ActionGroup"
# Functions that may write ActionGroup.stored / .direct, with the role each plays.
OWNERS = {
  "useractions.UserActions._do_doc_action": "gateway: one stored action, one flag",
  "useractions.UserActions.InitNewDoc": "built-in schema creation actions, all direct",
  "action_obj.ActionGroup.__init__": "both lists start empty",
  "action_obj.ActionGroup.flush_calc_changes": "calc flush: flags False for what was added",
  "action_obj.ActionGroup.flush_calc_changes_for_column": "calc flush for one column",
  "engine.Engine._undo_to_checkpoint": "rollback trims both lists",
}
# Writes stored only; tolerated because nothing in the engine calls it (checked).
DEAD_DESERIALISER = "action_obj.ActionGroup.from_json_obj"


def check(run, repo, tier):
  w = World(repo)
  writes = collect_writes(w)
  r1_parallel(run, w, writes)
  r2_owners(run, w, writes)
  r3_indirection(run, w)
  r4_contexts(run, w)


# -------------------------------------------------------------------------- write classification
def _list_attr(fn, e):
  """'stored' / 'direct' when expression e denotes that list of an ActionGroup, else None."""
  if not (isinstance(e, ast.Attribute) and e.attr in ("stored", "direct")):
    return None
  d = fn.aliases.dotted(e) or ""
  if endswith(d, "out_actions." + e.attr):
    return e.attr
  if fn.type_of(e.value) == T.ACTIONGROUP:
    return e.attr
  if fn.fi.cls is not None and fn.fi.cls.qualname == AG and isinstance(e.value, ast.Name):
    return e.attr
  return None


def collect_writes(w):
  """{qualname: [(which list, kind, cfg node, detail)]} over the whole repo. kinds: append,
  extend, iadd, del, assign, escape (the list object handed to another function)."""
  out = {}
  for fi in w.repo.all_functions():
    if not any(isinstance(x, ast.Attribute) and x.attr in ("stored", "direct")
               for x in ast.walk(fi.node)):
      continue
    fn = w.fn_of(fi)
    ws = []
    for n in fn.cfg.nodes:
      s = n.stmt
      if s is None:
        continue
      if n.kind == "stmt":
        if isinstance(s, ast.Assign):
          for t in s.targets:
            base = t.value if isinstance(t, ast.Subscript) else t
            which = _list_attr(fn, base)
            if which:
              ws.append((which, "assign" if base is t else "setitem", n, s.value))
        elif isinstance(s, ast.AugAssign):
          which = _list_attr(fn, s.target)
          if which:
            if not isinstance(s.op, ast.Add):
              raise AnalysisError("%s: unsupported augmented write %s" % (fi.qualname, short(s)))
            ws.append((which, "iadd", n, s.value))
        elif isinstance(s, ast.Delete):
          for t in s.targets:
            base = t.value if isinstance(t, ast.Subscript) else t
            which = _list_attr(fn, base)
            if which:
              ws.append((which, "del", n, t))
      for c in calls_in(n.exprs):
        if isinstance(c.func, ast.Attribute):
          which = _list_attr(fn, c.func.value)
          if which:
            m = c.func.attr
            if m in ("append", "extend"):
              ws.append((which, m, n, c))
            elif m in ("insert", "pop", "remove", "clear", "sort", "reverse", "__setitem__",
                       "__delitem__", "__iadd__"):
              raise AnalysisError("%s: unsupported write %s" % (fi.qualname, short(c)))
        if dotted(c.func) != "len":
          for a in list(c.args) + [k.value for k in c.keywords]:
            which = _list_attr(fn, a)
            if which:
              ws.append((which, "escape", n, c))
    if ws:
      out[fi.qualname] = ws
  return out


def _times_len(e, of=None):
  """For `[<const>] * <count>`: (const value, count expr) else None."""
  if isinstance(e, ast.BinOp) and isinstance(e.op, ast.Mult):
    l, r = e.left, e.right
    if isinstance(r, ast.List):
      l, r = r, l
    if isinstance(l, ast.List) and len(l.elts) == 1 and isinstance(l.elts[0], ast.Constant):
      return (l.elts[0].value, r)
  return None


# ------------------------------------------------------------------------------------------ R1
def r1_parallel(run, w, writes):
  R1 = run.rule("C31-R1", "every function that grows or cuts ActionGroup.stored does the same to "
                "ActionGroup.direct, by the same count, on every normal path", floor=7)
  for q, ws in sorted(writes.items()):
    fn = w.fn(q)
    cfg = fn.cfg
    st = [x for x in ws if x[0] == "stored"]
    di = [x for x in ws if x[0] == "direct"]
    for (_, kind, n, det) in st:
      if kind == "append":
        D = {m.id for (_, k2, m, d2) in di if k2 == "append"}
        same_loops = lambda a, b: [s for (s, f) in H.guards_of(fn.node, a.stmt)
                                   if isinstance(s, (ast.For, ast.While))] == \
                                  [s for (s, f) in H.guards_of(fn.node, b.stmt)
                                   if isinstance(s, (ast.For, ast.While))]
        D = {d for d in D if same_loops(n, cfg.nodes[d])}
        ok = bool(D) and (cfg.postdominated_by(n.id, D) or cfg.dominated_by(n.id, D))
        run.ob(R1, q, short(det), "one flag is appended to direct for the one action appended "
               "to stored, on every normal path", ok, fi=fn.fi, node=det,
               witness=None if ok else cfg.describe_path(
                 cfg.path(n.id, {cfg.exit.id}, removed=D, after=True)))
      elif kind == "extend":
        src = det.args[0] if det.args else None
        ok = False
        D = set()
        for (_, k2, m, v) in di:
          tl = _times_len(v) if k2 == "iadd" else (
            _times_len(v.args[0]) if k2 == "extend" and v.args else None)
          if tl and isinstance(tl[1], ast.Call) and dotted(tl[1].func) == "len" and \
              len(tl[1].args) == 1 and src is not None and text(tl[1].args[0]) == text(src) and \
              isinstance(src, ast.Name):
            D.add(m.id)
        ok = bool(D) and (cfg.postdominated_by(n.id, D) or cfg.dominated_by(n.id, D))
        run.ob(R1, q, short(det), "direct grows by [flag] * len(<the same list>) whenever stored "
               "is extended by that list", ok, fi=fn.fi, node=det)
      elif kind == "escape":
        ok, wit = _length_difference(fn, n, det, di)
        run.ob(R1, q, short(det), "stored is handed to a function that may append to it; direct "
               "then grows by exactly len(stored) after - len(stored) before", ok, witness=wit,
               fi=fn.fi, node=det)
      elif kind == "del":
        low = det.slice.lower if isinstance(det, ast.Subscript) and \
            isinstance(det.slice, ast.Slice) and det.slice.upper is None and \
            det.slice.step is None else None
        D = {m.id for (_, k2, m, d2) in di if k2 == "del" and isinstance(d2, ast.Subscript) and
             isinstance(d2.slice, ast.Slice) and d2.slice.upper is None and
             d2.slice.step is None and low is not None and d2.slice.lower is not None and
             text(d2.slice.lower) == text(low)}
        ok = bool(D) and (cfg.postdominated_by(n.id, D) or cfg.dominated_by(n.id, D))
        run.ob(R1, q, "del stored[%s:] / del direct[%s:]" % (text(low) if low else "?",
                                                            text(low) if low else "?"),
               "both lists are cut at the same index", ok, fi=fn.fi, node=det)
      elif kind == "assign":
        if q == DEAD_DESERIALISER:
          callers = [fi.qualname for fi in w.repo.all_functions()
                     if any(isinstance(x, ast.Attribute) and x.attr == "from_json_obj"
                            for x in ast.walk(fi.node))]
          run.ob(R1, q, short(det), "named exception: this deserialiser sets stored without "
                 "direct, which is tolerable only while nothing in the engine calls it",
                 not callers, witness="called from %s" % callers, fi=fn.fi, nontrivial=False)
          continue
        D = [d2 for (_, k2, m, d2) in di if k2 == "assign"]
        ok = isinstance(det, ast.List) and not det.elts and len(D) == 1 and \
            isinstance(D[0], ast.List) and not D[0].elts
        run.ob(R1, q, "stored = []; direct = []", "both lists start empty together", ok,
               fi=fn.fi, node=det)
      else:
        raise AnalysisError("%s: unsupported write to stored (%s)" % (q, kind))
    # direct never grows without stored
    if di and not st:
      run.ob(R1, q, short(di[0][3]), "direct is not written where stored is not", False,
             fi=fn.fi, node=di[0][2].stmt)
  # the reply bundle copies both lists in the same way
  fn = w.fn("acl.acl_read_split")
  p = fn.fi.params()[0]
  shapes = {}
  for (n, c, nm) in fn.calls():
    for which in ("stored", "direct"):
      if isinstance(c.func, ast.Attribute) and c.func.attr == "extend" and \
          isinstance(c.func.value, ast.Attribute) and c.func.value.attr == which and c.args and \
          isinstance(c.args[0], ast.GeneratorExp) and len(c.args[0].generators) == 1:
        g = c.args[0].generators[0]
        shapes[which] = (text(g.iter) == "%s.%s" % (p, which), not g.ifs,
                         isinstance(c.args[0].elt, ast.Tuple) and
                         len(c.args[0].elt.elts) == 2 and
                         text(c.args[0].elt.elts[1]) == text(g.target),
                         text(c.args[0].elt.elts[0]) if isinstance(c.args[0].elt, ast.Tuple)
                         else None)
  ok = set(shapes) == {"stored", "direct"} and all(s[0] and s[1] and s[2] for s in shapes.values()) \
      and shapes["stored"][3] == shapes["direct"][3]
  run.ob(R1, fn.qualname, "bundle.stored.extend((0, a) for a in group.stored); "
         "bundle.direct.extend((0, f) for f in group.direct)", "the bundle sent out carries every "
         "stored action and every flag, unfiltered, in the same envelope", ok, fi=fn.fi)
  # check_sanity compares the two lengths and is run by apply_user_actions after the flush
  cs = w.fn("action_obj.ActionGroup.check_sanity")
  ok = any(n.kind == "if" and isinstance(n.stmt.test, ast.Compare) and
           isinstance(n.stmt.test.ops[0], ast.NotEq) and
           {text(n.stmt.test.left), text(n.stmt.test.comparators[0])} ==
           {"len(self.stored)", "len(self.direct)"} and
           any(x.kind == "raise_stmt" and x.id in cs.cfg.reach_after({n.id}) for x in cs.cfg.nodes)
           for n in cs.cfg.nodes)
  run.ob(R1, cs.qualname, "if len(self.stored) != len(self.direct): raise",
         "a length mismatch is an error, not a silently misaligned reply", ok, fi=cs.fi,
         nontrivial=False)


def _length_difference(fn, n, call, di):
  """stored escapes into `call` at node n: before = len(stored) dominates, count = len(stored) -
  before follows, and direct += [False] * count follows on every normal path."""
  cfg = fn.cfg
  recv = None
  for a in list(call.args) + [k.value for k in call.keywords]:
    if _list_attr(fn, a) == "stored":
      recv = text(a)
  lens = {}
  for m in cfg.nodes:
    if m.kind == "stmt" and isinstance(m.stmt, ast.Assign) and \
        isinstance(m.stmt.targets[0], ast.Name) and text(m.stmt.value) == "len(%s)" % recv:
      lens[m.stmt.targets[0].id] = m.id
  for (_, k2, d, v) in di:
    if k2 != "iadd":
      continue
    tl = _times_len(v)
    if not tl:
      continue
    if isinstance(tl[1], ast.BinOp):          # the count written inline
      cid, cv = d.id, tl[1]
    elif isinstance(tl[1], ast.Name):
      cdefs = [(m.id, m.stmt.value) for m in cfg.nodes if m.kind == "stmt" and
               isinstance(m.stmt, ast.Assign) and isinstance(m.stmt.targets[0], ast.Name) and
               m.stmt.targets[0].id == tl[1].id]
      if len(cdefs) != 1:
        continue
      cid, cv = cdefs[0]
    else:
      continue
    if not (isinstance(cv, ast.BinOp) and isinstance(cv.op, ast.Sub) and
            text(cv.left) == "len(%s)" % recv and isinstance(cv.right, ast.Name) and
            cv.right.id in lens):
      continue
    before = lens[cv.right.id]
    ok = cfg.dominated_by(n.id, {before}) and n.id not in cfg.reach_after({n.id}) and \
        cfg.dominated_by(cid, {n.id}) and cfg.dominated_by(d.id, {cid}) and \
        cfg.postdominated_by(n.id, {d.id}) and \
        len(E.local_defs(fn.node, cv.right.id)) == 1
    if ok:
      return True, None
  return False, "no `before = len(stored)` ... `direct += [flag] * (len(stored) - before)` " \
                "around the call"


# ------------------------------------------------------------------------------------------ R2
def r2_owners(run, w, writes):
  R2 = run.rule("C31-R2", "ActionGroup.stored and .direct are written only by the enumerated "
                "functions, and by the same ones", floor=12)
  sw = {q for q, ws in writes.items() if any(x[0] == "stored" for x in ws)}
  dw = {q for q, ws in writes.items() if any(x[0] == "direct" for x in ws)}
  for q, ws in sorted(writes.items()):
    fn = w.fn(q)
    for which in ("stored", "direct"):
      hits = [x for x in ws if x[0] == which]
      if not hits:
        continue
      ok = q in OWNERS or (q == DEAD_DESERIALISER and which == "stored")
      run.ob(R2, q, "writes %s: %s" % (which, short(hits[0][3]) if isinstance(hits[0][3], ast.AST)
                                       else hits[0][1]),
             "writer of %s is one of the enumerated owners" % which, ok, fi=fn.fi,
             node=hits[0][2].stmt, nontrivial=False)
  run.ob(R2, AG, "writers(stored) == writers(direct)", "the two lists have the same writers "
         "(apart from the unused deserialiser)", sw - {DEAD_DESERIALISER} == dw,
         witness="stored only: %s; direct only: %s" % (sorted(sw - dw - {DEAD_DESERIALISER}),
                                                       sorted(dw - sw)))
  missing = sorted(set(OWNERS) - sw)
  if missing:
    raise AnalysisError("enumerated writer(s) of stored no longer write it: %s" % missing)


# ------------------------------------------------------------------------------------------ R3
def r3_indirection(run, w):
  R3 = run.rule("C31-R3", "indirect_actions raises the level and lowers it on every path; the level "
                "starts at DIRECT_ACTION; the gateway's flag is level == DIRECT_ACTION", floor=6)
  fn = w.fn("useractions.UserActions.indirect_actions")
  run.ob(R3, fn.qualname, "@contextmanager", "indirect_actions is a context manager",
         any(endswith(dotted(d), "contextmanager") for d in fn.fi.decorators()), fi=fn.fi,
         nontrivial=False)
  def may_raise(n):
    if any(isinstance(x, (ast.Yield, ast.YieldFrom)) for e in n.exprs if e is not None
           for x in walk_no_nested(e)):
      return True     # the body of the `with` runs at the yield and may raise
    return _default_may_raise(n)
  cfg = CFG(fn.node, may_raise=may_raise)
  def level_aug(op):
    return {n.id for n in cfg.nodes if n.kind == "stmt" and isinstance(n.stmt, ast.AugAssign) and
            text(n.stmt.target) == "self._indirection_level" and isinstance(n.stmt.op, op) and
            isinstance(n.stmt.value, ast.Constant) and n.stmt.value.value == 1}
  ups, downs = level_aug(ast.Add), level_aug(ast.Sub)
  yields = {n.id for n in cfg.nodes if any(isinstance(x, ast.Yield) for e in n.exprs
                                           if e is not None for x in walk_no_nested(e))}
  if len(ups) != 1 or not downs or len(yields) != 1:
    raise AnalysisError("indirect_actions: += 1 / yield / -= 1 shape not found")
  up = next(iter(ups))
  y = next(iter(yields))
  ok = cfg.dominated_by(y, {up}) and up not in cfg.reach_after({y})
  run.ob(R3, fn.qualname, "self._indirection_level += 1 before yield",
         "the level is raised before the block runs", ok, fi=fn.fi)
  exits = {cfg.exit.id, cfg.raise_exit.id}
  ok = cfg.postdominated_by(up, downs, exits=exits, completed=True) and \
      cfg.postdominated_by(y, downs, exits=exits)
  wit = None
  if not ok:
    wit = cfg.describe_path(cfg.path(y, exits, removed=downs, after=True))
  run.ob(R3, fn.qualname, "yield ... finally: self._indirection_level -= 1",
         "the level is lowered again on every path out of the block, exceptional ones included",
         ok, witness=wit, fi=fn.fi)
  # each path lowers it exactly once: no decrement is reachable from another one
  once = all(not (cfg.reach_after({d}) & downs) for d in downs)
  run.ob(R3, fn.qualname, "-= 1 exactly once per path", "the level returns to its previous value",
         once, fi=fn.fi)
  # writers of the level
  ua = w.repo.module("useractions")
  c0 = ua.assigns.get("DIRECT_ACTION")
  init = w.fn("useractions.UserActions.__init__")
  starts = [s for s in ast.walk(init.node) if isinstance(s, ast.Assign) and
            text(s.targets[0]) == "self._indirection_level"]
  ok = len(starts) == 1 and text(starts[0].value) == "DIRECT_ACTION" and \
      isinstance(c0, ast.Constant) and c0.value == 0
  run.ob(R3, init.qualname, "self._indirection_level = DIRECT_ACTION (= 0)",
         "a fresh UserActions object marks actions direct, and the level counts up from "
         "DIRECT_ACTION", ok, fi=init.fi)
  allowed = {fn.qualname, init.qualname}
  for fi in w.repo.all_functions():
    for x in ast.walk(fi.node):
      if isinstance(x, ast.Attribute) and x.attr == "_indirection_level" and \
          isinstance(x.ctx, (ast.Store, ast.Del)):
        run.ob(R3, fi.qualname, "writes _indirection_level", "the indirection level is written "
               "only by the constructor and by indirect_actions", fi.qualname in allowed, fi=fi,
               node=x, nontrivial=False)
  # the gateway's flag
  gw = w.fn("useractions.UserActions._do_doc_action")
  flags = [c for (n, c, nm) in gw.calls() if endswith(nm, "out_actions.direct.append")]
  if len(flags) != 1 or len(flags[0].args) != 1:
    raise AnalysisError("_do_doc_action: direct.append(<flag>) not found")
  e = flags[0].args[0]
  verdict = None
  if isinstance(e, ast.Compare) and len(e.ops) == 1:
    sides = {text(e.left), text(e.comparators[0])}
    if sides == {"self._indirection_level", "DIRECT_ACTION"}:
      lvl_left = text(e.left) == "self._indirection_level"
      op = e.ops[0]
      if isinstance(op, ast.Eq) or (isinstance(op, ast.LtE) and lvl_left) or \
          (isinstance(op, ast.GtE) and not lvl_left):
        verdict = True
      elif isinstance(op, (ast.NotEq, ast.Gt, ast.Lt, ast.GtE, ast.LtE)):
        verdict = False
  if verdict is None and not (isinstance(e, ast.Constant) or isinstance(e, ast.Compare)):
    raise AnalysisError("_do_doc_action: cannot interpret the direct flag %s" % short(e))
  run.ob(R3, gw.qualname, "direct.append(%s)" % short(e), "an action is direct exactly when no "
         "indirect_actions block is open", verdict is True, fi=gw.fi, node=e)


# ------------------------------------------------------------------------------------------ R4
DOCMODEL_WRITERS = ("add", "insert", "insert_after", "update", "remove")


def _is_user_action_call(w, c, cls_q, ua_names):
  """A call that runs a user action: a @useraction method on a UserActions receiver, one of
  DocModel's add/insert/update/remove, or Table.lookupOrAddDerived."""
  if not isinstance(c.func, ast.Attribute):
    return False
  m = c.func.attr
  rv = dotted(c.func.value) or ""
  if m == "lookupOrAddDerived":
    return True
  if m in ua_names:
    if rv == "self" and cls_q == "useractions.UserActions":
      return True
    if endswith(rv, "user_actions", "useractions", "_useractions"):
      return True
  if m in DOCMODEL_WRITERS:
    if rv == "self" and cls_q == "docmodel.DocModel":
      return True
    if endswith(rv, "docmodel", "_docmodel"):
      return True
  return False


def _formula_functions(w):
  """[(module, enclosing function/class path, FunctionDef)] for formula code: functions decorated
  with usertypes.formulaType(...) anywhere, and the methods of MetaTableExtras' inner classes."""
  out = []
  for mod in w.repo.modules.values():
    def walk(node, path):
      for ch in ast.iter_child_nodes(node):
        if isinstance(ch, (ast.FunctionDef, ast.ClassDef)):
          p = path + [ch.name]
          if isinstance(ch, ast.FunctionDef):
            deco = any(isinstance(d, ast.Call) and endswith(dotted(d.func), "formulaType")
                       for d in ch.decorator_list)
            in_extras = mod.name == "docmodel" and len(path) == 2 and path[0] == "MetaTableExtras"
            if deco or in_extras:
              out.append((mod, ".".join([mod.name] + p), ch))
          walk(ch, p)
        else:
          walk(ch, path)
    walk(mod.tree, [])
  return out


def r4_contexts(run, w):
  R4 = run.rule("C31-R4", "user-action calls made from formula code, from apply_auto_removes and "
                "from the empty-column conversion are lexically inside `with "
                "...indirect_actions()`; calc flushes append False", floor=7)
  ua_names = set(w.useraction_methods())
  n_formula_sites = 0
  for (mod, q, fdef) in _formula_functions(w):
    for c in calls_in(fdef.body):
      if _is_user_action_call(w, c, None, ua_names):
        n_formula_sites += 1
        run.ob(R4, q, short(c), "a user action run by formula code is indirect",
               H.inside_with(fdef, c, "indirect_actions"), node=c,
               fi=_FakeFi(mod, fdef, q))
  if n_formula_sites < 2:
    raise AnalysisError("formula code that runs user actions (_updateSummary) not found")
  for q, why in (("docmodel.DocModel.apply_auto_removes", "auto-removals are decided by formulas"),
                 ("useractions.UserActions._ensure_column_accepts_data",
                  "converting an empty column while data is entered is not what the user asked "
                  "for")):
    fn = w.fn(q)
    n = 0
    for c in calls_in(fn.node.body):
      if _is_user_action_call(w, c, fn.fi.cls.qualname, ua_names):
        n += 1
        run.ob(R4, q, short(c), "this user action is indirect (%s)" % why,
               H.inside_with(fn.node, c, "indirect_actions"), fi=fn.fi, node=c)
    if n == 0:
      raise AnalysisError("%s: no user-action call found (mechanism moved?)" % q)
  # the conversion really is the ModifyColumn(isFormula=False) of the empty column
  fn = w.fn("useractions.UserActions._ensure_column_accepts_data")
  conv = [c for (n, c, nm) in fn.calls() if nm == "self.ModifyColumn" and len(c.args) == 3 and
          isinstance(c.args[2], ast.Dict) and
          any(H.const_value(k) == (True, "isFormula") and H.const_value(v) == (True, False)
              for k, v in zip(c.args[2].keys, c.args[2].values))]
  run.ob(R4, fn.qualname, "self.ModifyColumn(table_id, col_id, {'isFormula': False})",
         "the empty-column conversion goes through the ModifyColumn user action", len(conv) >= 1,
         fi=fn.fi, nontrivial=False)
  # calc flushes append False
  for q in ("action_obj.ActionGroup.flush_calc_changes",
            "action_obj.ActionGroup.flush_calc_changes_for_column"):
    fn = w.fn(q)
    vals = []
    for n in fn.cfg.nodes:
      if n.kind == "stmt" and isinstance(n.stmt, ast.AugAssign) and \
          _list_attr(fn, n.stmt.target) == "direct":
        tl = _times_len(n.stmt.value)
        vals.append(tl[0] if tl else "?")
      for c in calls_in(n.exprs):
        if isinstance(c.func, ast.Attribute) and c.func.attr in ("append", "extend") and \
            _list_attr(fn, c.func.value) == "direct":
          a = c.args[0] if c.args else None
          tl = _times_len(a) if a is not None else None
          vals.append(tl[0] if tl else (a.value if isinstance(a, ast.Constant) else "?"))
    run.ob(R4, q, "self.direct += [False] * count", "actions produced by recalculation are never "
           "direct", bool(vals) and all(v is False for v in vals), fi=fn.fi)


class _FakeFi(object):
  """Location carrier for nested formula functions that share a qualified name."""
  def __init__(self, mod, node, q):
    self.path = mod.relpath
    self.node = node
    self.qualname = q


U = "sandbox/grist/useractions.py"
AO = "sandbox/grist/action_obj.py"
EN = "sandbox/grist/engine.py"
DM = "sandbox/grist/docmodel.py"
TB = "sandbox/grist/table.py"
VARIANTS = [
  # R1
  ("gateway-flag-only-for-direct", U,
   "      self._engine.out_actions.direct.append(self._indirection_level == DIRECT_ACTION)\n",
   "      if self._indirection_level == DIRECT_ACTION:\n        self._engine.out_actions.direct.append(True)\n",
   "C31-R1"),
  ("initnewdoc-single-flag", U,
   "    self._engine.out_actions.direct += [True] * len(creation_actions)",
   "    self._engine.out_actions.direct += [True]", "C31-R1"),
  ("column-flush-no-flags", AO,
   "    self.summary.pop_column_delta_as_actions(table_id, col_id, self.stored, self.undo)\n    count = len(self.stored) - length_before\n    self.direct += [False] * count",
   "    self.summary.pop_column_delta_as_actions(table_id, col_id, self.stored, self.undo)",
   "C31-R1"),
  ("flush-counts-before-converting", AO,
   "    length_before = len(self.stored)\n    self.summary.convert_deltas_to_actions(self.stored, self.undo)\n    count = len(self.stored) - length_before",
   "    length_before = len(self.stored)\n    count = len(self.stored) - length_before\n    self.summary.convert_deltas_to_actions(self.stored, self.undo)",
   "C31-R1"),
  ("rollback-cuts-direct-at-undo-length", EN,
   "      del self.out_actions.direct[len_stored:]", "      del self.out_actions.direct[len_undo:]",
   "C31-R1"),
  ("bundle-drops-indirect-flags", "sandbox/grist/acl.py",
   "  bundle.direct.extend((0, flag) for flag in action_group.direct)",
   "  bundle.direct.extend((0, flag) for flag in action_group.direct if flag)", "C31-R1"),
  # R2
  ("raw-docactions-bypass-gateway", U,
   "    for doc_action in doc_actions:\n      self._do_doc_action(actions.action_from_repr(doc_action))",
   "    for doc_action in doc_actions:\n      action = actions.action_from_repr(doc_action)\n      self._engine.out_actions.stored.append(action)\n      self._engine.out_actions.direct.append(True)\n      self._engine.apply_doc_action(action)",
   "C31-R2"),
  # R3
  ("level-not-lowered-on-error", U,
   "    try:\n      self._indirection_level += 1\n      yield\n    finally:\n      self._indirection_level -= 1\n      assert self._indirection_level >= 0",
   "    self._indirection_level += 1\n    yield\n    self._indirection_level -= 1\n    assert self._indirection_level >= 0",
   "C31-R3"),
  ("flag-inverted", U,
   "direct.append(self._indirection_level == DIRECT_ACTION)",
   "direct.append(self._indirection_level != DIRECT_ACTION)", "C31-R3"),
  ("level-reset-by-summary-rename-check", U,
   "        if rec.summarySourceTable and self._indirection_level == DIRECT_ACTION:\n          raise ValueError(\"RenameTable: cannot rename a summary table\")",
   "        if rec.summarySourceTable and self._indirection_level == DIRECT_ACTION:\n          raise ValueError(\"RenameTable: cannot rename a summary table\")\n        self._indirection_level = DIRECT_ACTION",
   "C31-R3"),
  # R4
  ("typed-empty-column-conversion-direct", U,
   """    with self.indirect_actions():
      if schema_col.type == 'Any':
        # Guess the type when it starts out as Any. We unfortunately need to update the column
        # separately for type conversion, to recompute type-specific defaults
        # before they are used in formula->data conversion.
        col_info, values = guess_col_info(values, self._docmodel)
        # If the values are all blank (None or empty string) leave the column empty
        if not col_info:
          return values
        col_rec = self._docmodel.get_column_rec(table_id, col_id)
        self._docmodel.update([col_rec], **col_info)
      self.ModifyColumn(table_id, col_id, {'isFormula': False})
      return values
""",
   """    if schema_col.type != 'Any':
      # The type has already been chosen, so there is nothing to guess or convert.
      self.ModifyColumn(table_id, col_id, {'isFormula': False})
      return values

    with self.indirect_actions():
      # Guess the type when it starts out as Any. We unfortunately need to update the column
      # separately for type conversion, to recompute type-specific defaults
      # before they are used in formula->data conversion.
      col_info, values = guess_col_info(values, self._docmodel)
      # If the values are all blank (None or empty string) leave the column empty
      if not col_info:
        return values
      col_rec = self._docmodel.get_column_rec(table_id, col_id)
      self._docmodel.update([col_rec], **col_info)
      self.ModifyColumn(table_id, col_id, {'isFormula': False})
      return values
""", "C31-R4"),
  ("auto-removes-direct", DM,
   "    with self._engine.user_actions.indirect_actions():\n      self.remove(gone_records)",
   "    self.remove(gone_records)", "C31-R4"),
  ("list-summary-rows-direct", TB,
   "          with self._engine.user_actions.indirect_actions():\n            result += self._engine.user_actions.BulkAddRecord(\n              summary_table.table_id, new_row_ids, values_to_add\n            )",
   "          result += self._engine.user_actions.BulkAddRecord(\n            summary_table.table_id, new_row_ids, values_to_add\n          )",
   "C31-R4"),
  ("simple-summary-rows-direct", TB,
   "        with self._engine.user_actions.indirect_actions():\n          return summary_table.lookupOrAddDerived(**{c: getattr(rec, c) for c in groupby_cols})",
   "        return summary_table.lookupOrAddDerived(**{c: getattr(rec, c) for c in groupby_cols})",
   "C31-R4"),
  ("calc-flush-marks-direct", AO,
   "    self.summary.convert_deltas_to_actions(self.stored, self.undo)\n    count = len(self.stored) - length_before\n    self.direct += [False] * count",
   "    self.summary.convert_deltas_to_actions(self.stored, self.undo)\n    count = len(self.stored) - length_before\n    self.direct += [True] * count",
   "C31-R4"),
]
