"""C31 Actions are marked direct only when the user asked for them -- structural clauses
(DESIGN.md section 4, C31)."""
import ast
from ..fn import World, _default_may_raise
from ..cfg import CFG
from ..index import AnalysisError, dotted
from ..astutil import text, short, endswith, calls_in, walk_no_nested
from ..dataflow import DefUse
from .. import events as E
from .. import types as T
from . import _h_B as H

EXPLANATION = (
  "Decides the bookkeeping behind the direct flags: every function that grows ActionGroup.stored "
  "grows ActionGroup.direct by the same count on every normal path -- decided by counting what "
  "each path adds to either list symbolically (append: 1; extend / += [flag] * n: len or n; a "
  "list handed to another function: an unknown amount that `len(stored) - <len(stored) taken "
  "before>` measures), with private helpers of the class interpreted in place -- the rollback "
  "cuts both at the same index and the ActionBundle copies both lists the same way (R1); stored "
  "and direct are written by the same enumerated functions (or private helpers used only by "
  "them) and by nobody else (R2); indirect_actions raises the "
  "indirection level and lowers it again on every path, exceptional ones included, the level "
  "starts at DIRECT_ACTION, only these two places write it, and the gateway's flag is "
  "`level == DIRECT_ACTION` (R3); every user-action call made from formula code, from "
  "apply_auto_removes and from the empty-column conversion in _ensure_column_accepts_data is "
  "lexically inside `with ...indirect_actions()` (a helper called inside the block counts as "
  "inside), and calc flushes append False (R4). Not "
  "decided: which of the remaining actions a user 'asked for' (that is the meaning of the "
  "indirection level, not a structural fact).")

AG = "action_obj.ActionGroup"
# Functions that may write ActionGroup.stored / .direct, with the role each plays.
OWNERS = {
  "useractions.UserActions._do_doc_action": "gateway: one stored action, one flag",
  "useractions.UserActions.InitNewDoc": "built-in schema creation actions, all direct",
  "action_obj.ActionGroup.__init__": "both lists start empty",
  "action_obj.ActionGroup.flush_calc_changes": "calc flush: flags False for what was added",
  "action_obj.ActionGroup.flush_calc_changes_for_column": "calc flush for one column",
  "engine.Engine._undo_to_checkpoint": "rollback trims both lists",
}
BASE_OWNERS = dict(OWNERS)
# what identifies an owner when its (private) name is gone: the kinds of write it makes to stored
OWNER_KINDS = {
  "useractions.UserActions._do_doc_action": {"append"},
  "engine.Engine._undo_to_checkpoint": {"del"},
}


def _resolve_owners(w, writes):
  """The table of owners with private owners that were renamed followed by role: a missing owner
  is replaced by the one other writer of the same class that makes the same kind of write to
  stored (and is not an owner itself)."""
  out = {}
  for q, why in BASE_OWNERS.items():
    if w.repo.funcs.get(q) is not None or q not in OWNER_KINDS:
      out[q] = why
      continue
    cls_q = q.rsplit(".", 1)[0]
    cands = [q2 for q2, ws in writes.items() if q2 not in BASE_OWNERS and
             q2.rsplit(".", 1)[0] == cls_q and
             OWNER_KINDS[q] <= {x[1] for x in ws if x[0] == "stored"}]
    if len(cands) == 1:
      out[cands[0]] = why
    else:
      out[q] = why
  return out


# Writes stored only; tolerated because nothing in the engine calls it (checked).
DEAD_DESERIALISER = "action_obj.ActionGroup.from_json_obj"


def check(run, repo, tier):
  w = World(repo)
  writes = collect_writes(w)
  global OWNERS
  OWNERS = _resolve_owners(w, writes)
  analysis, cand = _analyse(w, writes)
  r1_parallel(run, w, writes, analysis)
  r2_owners(run, w, writes, analysis, cand)
  r3_indirection(run, w, analysis)
  r4_contexts(run, w, analysis)


# -------------------------------------------------------------------------- write classification
def _list_attr(fn, e):
  """'stored' / 'direct' when expression e denotes that list of an ActionGroup (directly or through
  a local that stands for it), else None."""
  if isinstance(e, ast.Name):
    e = H.deref(fn, e)
  if not (isinstance(e, ast.Attribute) and e.attr in ("stored", "direct")):
    return None
  d = fn.aliases.dotted(e) or ""
  if endswith(d, "out_actions." + e.attr):
    return e.attr
  if fn.type_of(e.value) == T.ACTIONGROUP:
    return e.attr
  if fn.fi.cls is not None and fn.fi.cls.qualname == AG and isinstance(e.value, ast.Name):
    return e.attr
  return None


def collect_writes(w):
  """{qualname: [(which list, kind, cfg node, detail)]} over the whole repo. kinds: append,
  extend, iadd, del, assign, escape (the list object handed to another function)."""
  out = {}
  for fi in w.repo.all_functions():
    if not any(isinstance(x, ast.Attribute) and x.attr in ("stored", "direct")
               for x in ast.walk(fi.node)):
      continue
    fn = w.fn_of(fi)
    ws = []
    for n in fn.cfg.nodes:
      s = n.stmt
      if s is None:
        continue
      if n.kind == "stmt":
        if isinstance(s, ast.Assign):
          for t in s.targets:
            base = t.value if isinstance(t, ast.Subscript) else t
            if base is t and not isinstance(t, ast.Attribute):
              continue        # binding a local is no write to the list
            which = _list_attr(fn, base)
            if which:
              ws.append((which, "assign" if base is t else "setitem", n, s.value))
        elif isinstance(s, ast.AugAssign):
          which = _list_attr(fn, s.target)
          if which:
            if not isinstance(s.op, ast.Add):
              raise AnalysisError("%s: unsupported augmented write %s" % (fi.qualname, short(s)))
            ws.append((which, "iadd", n, s.value))
        elif isinstance(s, ast.Delete):
          for t in s.targets:
            base = t.value if isinstance(t, ast.Subscript) else t
            which = _list_attr(fn, base)
            if which:
              ws.append((which, "del", n, t))
      for c in calls_in(n.exprs):
        if isinstance(c.func, ast.Attribute):
          which = _list_attr(fn, c.func.value)
          if which:
            m = c.func.attr
            if m in ("append", "extend"):
              ws.append((which, m, n, c))
            elif m in ("insert", "pop", "remove", "clear", "sort", "reverse", "__setitem__",
                       "__delitem__", "__iadd__"):
              raise AnalysisError("%s: unsupported write %s" % (fi.qualname, short(c)))
        if dotted(c.func) != "len":
          for a in list(c.args) + [k.value for k in c.keywords]:
            which = _list_attr(fn, a)
            if which:
              ws.append((which, "escape", n, c))
    if ws:
      out[fi.qualname] = ws
  return out


def _times_len(e, of=None):
  """For `[<const>] * <count>`: (const value, count expr) else None."""
  if isinstance(e, ast.BinOp) and isinstance(e.op, ast.Mult):
    l, r = e.left, e.right
    if isinstance(r, ast.List):
      l, r = r, l
    if isinstance(l, ast.List) and len(l.elts) == 1 and isinstance(l.elts[0], ast.Constant):
      return (l.elts[0].value, r)
  return None


# ---------------------------------------------------------------- counting what is added
# How many elements a function adds to ActionGroup.stored and to ActionGroup.direct is counted
# symbolically along the CFG. Quantities are linear expressions {symbol: coefficient} (symbol 1 is
# the constant term); an integer local is (a, off) meaning a * len(stored) + off, so that
# `before = len(stored)` ... `len(stored) - before` evaluates to what was added in between however
# the two statements are spelled or named. Calls of same-class helpers that touch the lists are
# interpreted in place with their parameters bound, so an extracted helper counts like its body.
TOP = "TOP"
GROW_KINDS = ("append", "extend", "iadd", "escape")


def _ladd(a, b, k=1):
  out = dict(a)
  for s, c in b.items():
    v = out.get(s, 0) + k * c
    if v:
      out[s] = v
    else:
      out.pop(s, None)
  return out


def _lshow(l):
  if l == TOP:
    return "different on different paths"
  if not l:
    return "0"
  parts = []
  for s, c in sorted(l.items(), key=lambda kv: str(kv[0])):
    nm = "1" if s == 1 else ("len(%s)" % s[1] if isinstance(s, tuple) and s[0] == "len" else
                             ("len(stored)" if s == "S" else "<added by %s>" % s[1]
                              if isinstance(s, tuple) else str(s)))
    parts.append(("%+d" % c) + ("" if s == 1 else "*" + nm))
  return " ".join(parts)


class _St(object):
  __slots__ = ("delta", "grow", "env")

  def __init__(self, delta=None, grow=None, env=None):
    self.delta = {} if delta is None else delta     # added to stored minus added to direct
    self.grow = grow                                # added to stored (None: unknown)
    self.env = {} if env is None else env           # integer locals: name -> (a, off)

  def copy(self):
    return _St(self.delta if self.delta == TOP else dict(self.delta),
               None if self.grow is None else dict(self.grow),
               dict((k, (a, dict(o))) for k, (a, o) in self.env.items()))

  def key(self):
    f = lambda l: l if l == TOP or l is None else tuple(sorted((str(k), v) for k, v in l.items()))
    return (f(self.delta), f(self.grow),
            tuple(sorted((k, a, f(o)) for k, (a, o) in self.env.items())))


def _join(a, b):
  delta = a.delta if a.delta != TOP and b.delta != TOP and a.delta == b.delta else TOP
  grow = a.grow if a.grow is not None and a.grow == b.grow else None
  env = dict((k, v) for k, v in a.env.items() if k in b.env and b.env[k] == v)
  return _St(delta, grow, env)


class _Flow(object):
  def __init__(self, w, helpers):
    self.w = w
    self.helpers = helpers        # qualnames of same-class helpers that touch the lists
    self.events = {}              # (qualname, id(ast node), which, kind) -> event tuple
    self.conflicts = []
    self._du = {}

  # -- recording
  def _event(self, fn, n, which, kind, detail, flag=None):
    self.events.setdefault((fn.qualname, id(detail), which, kind),
                           (fn, n, which, kind, detail, flag))

  def _stable(self, fn, name):
    """A list-valued local that is bound at most once and never mutated in fn."""
    du = self._du.get(fn.qualname)
    if du is None:
      du = self._du[fn.qualname] = DefUse(fn)
    return len(du.rebinders(name)) <= 1 and not du.muts.get(name)

  # -- evaluation of integer expressions
  def _eval(self, fn, e, st):
    if isinstance(e, ast.Constant) and isinstance(e.value, int) and not isinstance(e.value, bool):
      return (0, {1: e.value} if e.value else {})
    if isinstance(e, ast.Name):
      return st.env.get(e.id)
    if isinstance(e, ast.Call) and dotted(e.func) == "len" and len(e.args) == 1 and not e.keywords:
      a = e.args[0]
      which = _list_attr(fn, a)
      if which == "stored":
        return (1, {})
      if which is None and isinstance(a, ast.Name) and self._stable(fn, a.id):
        return (0, {("len", a.id, fn.qualname): 1})
      return None
    if isinstance(e, ast.BinOp) and isinstance(e.op, (ast.Add, ast.Sub)):
      l, r = self._eval(fn, e.left, st), self._eval(fn, e.right, st)
      if l is None or r is None:
        return None
      k = 1 if isinstance(e.op, ast.Add) else -1
      return (l[0] + k * r[0], _ladd(l[1], r[1], k))
    if isinstance(e, ast.UnaryOp) and isinstance(e.op, ast.USub):
      v = self._eval(fn, e.operand, st)
      return None if v is None else (-v[0], _ladd({}, v[1], -1))
    return None

  def _len_of(self, fn, e, st, site):
    """(count, flag) of the list expression e that is appended."""
    tl = _times_len(e)
    if tl:
      v = self._eval(fn, tl[1], st)
      return (v if v is not None else (0, {("U", short(site, 40), id(site)): 1}), tl[0])
    if isinstance(e, ast.List) and not any(isinstance(x, ast.Starred) for x in e.elts):
      flags = {x.value if isinstance(x, ast.Constant) else "?" for x in e.elts}
      return ((0, {1: len(e.elts)} if e.elts else {}), flags.pop() if len(flags) == 1 else "?")
    if isinstance(e, ast.Call) and dotted(e.func) in ("list", "tuple") and len(e.args) == 1:
      e = e.args[0]
    if isinstance(e, ast.Name) and self._stable(fn, e.id):
      return ((0, {("len", e.id, fn.qualname): 1}), "?")
    return ((0, {("U", short(site, 40), id(site)): 1}), "?")

  def _grow(self, st, which, val):
    a, off = val
    q = _ladd(off, {"S": a}) if a else off
    if which == "stored":
      if st.delta != TOP:
        st.delta = _ladd(st.delta, q)
      self._shift(st, q)
    else:
      if st.delta != TOP:
        st.delta = _ladd(st.delta, q, -1)

  def _shift(self, st, q):
    """stored grew by q: locals holding a multiple of len(stored) now lag behind by that much."""
    if q is None:
      st.grow = None
      for k in [k for k, (a, o) in st.env.items() if a]:
        del st.env[k]
      return
    if st.grow is not None:
      st.grow = _ladd(st.grow, q)
    for k, (a, o) in list(st.env.items()):
      if a:
        st.env[k] = (a, _ladd(o, q, -a))

  # -- one CFG node
  def transfer(self, fn, n, st, stack):
    for c in H.post_calls(n.exprs):
      f = c.func
      if isinstance(f, ast.Attribute):
        which = _list_attr(fn, f.value)
        if which:
          m = f.attr
          if m == "append" and len(c.args) == 1:
            self._grow(st, which, (0, {1: 1}))
            self._event(fn, n, which, "append", c, c.args[0])
          elif m == "extend" and len(c.args) == 1:
            cnt, flag = self._len_of(fn, c.args[0], st, c)
            self._grow(st, which, cnt)
            self._event(fn, n, which, "extend", c, flag)
          elif m in ("index", "count", "copy", "__len__", "__getitem__", "__iter__",
                     "__contains__"):
            pass
          else:
            raise AnalysisError("%s: unsupported write %s" % (fn.qualname, short(c)))
          continue
      if dotted(f) == "len":
        continue
      esc = [(_list_attr(fn, a), a) for a in list(c.args) + [k.value for k in c.keywords]]
      esc = [x for x in esc if x[0]]
      if esc:
        for which, a in esc:
          if which == "direct":
            raise AnalysisError("%s: ActionGroup.direct is handed to %s; cannot follow"
                                % (fn.qualname, short(c)))
          self._grow(st, "stored", (0, {("U", short(c, 40), id(c)): 1}))
          self._event(fn, n, "stored", "escape", c)
        continue
      fi = H.self_method(self.w, fn, c)
      if fi is not None and fi.qualname in self.helpers:
        self._inline(fn, c, fi, st, stack)
    s = n.stmt
    if s is None:
      return
    if n.kind == "stmt":
      if isinstance(s, ast.AugAssign):
        which = _list_attr(fn, s.target)
        if which:
          if not isinstance(s.op, ast.Add):
            raise AnalysisError("%s: unsupported augmented write %s" % (fn.qualname, short(s)))
          cnt, flag = self._len_of(fn, s.value, st, s)
          self._grow(st, which, cnt)
          self._event(fn, n, which, "iadd", s, flag)
        elif isinstance(s.target, ast.Name):
          v = None
          if isinstance(s.op, (ast.Add, ast.Sub)):
            v = self._eval(fn, ast.BinOp(left=ast.Name(id=s.target.id, ctx=ast.Load()), op=s.op,
                                         right=s.value), st)
          self._bind(st, s.target.id, v)
      elif isinstance(s, (ast.Assign, ast.AnnAssign)):
        if s.value is not None:
          val = self._eval(fn, s.value, st)
          for t in (s.targets if isinstance(s, ast.Assign) else [s.target]):
            base = t.value if isinstance(t, ast.Subscript) else t
            which = _list_attr(fn, base) if (isinstance(base, ast.Attribute) or base is not t) \
                else None
            if which:
              self._event(fn, n, which, "assign" if base is t else "setitem", s, s.value)
            elif isinstance(t, ast.Name):
              self._bind(st, t.id, val)
            else:
              for x in ast.walk(t):
                if isinstance(x, ast.Name) and isinstance(x.ctx, ast.Store):
                  self._bind(st, x.id, None)
      elif isinstance(s, ast.Delete):
        for t in s.targets:
          base = t.value if isinstance(t, ast.Subscript) else t
          which = _list_attr(fn, base)
          if which:
            self._event(fn, n, which, "del", t)
    elif n.kind in ("for", "with"):
      from ..astutil import stmt_defs
      for nm in stmt_defs(s):
        self._bind(st, nm, None)
    for e in n.exprs:
      for x in (walk_no_nested(e) if e is not None else ()):
        if isinstance(x, (ast.comprehension, ast.NamedExpr)):
          for y in ast.walk(x.target):
            if isinstance(y, ast.Name):
              self._bind(st, y.id, None)

  def _bind(self, st, name, val):
    if val is None:
      st.env.pop(name, None)
    else:
      st.env[name] = (val[0], dict(val[1]))

  def _inline(self, fn, call, fi, st, stack):
    if fi.qualname in stack or len(stack) >= 4:
      # a cycle of helpers: assumed to add the same number to both lists (each is checked alone)
      self._shift(st, None)
      return
    callee = self.w.fn_of(fi)
    env = {}
    for p in fi.params()[1:]:
      try:
        a = H.arg_of(call, fi, p)
      except AnalysisError:
        a = None
      v = self._eval(fn, a, st) if a is not None else None
      if v is not None:
        env[p] = (v[0], dict(v[1]))
    ex = self.run(callee, _St(st.delta, {}, env), stack + [fn.qualname])
    if ex is None:
      return
    st.delta = ex.delta
    self._shift(st, ex.grow)

  # -- what a branch tells about counts
  def _zero_exprs(self, test, pol):
    """Expressions known to be zero (an int local) / empty (a list local) on the branch of `test`
    with truth value pol. Counts are lengths and length differences of lists that only grow, so
    `n > 0` being false means n == 0."""
    out = []
    if isinstance(test, ast.UnaryOp) and isinstance(test.op, ast.Not):
      return self._zero_exprs(test.operand, not pol)
    if isinstance(test, ast.BoolOp):
      if (isinstance(test.op, ast.And) and pol) or (isinstance(test.op, ast.Or) and not pol):
        for v in test.values:
          out += self._zero_exprs(v, pol)
      return out
    if isinstance(test, ast.Name):
      return [test] if not pol else []
    if isinstance(test, ast.Call) and dotted(test.func) in ("len", "bool") and len(test.args) == 1:
      return [test] if not pol else []
    if isinstance(test, ast.Compare) and len(test.ops) == 1:
      l, r, op = test.left, test.comparators[0], test.ops[0]
      if isinstance(l, ast.Constant) and not isinstance(r, ast.Constant):
        l, r = r, l
        op = {ast.Lt: ast.Gt, ast.Gt: ast.Lt, ast.LtE: ast.GtE, ast.GtE: ast.LtE}.get(type(op),
                                                                                     type(op))()
      if isinstance(r, ast.Constant) and isinstance(r.value, int) and \
          not isinstance(r.value, bool):
        k = r.value
        zero_when = None
        if k == 0 and isinstance(op, (ast.Eq, ast.LtE)):
          zero_when = True
        elif k == 0 and isinstance(op, (ast.NotEq, ast.Gt)):
          zero_when = False
        elif k == 1 and isinstance(op, ast.Lt):
          zero_when = True
        elif k == 1 and isinstance(op, ast.GtE):
          zero_when = False
        if zero_when is not None and pol == zero_when:
          return [l]
    return out

  def _refine(self, fn, test, pol, st):
    for e in self._zero_exprs(test, pol):
      v = self._eval(fn, e, st)
      if v is None and isinstance(e, ast.Call) and dotted(e.func) == "bool":
        e = e.args[0]
      if v is None and isinstance(e, ast.Name) and e.id not in st.env and \
          _list_attr(fn, e) is None and self._stable(fn, e.id):
        v = (0, {("len", e.id, fn.qualname): 1})      # an empty list local
      if v is None or v[0] != 0:
        continue
      off = v[1]
      syms = [s_ for s_, c_ in off.items() if s_ != 1 and c_ in (1, -1)]
      if not syms:
        continue
      s_ = syms[0]
      c_ = off[s_]
      rest = dict(off)
      del rest[s_]
      repl = _ladd({}, rest, -c_)           # s_ = -rest / c_   (c_ is +-1)
      def sub(l):
        if l == TOP or l is None or s_ not in l:
          return l
        k = l[s_]
        l2 = dict(l)
        del l2[s_]
        return _ladd(l2, repl, k)
      st.delta = sub(st.delta)
      st.grow = sub(st.grow)
      for k_, (a_, o_) in list(st.env.items()):
        st.env[k_] = (a_, sub(o_))

  # -- a whole function
  def run(self, fn, st0, stack=()):
    cfg = fn.cfg
    stack = list(stack)
    IN = {cfg.entry.id: st0}
    OUT = {}
    work = [cfg.entry.id]
    steps = 0
    while work:
      steps += 1
      if steps > 20000:
        raise AnalysisError("%s: counting of stored/direct growth does not converge" % fn.qualname)
      nid = work.pop(0)
      st = IN[nid].copy()
      self.transfer(fn, cfg.nodes[nid], st, stack)
      if nid in OUT and OUT[nid].key() == st.key():
        continue
      OUT[nid] = st
      node = cfg.nodes[nid]
      for t in cfg.succ[nid]:
        if t == cfg.raise_exit.id:
          continue
        st_out = st
        if node.kind == "if" and nid in cfg.if_true:
          on_true = t in cfg.if_true[nid]
          on_false = t in (set(cfg.succ[nid]) - cfg.if_true[nid] - cfg.if_exc.get(nid, set()))
          if on_true != on_false:
            st_out = st.copy()
            self._refine(fn, node.stmt.test, on_true, st_out)
        st_prev, st = st, st_out
        if t not in IN:
          IN[t] = st.copy()
          work.append(t)
        else:
          new = _join(IN[t], st)
          if new.delta == TOP and IN[t].delta != TOP and st.delta != TOP:
            self.conflicts.append("%s: paths meeting at line %d have added (stored minus direct) "
                                  "%s and %s" % (fn.qualname, cfg.nodes[t].lineno or 0,
                                                 _lshow(IN[t].delta), _lshow(st.delta)))
          if new.key() != IN[t].key():
            IN[t] = new
            if t not in work:
              work.append(t)
        st = st_prev
    return IN.get(cfg.exit.id)


def _referrers(w, fi):
  """[(FuncInfo of the referring function, is a `self.<name>(...)` call in the same class)] for
  every mention of method fi's name that can denote fi."""
  out = []
  for g in w.repo.all_functions():
    if g is fi:
      # recursion is no outside use
      pass
    for x in ast.walk(g.node):
      if isinstance(x, ast.Attribute) and x.attr == fi.name:
        own = g.cls is not None and w.repo.find_method(g.cls, fi.name) is fi
        recv_self = isinstance(x.value, ast.Name) and x.value.id == "self"
        if recv_self and g.cls is not None and not own:
          continue          # another class's own method of the same name
        called = any(isinstance(c, ast.Call) and c.func is x for c in ast.walk(g.node))
        # nested defs are listed by all_functions too; attribute found in the outer walk as well
        out.append((g, bool(own and recv_self and called)))
  return out


def _helper_closure(w, writes):
  """Private same-class helpers whose writes count as their callers': functions outside OWNERS
  that write the lists (or call such a helper) and are only ever used as `self.<name>(...)` from
  OWNERS or other such helpers of the same class. Returns {qualname: reason it is NOT a helper
  (None when it is)}."""
  ua = set(f.qualname for f in w.useraction_methods().values())
  cand = {}
  todo = [q for q in writes if q not in OWNERS and q != DEAD_DESERIALISER]
  refs = {}
  while todo:
    q = todo.pop()
    if q in cand:
      continue
    fi = w.repo.funcs.get(q)
    if fi is None or fi.cls is None or fi.parent is not None:
      cand[q] = "not a method"
      continue
    if q in ua or fi.name.startswith("__"):
      cand[q] = "a user action / special method can be called from anywhere"
      continue
    rs = [(g, ok) for (g, ok) in _referrers(w, fi) if g.qualname != q and
          (g.parent is None or g.parent.qualname != q)]
    refs[q] = rs
    cand[q] = None
    if not rs:
      cand[q] = "nothing calls it"
    for (g, ok) in rs:
      if not ok:
        cand[q] = "used outside a self.%s(...) call in %s" % (fi.name, g.qualname)
      elif g.qualname not in OWNERS and g.qualname not in cand:
        todo.append(g.qualname)
  # callers must be owners or accepted helpers (fixpoint)
  changed = True
  while changed:
    changed = False
    for q, why in list(cand.items()):
      if why is not None:
        continue
      for (g, ok) in refs.get(q, []):
        gq = g.qualname
        if gq in OWNERS or cand.get(gq, "x") is None:
          continue
        cand[q] = "called from %s, which is not an enumerated writer" % gq
        changed = True
        break
  return cand


def _analyse(w, writes):
  """Per root function (enumerated owner, or any other function that writes the lists and is not
  an accepted helper): (flow, exit state)."""
  cand = _helper_closure(w, writes)
  helpers = {q for q, why in cand.items() if why is None}
  # owners called as self.<owner>() from another owner are interpreted in place as well
  inl = helpers | {q for q in OWNERS if q in writes}
  roots = sorted({q for q in writes if q not in helpers} |
                 {q for q in OWNERS if w.repo.funcs.get(q) is not None})
  out = {}
  for q in roots:
    fn = w.fn(q)
    fl = _Flow(w, inl - {q})
    ex = fl.run(fn, _St({}, {}, {}))
    out[q] = (fl, ex)
  return out, cand


# ------------------------------------------------------------------------------------------ R1
def r1_parallel(run, w, writes, analysis):
  R1 = run.rule("C31-R1", "every function that grows or cuts ActionGroup.stored does the same to "
                "ActionGroup.direct, by the same count, on every normal path", floor=7)
  for q, (fl, ex) in sorted(analysis.items()):
    fn = w.fn(q)
    evs = sorted(fl.events.values(), key=lambda e: (e[0].qualname, getattr(e[4], "lineno", 0)))
    st = [e for e in evs if e[2] == "stored"]
    di = [e for e in evs if e[2] == "direct"]
    balanced = ex is None or ex.delta == {}
    wit = None
    if not balanced:
      wit = "; ".join(fl.conflicts[:2]) if ex.delta == TOP and fl.conflicts else \
          "on return stored has grown by %s more than direct" % _lshow(ex.delta)
    what = {"append": "one flag is appended to direct for the one action appended to stored, on "
                      "every normal path",
            "extend": "direct grows by as many flags as stored is extended by",
            "iadd": "direct grows by as many flags as stored is extended by",
            "escape": "stored is handed to a function that may append to it; direct then grows by "
                      "exactly len(stored) after - len(stored) before"}
    grew = [e for e in st if e[3] in GROW_KINDS]
    for (efn, n, _w, kind, det, flag) in grew:
      via = "" if efn.qualname == q else " [in %s]" % efn.qualname.split(".")[-1]
      run.ob(R1, q, short(det) + via, what[kind], balanced, witness=wit, fi=efn.fi, node=det)
    if not grew and [e for e in di if e[3] in GROW_KINDS]:
      e = [e for e in di if e[3] in GROW_KINDS][0]
      run.ob(R1, q, short(e[4]), "direct is not written where stored is not", balanced,
             witness=wit, fi=e[0].fi, node=e[4])
    # cuts: del stored[i:] is paired with del direct[i:] in the same function
    for (efn, n, _w, kind, det, flag) in st:
      cfg = efn.cfg
      if kind == "del":
        def open_slice(t):
          return t.slice.lower if isinstance(t, ast.Subscript) and isinstance(t.slice, ast.Slice) \
              and t.slice.upper is None and t.slice.step is None else None
        low = open_slice(det)
        D = {e[1].id for e in di if e[3] == "del" and e[0] is efn and low is not None and
             open_slice(e[4]) is not None and
             H.canon(efn, open_slice(e[4])) == H.canon(efn, low)}
        ok = bool(D) and (cfg.postdominated_by(n.id, D) or cfg.dominated_by(n.id, D))
        run.ob(R1, q, "del stored[%s:] / del direct[%s:]" % (text(low) if low else "?",
                                                            text(low) if low else "?"),
               "both lists are cut at the same index", ok, fi=efn.fi, node=det)
      elif kind == "assign":
        if q == DEAD_DESERIALISER:
          callers = [fi.qualname for fi in w.repo.all_functions()
                     if any(isinstance(x, ast.Attribute) and x.attr == "from_json_obj"
                            for x in ast.walk(fi.node))]
          run.ob(R1, q, short(det), "named exception: this deserialiser sets stored without "
                 "direct, which is tolerable only while nothing in the engine calls it",
                 not callers, witness="called from %s" % callers, fi=efn.fi, nontrivial=False)
          continue
        empty = lambda v: (isinstance(v, ast.List) and not v.elts) or \
            (isinstance(v, ast.Call) and dotted(v.func) == "list" and not v.args and not v.keywords)
        D = [e for e in di if e[3] == "assign" and e[0] is efn]
        ok = empty(flag) and len(D) == 1 and empty(D[0][5])
        run.ob(R1, q, "stored = []; direct = []", "both lists start empty together", ok,
               fi=efn.fi, node=det)
      elif kind == "setitem":
        raise AnalysisError("%s: unsupported write to stored (%s)" % (q, short(det)))
    if [e for e in di if e[3] in ("del", "assign")] and not [e for e in st
                                                             if e[3] in ("del", "assign")]:
      e = [e for e in di if e[3] in ("del", "assign")][0]
      run.ob(R1, q, short(e[4]), "direct is not cut or reset where stored is not", False,
             fi=e[0].fi, node=e[4])
  # the reply bundle copies both lists in the same way
  fn = w.fn("acl.acl_read_split")
  p = fn.fi.params()[0]
  shapes = {}
  for (n, c, nm) in fn.calls():
    for which in ("stored", "direct"):
      if isinstance(c.func, ast.Attribute) and c.func.attr == "extend" and \
          isinstance(c.func.value, ast.Attribute) and c.func.value.attr == which and c.args and \
          isinstance(c.args[0], (ast.GeneratorExp, ast.ListComp)) and \
          len(c.args[0].generators) == 1:
        g = c.args[0].generators[0]
        shapes[which] = (H.canon(fn, g.iter) == "%s.%s" % (p, which), not g.ifs,
                         isinstance(c.args[0].elt, ast.Tuple) and
                         len(c.args[0].elt.elts) == 2 and
                         text(c.args[0].elt.elts[1]) == text(g.target),
                         H.canon(fn, c.args[0].elt.elts[0]) if isinstance(c.args[0].elt, ast.Tuple)
                         else None)
  if set(shapes) != {"stored", "direct"}:
    raise AnalysisError("acl_read_split: bundle.stored.extend(...) / bundle.direct.extend(...) over "
                        "the action group's lists not recognised")
  ok = all(s[0] and s[1] and s[2] for s in shapes.values()) \
      and shapes["stored"][3] == shapes["direct"][3]
  run.ob(R1, fn.qualname, "bundle.stored.extend((0, a) for a in group.stored); "
         "bundle.direct.extend((0, f) for f in group.direct)", "the bundle sent out carries every "
         "stored action and every flag, unfiltered, in the same envelope", ok, fi=fn.fi)
  # check_sanity compares the two lengths and is run by apply_user_actions after the flush
  cs = w.fn("action_obj.ActionGroup.check_sanity")
  def mismatch(e):
    return isinstance(e, ast.Compare) and len(e.ops) == 1 and \
        {H.canon(cs, e.left), H.canon(cs, e.comparators[0])} == {"len(self.stored)",
                                                                  "len(self.direct)"} and \
        isinstance(e.ops[0], (ast.NotEq, ast.Eq))
  ok = False
  for n in cs.cfg.nodes:
    if n.kind != "if":
      continue
    for t in H.test_atoms(n.stmt.test):
      if mismatch(t):
        differ = lambda e, t=t: isinstance(t.ops[0], ast.NotEq) if e is t else None
        r = H.reach_assuming(cs.cfg, {n.id}, differ)
        if any(cs.cfg.nodes[x].kind == "raise_stmt" for x in r) and cs.cfg.exit.id not in r:
          ok = True
  if not ok and any(H.local_callee(w, cs, c) is not None for (n, c, nm) in cs.calls()):
    raise AnalysisError("check_sanity: the length comparison is not in the function itself and "
                        "a helper it calls could not be followed")
  run.ob(R1, cs.qualname, "if len(self.stored) != len(self.direct): raise",
         "a length mismatch is an error, not a silently misaligned reply", ok, fi=cs.fi,
         nontrivial=False)


# ------------------------------------------------------------------------------------------ R2
def r2_owners(run, w, writes, analysis, cand):
  R2 = run.rule("C31-R2", "ActionGroup.stored and .direct are written only by the enumerated "
                "functions, and by the same ones", floor=12)
  sw, dw = set(), set()
  for q, (fl, ex) in analysis.items():
    for e in fl.events.values():
      (sw if e[2] == "stored" else dw).add(q)
  # when an enumerated writer is gone (renamed, inlined into its caller, split) the table of
  # owners no longer describes the code: a new writer is then no evidence of a bypass
  missing = sorted(set(OWNERS) - sw)
  if missing:
    raise AnalysisError("enumerated writer(s) of stored no longer write it: %s" % missing)
  for q, ws in sorted(writes.items()):
    fn = w.fn(q)
    for which in ("stored", "direct"):
      hits = [x for x in ws if x[0] == which]
      if not hits:
        continue
      ok = q in OWNERS or (q == DEAD_DESERIALISER and which == "stored")
      what = "writer of %s is one of the enumerated owners" % which
      wit = None
      if not ok and q in cand:
        ok = cand[q] is None
        what = "writer of %s is an enumerated owner, or a private helper used only by them " \
               "(its writes are then counted as theirs)" % which
        wit = cand[q]
      run.ob(R2, q, "writes %s: %s" % (which, short(hits[0][3]) if isinstance(hits[0][3], ast.AST)
                                       else hits[0][1]),
             what, ok, witness=wit, fi=fn.fi, node=hits[0][2].stmt, nontrivial=False)
  run.ob(R2, AG, "writers(stored) == writers(direct)", "the two lists have the same writers "
         "(apart from the unused deserialiser)", sw - {DEAD_DESERIALISER} == dw,
         witness="stored only: %s; direct only: %s" % (sorted(sw - dw - {DEAD_DESERIALISER}),
                                                       sorted(dw - sw)))
  missing = sorted(set(OWNERS) - sw)
  if missing:
    raise AnalysisError("enumerated writer(s) of stored no longer write it: %s" % missing)


# ------------------------------------------------------------------------------------------ R3
def _flag_verdict(fn, e, direct_value):
  """True when the flag expression is true exactly when the indirection level is DIRECT_ACTION
  (the level only counts up from there), False when it is some other function of the level or a
  constant, None when it cannot be interpreted."""
  e = H.expand(fn, H.deref(fn, e))
  is_level = lambda x: text(x) == "self._indirection_level"
  is_direct = lambda x: text(x) == "DIRECT_ACTION" or (
    isinstance(x, ast.Constant) and direct_value is not None and x.value == direct_value and
    not isinstance(x.value, bool))
  if isinstance(e, ast.Call) and dotted(e.func) == "bool" and len(e.args) == 1 and not e.keywords:
    return _flag_verdict(fn, e.args[0], direct_value)
  if isinstance(e, ast.UnaryOp) and isinstance(e.op, ast.Not):
    if is_level(e.operand):
      return True if direct_value == 0 else None
    v = _flag_verdict(fn, e.operand, direct_value)
    if v is True and isinstance(e.operand, ast.Compare):
      return False
    if v is False and isinstance(e.operand, ast.Compare) and len(e.operand.ops) == 1:
      # not (level != DIRECT), not (level > DIRECT)
      l, r = e.operand.left, e.operand.comparators[0]
      op = e.operand.ops[0]
      if is_level(r) and is_direct(l):
        l, r = r, l
        op = {ast.Lt: ast.Gt, ast.Gt: ast.Lt, ast.LtE: ast.GtE, ast.GtE: ast.LtE}.get(type(op),
                                                                                     type(op))()
      if is_level(l) and is_direct(r) and isinstance(op, (ast.NotEq, ast.Gt)):
        return True
      return False
    return None if v is None else False
  if isinstance(e, ast.IfExp) and isinstance(e.body, ast.Constant) and \
      isinstance(e.orelse, ast.Constant):
    if e.body.value is True and e.orelse.value is False:
      return _flag_verdict(fn, e.test, direct_value)
    if e.body.value is False and e.orelse.value is True:
      return _flag_verdict(fn, ast.UnaryOp(op=ast.Not(), operand=e.test), direct_value)
    return False
  if isinstance(e, ast.Compare) and len(e.ops) == 1:
    l, r, op = e.left, e.comparators[0], e.ops[0]
    if is_level(r) and is_direct(l):
      l, r = r, l
      op = {ast.Lt: ast.Gt, ast.Gt: ast.Lt, ast.LtE: ast.GtE, ast.GtE: ast.LtE}.get(type(op),
                                                                                   type(op))()
    if is_level(l) and is_direct(r):
      return isinstance(op, (ast.Eq, ast.LtE, ast.Is))
    if any(is_level(x) for x in ast.walk(e)):
      return False
    return None
  if isinstance(e, ast.Constant) or is_level(e):
    return False
  return None


def r3_indirection(run, w, analysis):
  R3 = run.rule("C31-R3", "indirect_actions raises the level and lowers it on every path; the level "
                "starts at DIRECT_ACTION; the gateway's flag is level == DIRECT_ACTION", floor=6)
  fn = w.fn("useractions.UserActions.indirect_actions")
  run.ob(R3, fn.qualname, "@contextmanager", "indirect_actions is a context manager",
         any(endswith(dotted(d), "contextmanager") for d in fn.fi.decorators()), fi=fn.fi,
         nontrivial=False)
  def may_raise(n):
    if any(isinstance(x, (ast.Yield, ast.YieldFrom)) for e in n.exprs if e is not None
           for x in walk_no_nested(e)):
      return True     # the body of the `with` runs at the yield and may raise
    return _default_may_raise(n)
  cfg = CFG(fn.node, may_raise=may_raise)
  def level_aug(op):
    return {n.id for n in cfg.nodes if n.kind == "stmt" and isinstance(n.stmt, ast.AugAssign) and
            text(n.stmt.target) == "self._indirection_level" and isinstance(n.stmt.op, op) and
            isinstance(n.stmt.value, ast.Constant) and n.stmt.value.value == 1}
  ups, downs = level_aug(ast.Add), level_aug(ast.Sub)
  yields = {n.id for n in cfg.nodes if any(isinstance(x, ast.Yield) for e in n.exprs
                                           if e is not None for x in walk_no_nested(e))}
  if len(ups) != 1 or not downs or len(yields) != 1:
    raise AnalysisError("indirect_actions: += 1 / yield / -= 1 shape not found")
  up = next(iter(ups))
  y = next(iter(yields))
  ok = cfg.dominated_by(y, {up}) and up not in cfg.reach_after({y})
  run.ob(R3, fn.qualname, "self._indirection_level += 1 before yield",
         "the level is raised before the block runs", ok, fi=fn.fi)
  exits = {cfg.exit.id, cfg.raise_exit.id}
  ok = cfg.postdominated_by(up, downs, exits=exits, completed=True) and \
      cfg.postdominated_by(y, downs, exits=exits)
  wit = None
  if not ok:
    wit = cfg.describe_path(cfg.path(y, exits, removed=downs, after=True))
  run.ob(R3, fn.qualname, "yield ... finally: self._indirection_level -= 1",
         "the level is lowered again on every path out of the block, exceptional ones included",
         ok, witness=wit, fi=fn.fi)
  # each path lowers it exactly once: no decrement is reachable from another one
  once = all(not (cfg.reach_after({d}) & downs) for d in downs)
  run.ob(R3, fn.qualname, "-= 1 exactly once per path", "the level returns to its previous value",
         once, fi=fn.fi)
  # writers of the level
  ua = w.repo.module("useractions")
  c0 = ua.assigns.get("DIRECT_ACTION")
  init = H.inlined_fn(w, "useractions.UserActions.__init__")
  starts = [s for s in ast.walk(init.node) if isinstance(s, ast.Assign) and
            text(s.targets[0]) == "self._indirection_level"]
  if not starts and H.mentions_in_reach(
      w, init, lambda x: isinstance(x, ast.Attribute) and x.attr == "_indirection_level" and
      isinstance(x.ctx, ast.Store), depth=2):
    raise AnalysisError("UserActions.__init__: the indirection level is initialised inside a "
                        "helper that could not be read in place")
  ok = len(starts) == 1 and text(starts[0].value) == "DIRECT_ACTION" and \
      isinstance(c0, ast.Constant) and c0.value == 0
  run.ob(R3, init.qualname, "self._indirection_level = DIRECT_ACTION (= 0)",
         "a fresh UserActions object marks actions direct, and the level counts up from "
         "DIRECT_ACTION", ok, fi=init.fi)
  allowed = {fn.qualname, init.qualname}
  for fi in w.repo.all_functions():
    for x in ast.walk(fi.node):
      if isinstance(x, ast.Attribute) and x.attr == "_indirection_level" and \
          isinstance(x.ctx, (ast.Store, ast.Del)):
        part = H.is_private_part(w, fi)
        run.ob(R3, fi.qualname, "writes _indirection_level", "the indirection level is written "
               "only by the constructor and by indirect_actions (or a private part of them)",
               fi.qualname in allowed or (part[0] and part[1] in allowed), fi=fi,
               node=x, nontrivial=False)
  # the gateway's flag
  gwq = [q for q, why in OWNERS.items() if why.startswith("gateway")]
  if len(gwq) != 1 or gwq[0] not in analysis:
    raise AnalysisError("the gateway that records stored actions was not found")
  gw = w.fn(gwq[0])
  flags = [ev for ev in analysis[gw.qualname][0].events.values()
           if ev[2] == "direct" and ev[3] == "append"]
  if len(flags) != 1:
    raise AnalysisError("_do_doc_action: direct.append(<flag>) not found")
  gfn = flags[0][0]            # the function the append is written in (the gateway or a helper)
  e = H.deref(gfn, flags[0][5])
  verdict = _flag_verdict(gfn, e, c0.value if isinstance(c0, ast.Constant) else None)
  if verdict is None:
    raise AnalysisError("_do_doc_action: cannot interpret the direct flag %s" % short(e))
  run.ob(R3, gw.qualname, "direct.append(%s)" % short(e), "an action is direct exactly when no "
         "indirect_actions block is open", verdict is True, fi=gw.fi, node=e)


# ------------------------------------------------------------------------------------------ R4
DOCMODEL_WRITERS = ("add", "insert", "insert_after", "update", "remove")


def _is_user_action_call(w, c, cls_q, ua_names):
  """A call that runs a user action: a @useraction method on a UserActions receiver, one of
  DocModel's add/insert/update/remove, or Table.lookupOrAddDerived."""
  if not isinstance(c.func, ast.Attribute):
    return False
  m = c.func.attr
  rv = dotted(c.func.value) or ""
  if m == "lookupOrAddDerived":
    return True
  if m in ua_names:
    if rv == "self" and cls_q == "useractions.UserActions":
      return True
    if endswith(rv, "user_actions", "useractions", "_useractions"):
      return True
  if m in DOCMODEL_WRITERS:
    if rv == "self" and cls_q == "docmodel.DocModel":
      return True
    if endswith(rv, "docmodel", "_docmodel"):
      return True
  return False


def _formula_functions(w):
  """[(module, enclosing function/class path, FunctionDef)] for formula code: functions decorated
  with usertypes.formulaType(...) anywhere, and the methods of MetaTableExtras' inner classes."""
  out = []
  for mod in w.repo.modules.values():
    def walk(node, path):
      for ch in ast.iter_child_nodes(node):
        if isinstance(ch, (ast.FunctionDef, ast.ClassDef)):
          p = path + [ch.name]
          if isinstance(ch, ast.FunctionDef):
            deco = any(isinstance(d, ast.Call) and endswith(dotted(d.func), "formulaType")
                       for d in ch.decorator_list)
            in_extras = mod.name == "docmodel" and len(path) == 2 and path[0] == "MetaTableExtras"
            if deco or in_extras:
              out.append((mod, ".".join([mod.name] + p), ch))
          walk(ch, p)
        else:
          walk(ch, path)
    walk(mod.tree, [])
  return out


def _ua_sites(w, fnode, cls, module, ua_names, depth=2, stack=()):
  """[(call, is it inside `with ...indirect_actions()`, function node it is written in)] for the
  user-action calls made by function `fnode` itself or by the same-class / same-module helpers
  it calls (a helper called inside the block counts as inside)."""
  out = []
  cls_q = cls.qualname if cls is not None else None
  for c in calls_in(fnode.body):
    if _is_user_action_call(w, c, cls_q, ua_names):
      out.append((c, H.inside_with(fnode, c, "indirect_actions"), fnode))
      continue
    if depth <= 0:
      continue
    fi = None
    if isinstance(c.func, ast.Attribute) and isinstance(c.func.value, ast.Name) and \
        c.func.value.id == "self" and cls is not None:
      fi = w.repo.find_method(cls, c.func.attr)
    elif isinstance(c.func, ast.Name):
      fi = w.repo.funcs.get("%s.%s" % (module.name, c.func.id))
    if fi is None or fi.node is fnode or fi.qualname in stack:
      continue
    sub = _ua_sites(w, fi.node, fi.cls, fi.module, ua_names, depth - 1, stack + (fi.qualname,))
    if sub:
      here = H.inside_with(fnode, c, "indirect_actions")
      out.extend((c2, ins or here, f2) for (c2, ins, f2) in sub)
  return out


def r4_contexts(run, w, analysis):
  R4 = run.rule("C31-R4", "user-action calls made from formula code, from apply_auto_removes and "
                "from the empty-column conversion are lexically inside `with "
                "...indirect_actions()`; calc flushes append False", floor=7)
  ua_names = set(w.useraction_methods())
  n_formula_sites = 0
  for (mod, q, fdef) in _formula_functions(w):
    for (c, inside, where) in _ua_sites(w, fdef, None, mod, ua_names):
      n_formula_sites += 1
      run.ob(R4, q, short(c), "a user action run by formula code is indirect", inside, node=c,
             fi=_FakeFi(mod, fdef, q))
  if n_formula_sites < 2:
    raise AnalysisError("formula code that runs user actions (_updateSummary) not found")
  def converts_empty_column(fi):
    """calls the ModifyColumn user action with {'isFormula': False} (the empty-column conversion
    done while data is entered; _ensure_column_accepts_data today)"""
    if fi.name in ua_names:
      return False
    f = w.fn_of(fi)
    for c in calls_in(fi.node.body):
      if isinstance(c.func, ast.Attribute) and c.func.attr == "ModifyColumn" and \
          isinstance(c.func.value, ast.Name) and c.func.value.id == "self":
        for a_ in list(c.args) + [k.value for k in c.keywords]:
          d_ = H.deref(f, a_)
          if isinstance(d_, ast.Dict) and any(
              k is not None and H.const_value(k) == (True, "isFormula") and
              H.const_value(v) == (True, False) for k, v in zip(d_.keys, d_.values)):
            return True
    return False
  ensure_fi = H.find_by_role(w, "useractions.UserActions", "_ensure_column_accepts_data",
                             converts_empty_column, "conversion of an empty column to data")
  for q, why in (("docmodel.DocModel.apply_auto_removes", "auto-removals are decided by formulas"),
                 (ensure_fi.qualname,
                  "converting an empty column while data is entered is not what the user asked "
                  "for")):
    fn = w.fn(q)
    sites = _ua_sites(w, fn.node, fn.fi.cls, fn.fi.module, ua_names)
    for (c, inside, where) in sites:
      run.ob(R4, q, short(c), "this user action is indirect (%s)" % why, inside, fi=fn.fi,
             node=c if where is fn.node else None)
    if not sites:
      raise AnalysisError("%s: no user-action call found (mechanism moved?)" % q)
  # the conversion really is the ModifyColumn(isFormula=False) of the empty column
  fn = w.fn(ensure_fi.qualname)
  mc = w.repo.func("useractions.UserActions.ModifyColumn")
  conv = []
  for (c, inside, where) in _ua_sites(w, fn.node, fn.fi.cls, fn.fi.module, ua_names):
    if isinstance(c.func, ast.Attribute) and c.func.attr == "ModifyColumn":
      try:
        info = H.arg_of(c, mc, mc.params()[3])
      except AnalysisError:
        info = None
      hf = [f for f in w.repo.all_functions() if f.node is where]
      info = H.deref(w.fn_of(hf[0]), info) if hf and info is not None else info
      if isinstance(info, ast.Dict) and \
          any(k is not None and H.const_value(k) == (True, "isFormula") and
              H.const_value(v) == (True, False) for k, v in zip(info.keys, info.values)):
        conv.append(c)
      elif isinstance(info, ast.Call) and dotted(info.func) == "dict" and \
          any(k.arg == "isFormula" and H.const_value(k.value) == (True, False)
              for k in info.keywords):
        conv.append(c)
  run.ob(R4, fn.qualname, "self.ModifyColumn(table_id, col_id, {'isFormula': False})",
         "the empty-column conversion goes through the ModifyColumn user action", len(conv) >= 1,
         fi=fn.fi, nontrivial=False)
  # calc flushes append False
  for q in ("action_obj.ActionGroup.flush_calc_changes",
            "action_obj.ActionGroup.flush_calc_changes_for_column"):
    fn = w.fn(q)
    vals = [ev[5].value if isinstance(ev[5], ast.Constant) else ev[5]
            for ev in analysis[q][0].events.values()
            if ev[2] == "direct" and ev[3] in GROW_KINDS]
    run.ob(R4, q, "self.direct += [False] * count", "actions produced by recalculation are never "
           "direct", bool(vals) and all(v is False for v in vals), fi=fn.fi)


class _FakeFi(object):
  """Location carrier for nested formula functions that share a qualified name."""
  def __init__(self, mod, node, q):
    self.path = mod.relpath
    self.node = node
    self.qualname = q


U = "sandbox/grist/useractions.py"
AO = "sandbox/grist/action_obj.py"
EN = "sandbox/grist/engine.py"
DM = "sandbox/grist/docmodel.py"
TB = "sandbox/grist/table.py"
VARIANTS = [
  # R1
  ("gateway-flag-only-for-direct", U,
   "      self._engine.out_actions.direct.append(self._indirection_level == DIRECT_ACTION)\n",
   "      if self._indirection_level == DIRECT_ACTION:\n        self._engine.out_actions.direct.append(True)\n",
   "C31-R1"),
  ("initnewdoc-single-flag", U,
   "    self._engine.out_actions.direct += [True] * len(creation_actions)",
   "    self._engine.out_actions.direct += [True]", "C31-R1"),
  ("column-flush-no-flags", AO,
   "    self.summary.pop_column_delta_as_actions(table_id, col_id, self.stored, self.undo)\n    count = len(self.stored) - length_before\n    self.direct += [False] * count",
   "    self.summary.pop_column_delta_as_actions(table_id, col_id, self.stored, self.undo)",
   "C31-R1"),
  ("flush-counts-before-converting", AO,
   "    length_before = len(self.stored)\n    self.summary.convert_deltas_to_actions(self.stored, self.undo)\n    count = len(self.stored) - length_before",
   "    length_before = len(self.stored)\n    count = len(self.stored) - length_before\n    self.summary.convert_deltas_to_actions(self.stored, self.undo)",
   "C31-R1"),
  ("rollback-cuts-direct-at-undo-length", EN,
   "      del self.out_actions.direct[len_stored:]", "      del self.out_actions.direct[len_undo:]",
   "C31-R1"),
  ("bundle-drops-indirect-flags", "sandbox/grist/acl.py",
   "  bundle.direct.extend((0, flag) for flag in action_group.direct)",
   "  bundle.direct.extend((0, flag) for flag in action_group.direct if flag)", "C31-R1"),
  # R2
  ("raw-docactions-bypass-gateway", U,
   "    for doc_action in doc_actions:\n      self._do_doc_action(actions.action_from_repr(doc_action))",
   "    for doc_action in doc_actions:\n      action = actions.action_from_repr(doc_action)\n      self._engine.out_actions.stored.append(action)\n      self._engine.out_actions.direct.append(True)\n      self._engine.apply_doc_action(action)",
   "C31-R2"),
  # R3
  ("level-not-lowered-on-error", U,
   "    try:\n      self._indirection_level += 1\n      yield\n    finally:\n      self._indirection_level -= 1\n      assert self._indirection_level >= 0",
   "    self._indirection_level += 1\n    yield\n    self._indirection_level -= 1\n    assert self._indirection_level >= 0",
   "C31-R3"),
  ("flag-inverted", U,
   "direct.append(self._indirection_level == DIRECT_ACTION)",
   "direct.append(self._indirection_level != DIRECT_ACTION)", "C31-R3"),
  ("level-reset-by-summary-rename-check", U,
   "        if rec.summarySourceTable and self._indirection_level == DIRECT_ACTION:\n          raise ValueError(\"RenameTable: cannot rename a summary table\")",
   "        if rec.summarySourceTable and self._indirection_level == DIRECT_ACTION:\n          raise ValueError(\"RenameTable: cannot rename a summary table\")\n        self._indirection_level = DIRECT_ACTION",
   "C31-R3"),
  # R4
  ("typed-empty-column-conversion-direct", U,
   """    with self.indirect_actions():
      if schema_col.type == 'Any':
        # Guess the type when it starts out as Any. We unfortunately need to update the column
        # separately for type conversion, to recompute type-specific defaults
        # before they are used in formula->data conversion.
        col_info, values = guess_col_info(values, self._docmodel)
        # If the values are all blank (None or empty string) leave the column empty
        if not col_info:
          return values
        col_rec = self._docmodel.get_column_rec(table_id, col_id)
        self._docmodel.update([col_rec], **col_info)
      self.ModifyColumn(table_id, col_id, {'isFormula': False})
      return values
""",
   """    if schema_col.type != 'Any':
      # The type has already been chosen, so there is nothing to guess or convert.
      self.ModifyColumn(table_id, col_id, {'isFormula': False})
      return values

    with self.indirect_actions():
      # Guess the type when it starts out as Any. We unfortunately need to update the column
      # separately for type conversion, to recompute type-specific defaults
      # before they are used in formula->data conversion.
      col_info, values = guess_col_info(values, self._docmodel)
      # If the values are all blank (None or empty string) leave the column empty
      if not col_info:
        return values
      col_rec = self._docmodel.get_column_rec(table_id, col_id)
      self._docmodel.update([col_rec], **col_info)
      self.ModifyColumn(table_id, col_id, {'isFormula': False})
      return values
""", "C31-R4"),
  ("auto-removes-direct", DM,
   "    with self._engine.user_actions.indirect_actions():\n      self.remove(gone_records)",
   "    self.remove(gone_records)", "C31-R4"),
  ("list-summary-rows-direct", TB,
   "          with self._engine.user_actions.indirect_actions():\n            result += self._engine.user_actions.BulkAddRecord(\n              summary_table.table_id, new_row_ids, values_to_add\n            )",
   "          result += self._engine.user_actions.BulkAddRecord(\n            summary_table.table_id, new_row_ids, values_to_add\n          )",
   "C31-R4"),
  ("simple-summary-rows-direct", TB,
   "        with self._engine.user_actions.indirect_actions():\n          return summary_table.lookupOrAddDerived(**{c: getattr(rec, c) for c in groupby_cols})",
   "        return summary_table.lookupOrAddDerived(**{c: getattr(rec, c) for c in groupby_cols})",
   "C31-R4"),
  ("calc-flush-marks-direct", AO,
   "    self.summary.convert_deltas_to_actions(self.stored, self.undo)\n    count = len(self.stored) - length_before\n    self.direct += [False] * count",
   "    self.summary.convert_deltas_to_actions(self.stored, self.undo)\n    count = len(self.stored) - length_before\n    self.direct += [True] * count",
   "C31-R4"),
]
