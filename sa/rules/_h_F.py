"""
Helpers of the group-F rules (C22 C24 C25 C27 C30 C32 C39 C40): deciding *roles* instead of spellings.

  Res(fn)            flow-sensitive resolver of one function
    .reaching(nid, name)     definitions of a local that may be seen on entry to a CFG node
    .expand(e, nid)          copy of e with locals replaced by what they stand for at that node:
                             a single reaching plain assignment is inlined (recursively, at the
                             definition's own node); two assignments in the two arms of one `if`
                             (or a default overridden under an `if`) become a conditional expression
    .norm(e, nid)            normalised text of the above
    .returns()               [(node, resolved value)] of every `return <value>`
    .cases(e, nid)           [(facts, leaf)] : conditional expressions split into their alternatives
    .known(nid, atom, want, facts=(), within=None)
                             "whenever control is at node nid (and, inside an expression, at the
                             sub-expression `within`), the test `atom` last evaluated to `want`":
                             decided on CFG edges (any spelling of the guard: nested if, early
                             return/continue/raise, swapped arms, `and`/`or`/`not` compounds,
                             assert) plus the expression context (conditional expressions,
                             short-circuit operands, comprehension filters)
    .elements(e, nid)        how a collection value is populated, whether by a comprehension, a
                             literal, or an empty literal + append/add/subscript-store in loops
  canon(test)        comparison normalised to its positive form: `a is not b` -> (`a is b`, False)
  atoms(test, pol)   facts established by a compound test evaluating to pol (canonical atoms;
                     a disjunction known true / conjunction known false is kept as one fact)

Nothing is evaluated; everything is read from the ast / CFG.
"""
import ast
import copy
from ..index import AnalysisError, dotted
from ..astutil import text, short, assigned_names, walk_no_nested, calls_in, stmt_defs
from ..dataflow import DefUse

_NEG = {ast.IsNot: ast.Is, ast.NotEq: ast.Eq, ast.NotIn: ast.In}
EMPTY_CTORS = ("list", "set", "dict", "tuple", "OrderedDict", "collections.OrderedDict")


def canon(e):
  """(positive-form expression, polarity) of an atomic test."""
  pol = True
  while isinstance(e, ast.UnaryOp) and isinstance(e.op, ast.Not):
    e, pol = e.operand, not pol
  if isinstance(e, ast.Compare) and len(e.ops) == 1 and type(e.ops[0]) in _NEG:
    e = ast.Compare(left=e.left, ops=[_NEG[type(e.ops[0])]()], comparators=e.comparators)
    pol = not pol
  return e, pol


def atoms(test, polarity=True):
  """[(canonical atom, bool)] known when `test` evaluated to `polarity`."""
  out = []
  def go(e, pol):
    if isinstance(e, ast.UnaryOp) and isinstance(e.op, ast.Not):
      return go(e.operand, not pol)
    if isinstance(e, ast.BoolOp):
      if (isinstance(e.op, ast.And) and pol) or (isinstance(e.op, ast.Or) and not pol):
        for v in e.values:
          go(v, pol)
      else:
        out.append((e, pol))     # `a or b` true / `a and b` false: known only as a whole
      return
    a, p = canon(e)
    out.append((a, pol if p else not pol))
  go(test, polarity)
  return out


def all_params(fnode):
  a = fnode.args
  out = [x.arg for x in a.posonlyargs + a.args + a.kwonlyargs]
  if a.vararg:
    out.append(a.vararg.arg)
  if a.kwarg:
    out.append(a.kwarg.arg)
  return out


def is_empty_collection(e):
  if isinstance(e, (ast.List, ast.Tuple, ast.Set)) and not e.elts:
    return True
  if isinstance(e, ast.Dict) and not e.keys:
    return True
  return isinstance(e, ast.Call) and dotted(e.func) in EMPTY_CTORS and not e.args and \
      not e.keywords


def strip_wrappers(e, names=("list", "tuple", "iter")):
  while isinstance(e, ast.Call) and dotted(e.func) in names and len(e.args) == 1 and \
      not e.keywords:
    e = e.args[0]
  return e


class Element(object):
  """One way a collection gets an element: `elt` (or key/value) evaluated per iteration of `loops`
  ([(target, iter)] outermost first) when `conds` (comprehension filters) hold; `node` is the CFG
  node where it happens, `site` the ast node of the append / comprehension / literal."""
  __slots__ = ("elt", "key", "loops", "conds", "node", "site", "how")

  def __init__(self, elt, loops, conds, node, site, how, key=None):
    self.elt, self.key, self.loops, self.conds = elt, key, loops, conds
    self.node, self.site, self.how = node, site, how


class Res(object):
  def __init__(self, fn, cfg=None):
    self.fn = fn
    self.cfg = cfg or fn.cfg
    self.du = DefUse(fn, self.cfg)
    self.params = set(all_params(fn.node))
    self._reach = {}
    self._stmt_nodes = None
    self._parents = None
    # bindings of the function's own locals (comprehension variables live in their own scope and
    # are not bindings of the function: unlike DefUse.defs they are left out here)
    self.defs = {}
    for n in self.cfg.nodes:
      s = n.stmt
      if s is None:
        continue
      names = set()
      if n.kind in ("stmt", "for", "with"):
        names |= stmt_defs(s)
      elif n.kind == "handler" and getattr(s, "name", None):
        names.add(s.name)
      elif n.kind == "def":
        names.add(s.name)
      for e in n.exprs:
        for x in walk_no_nested(e):
          if isinstance(x, ast.NamedExpr):
            names |= assigned_names(x.target)
      for nm in names:
        self.defs.setdefault(nm, set()).add(n.id)

  # ------------------------------------------------------------------ statement <-> node maps
  def nodes_of(self, stmt):
    if self._stmt_nodes is None:
      m = {}
      for n in self.cfg.nodes:
        if n.stmt is not None:
          m.setdefault(id(n.stmt), []).append(n)
      self._stmt_nodes = m
    return self._stmt_nodes.get(id(stmt), [])

  def node_of_expr(self, expr):
    """CFG node(s) at which ast node `expr` is evaluated."""
    out = []
    for n in self.cfg.nodes:
      for e in n.exprs:
        if e is expr or any(x is expr for x in ast.walk(e)):
          out.append(n)
          break
    return out

  def parent_block(self, stmt):
    """(owner statement, field name, list) of the block that directly contains stmt."""
    if self._parents is None:
      m = {}
      def go(owner, fld, stmts):
        for s in stmts:
          m[id(s)] = (owner, fld, stmts)
          if isinstance(s, (ast.FunctionDef, ast.AsyncFunctionDef, ast.ClassDef)):
            continue
          for f in ("body", "orelse", "finalbody"):
            b = getattr(s, f, None)
            if isinstance(b, list) and b and isinstance(b[0], ast.stmt):
              go(s, f, b)
          for h in getattr(s, "handlers", []) or []:
            go(h, "body", h.body)
      go(self.fn.node, "body", self.fn.node.body)
      self._parents = m
    return self._parents.get(id(stmt), (None, None, None))

  def enclosing(self, stmt, types=(ast.For, ast.While)):
    """Statements of the given types lexically enclosing stmt, outermost first."""
    out = []
    cur = stmt
    while True:
      owner, fld, _ = self.parent_block(cur)
      if owner is None or owner is self.fn.node:
        break
      if isinstance(owner, ast.ExceptHandler):
        # find the Try that owns the handler
        for s in ast.walk(self.fn.node):
          if isinstance(s, ast.Try) and owner in s.handlers:
            owner = s
            break
      if isinstance(owner, types) and fld == "body":
        out.append(owner)
      cur = owner
    return list(reversed(out))

  # ------------------------------------------------------------------ reaching definitions
  def reaching(self, nid, name, after=None):
    """(def node ids, reaches_entry) for `name` on entry to node nid; with after=<node ids>: as
    seen right after those nodes completed (e.g. on entry to a loop from outside it)."""
    key = (nid, name) if after is None else (tuple(sorted(after)), name, "after")
    if key in self._reach:
      return self._reach[key]
    defs = self.defs.get(name, set())
    out, seen, work, entry = set(), set(), list(self.cfg.pred[nid] if after is None else after), \
        False
    while work:
      x = work.pop()
      if x in seen:
        continue
      seen.add(x)
      if x in defs:
        out.add(x)
        continue
      if x == self.cfg.entry.id:
        entry = True
      work.extend(self.cfg.pred[x])
    self._reach[key] = (out, entry)
    return out, entry

  @staticmethod
  def _plain_value(node, name):
    s = node.stmt
    if node.kind != "stmt":
      return None
    if isinstance(s, ast.Assign) and len(s.targets) == 1 and isinstance(s.targets[0], ast.Name) \
        and s.targets[0].id == name:
      return s.value
    if isinstance(s, ast.AnnAssign) and isinstance(s.target, ast.Name) and s.target.id == name \
        and s.value is not None:
      return s.value
    # element-wise tuple assignment  a, b = e1, e2
    if isinstance(s, ast.Assign) and len(s.targets) == 1 and \
        isinstance(s.targets[0], (ast.Tuple, ast.List)) and \
        isinstance(s.value, (ast.Tuple, ast.List)) and \
        len(s.targets[0].elts) == len(s.value.elts) and \
        not any(isinstance(x, ast.Starred) for x in s.targets[0].elts + s.value.elts):
      for t, v in zip(s.targets[0].elts, s.value.elts):
        if isinstance(t, ast.Name) and t.id == name:
          return v
      return None
    # positional unpacking  a, b = e   ->  e[0], e[1]
    if isinstance(s, ast.Assign) and len(s.targets) == 1 and \
        isinstance(s.targets[0], (ast.Tuple, ast.List)) and \
        not any(isinstance(x, ast.Starred) for x in s.targets[0].elts):
      for i, t in enumerate(s.targets[0].elts):
        if isinstance(t, ast.Name) and t.id == name:
          return ast.Subscript(value=s.value, slice=ast.Constant(value=i), ctx=ast.Load())
    return None

  def binding(self, nid, name, after=None):
    """What `name` stands for on entry to nid (or right after nodes `after`): (value expr, node
    id where that value is evaluated), or None when it is not a single plain assignment / an
    if-else pair of them."""
    if name in self.params and not self.defs.get(name):
      return None
    defs, entry = self.reaching(nid, name, after)
    for m in self.du.muts.get(name, ()):
      if self.reaching(m, name)[0] & defs:
        # a container mutated in place is an object, not a value: keep its name -- unless the
        # local merely names an object that exists elsewhere (`pending = self._queue`)
        vals = [self._plain_value(self.cfg.nodes[d], name) for d in defs]
        if len(vals) == 1 and vals[0] is not None and dotted(vals[0]) is not None and \
            not isinstance(vals[0], ast.Name):
          break
        return None
    if entry and name in self.params:
      return None
    if not defs:
      return None
    nodes = [self.cfg.nodes[d] for d in defs]
    vals = [self._plain_value(n, name) for n in nodes]
    if any(v is None for v in vals):
      return None
    if len(nodes) == 1:
      if entry:
        return None      # may be unbound / a closure variable on another path
      return vals[0], nodes[0].id
    if len(nodes) == 2 and not entry:
      (a, va), (b, vb) = zip(nodes, vals)
      for (x, vx, y, vy) in ((a, va, b, vb), (b, vb, a, va)):
        ox, fx, _ = self.parent_block(x.stmt)
        oy, fy, _ = self.parent_block(y.stmt)
        if isinstance(ox, ast.If) and ox is oy and fx == "body" and fy == "orelse":
          ifn = self.nodes_of(ox)
          return ast.IfExp(test=ox.test, body=_At(vx, x.id), orelse=_At(vy, y.id)), \
              (ifn[0].id if ifn else nid)
        # default overridden under an `if` without else:  y: x = B ; if c: x = A
        if isinstance(ox, ast.If) and fx == "body" and not _assigns(ox.orelse, name):
          ifn = self.nodes_of(ox)
          if ifn and self.cfg.dominated_by(ifn[0].id, {y.id}) and \
              y.id in self.reaching(ifn[0].id, name)[0]:
            return ast.IfExp(test=ox.test, body=_At(vx, x.id), orelse=_At(vy, y.id)), ifn[0].id
        if isinstance(ox, ast.If) and fx == "orelse" and not _assigns(ox.body, name):
          ifn = self.nodes_of(ox)
          if ifn and self.cfg.dominated_by(ifn[0].id, {y.id}) and \
              y.id in self.reaching(ifn[0].id, name)[0]:
            return ast.IfExp(test=ox.test, body=_At(vy, y.id), orelse=_At(vx, x.id)), ifn[0].id
    return None

  def values_at(self, nid, name):
    """[(value expr, def node id)] of every definition of `name` that reaches nid, when all of
    them are plain assignments (and the name is not a parameter / unbound there); else None."""
    if name in self.params and not self.defs.get(name):
      return None
    defs, entry = self.reaching(nid, name)
    if entry or not defs:
      return None
    out = []
    for d in sorted(defs):
      v = self._plain_value(self.cfg.nodes[d], name)
      if v is None:
        return None
      out.append((v, d))
    return out

  def alternatives(self, e, nid, depth=0):
    """Leaf alternatives of expression e at node nid: conditional expressions are split and a
    local bound on several paths (if/else, try/except) is followed to each of its values.
    [(leaf expr resolved, node id where it is evaluated)]."""
    out = []
    for (facts, leaf) in Res.cases(self.expand(e, nid)):
      if isinstance(leaf, ast.Name) and depth < 6:
        vals = self.values_at(nid, leaf.id)
        if vals and not any(self.reaching(m, leaf.id)[0] & {d for (v, d) in vals}
                            for m in self.du.muts.get(leaf.id, ())):
          for (v, d) in vals:
            out += self.alternatives(v, d, depth + 1)
          continue
      out.append((leaf, nid))
    return out

  # ------------------------------------------------------------------ expansion
  def expand(self, e, nid=None, stop=(), depth=8):
    """Copy of e with resolvable locals replaced (see module docstring). Names in `stop`, function
    parameters, loop variables and anything bound more than once on the paths reaching nid stay."""
    if e is None:
      return None
    res = self
    class Tr(ast.NodeTransformer):
      def __init__(self, at, d):
        self.at, self.d, self.shadow = at, d, []
      def visit__At(self, node):
        return Tr(node.nid, self.d).visit(copy.deepcopy(node.expr)) if self.d > 0 else \
            copy.deepcopy(node.expr)
      def visit_Name(self, node):
        if not isinstance(node.ctx, ast.Load) or node.id in stop or self.d <= 0 or \
            any(node.id in s for s in self.shadow):
          return node
        if self.at is None:
          d = list(res.defs.get(node.id, ()))
          if len(d) == 1 and node.id not in res.params and node.id not in res.du.muts:
            v = res._plain_value(res.cfg.nodes[d[0]], node.id)
            if v is not None:
              return Tr(d[0], self.d - 1).visit(copy.deepcopy(v))
          return node
        b = res.binding(self.at, node.id)
        if b is None:
          return node
        v, at = b
        return Tr(at, self.d - 1).visit(_copy_at(v))
      def visit_Lambda(self, node):
        self.shadow.append(set(all_params(node)))
        node.body = self.visit(node.body)
        self.shadow.pop()
        return node
      def _comp(self, node):
        bound = set()
        for g in node.generators:
          bound |= assigned_names(g.target)
        first = node.generators[0]
        first.iter = self.visit(first.iter)
        self.shadow.append(bound)
        for i, g in enumerate(node.generators):
          if i:
            g.iter = self.visit(g.iter)
          g.ifs = [self.visit(x) for x in g.ifs]
        for fld in ("elt", "key", "value"):
          if hasattr(node, fld):
            setattr(node, fld, self.visit(getattr(node, fld)))
        self.shadow.pop()
        return node
      visit_ListComp = visit_SetComp = visit_GeneratorExp = visit_DictComp = _comp
    return Tr(nid, depth).visit(_copy_at(e))

  def norm(self, e, nid=None, stop=()):
    return text(self.expand(e, nid, stop)) if e is not None else None

  def dotted(self, e, nid=None):
    """Dotted name of e (a Call's callee when e is a Call) after expansion, or None."""
    if isinstance(e, ast.Call):
      e = e.func
    return dotted(self.expand(e, nid))

  # ------------------------------------------------------------------ returns / cases
  def returns(self, expand=True):
    """[(node, value)] for every `return <expr>`; value resolved at the return when expand."""
    out = []
    for n in self.cfg.nodes:
      if n.kind == "return" and n.stmt.value is not None:
        out.append((n, self.expand(n.stmt.value, n.id) if expand else n.stmt.value))
    return out

  def bare_returns(self):
    return [n for n in self.cfg.nodes if n.kind == "return" and n.stmt.value is None]

  def falls_off_end(self):
    """Can control reach the exit other than through a return statement?"""
    rets = {n.id for n in self.cfg.nodes if n.kind == "return"}
    return self.cfg.exit.id in self.cfg.reach({self.cfg.entry.id}, removed=rets)

  def result_expr(self):
    """The function's result as ONE expression, when its body is straight-line code plus if/else
    trees that end in returns (`if c: return A` + `return B` reads `A if c else B`; locals are
    resolved at each return). None when the body has loops, try, raise or other exits."""
    def fold(stmts):
      for i, s in enumerate(stmts):
        if isinstance(s, ast.Return):
          if s.value is None:
            return ast.Constant(value=None)
          ns = self.nodes_of(s)
          return self.expand(s.value, ns[0].id) if ns else None
        if isinstance(s, ast.If):
          rest = stmts[i + 1:]
          a, b = fold(s.body + rest), fold(s.orelse + rest)
          ns = self.nodes_of(s)
          if a is None or b is None or not ns:
            return None
          return ast.IfExp(test=self.expand(s.test, ns[0].id), body=a, orelse=b)
        if isinstance(s, (ast.Assign, ast.AnnAssign, ast.Pass)) or \
            (isinstance(s, ast.Expr) and isinstance(s.value, ast.Constant)):
          continue
        return None
      return ast.Constant(value=None)
    return fold(self.fn.node.body)

  @staticmethod
  def cases(e, facts=()):
    """Split conditional expressions: [(facts, leaf)], facts = ((canonical atom, bool), ...)."""
    if isinstance(e, ast.IfExp):
      return Res.cases(e.body, tuple(facts) + tuple(atoms(e.test, True))) + \
          Res.cases(e.orelse, tuple(facts) + tuple(atoms(e.test, False)))
    return [(tuple(facts), e)]

  # ------------------------------------------------------------------ guards
  def facts_of(self, test, pol, node):
    """atoms(test, pol) plus what they say once the locals they mention are resolved at the test:
    `ok = isinstance(v, str)` ... `if not ok:` establishes (isinstance(v, str), False)."""
    out = list(atoms(test, pol))
    for (a, p) in list(out):
      if not any(isinstance(x, ast.Name) for x in ast.walk(a)):
        continue
      ea = self.expand(a, node.id)
      if text(ea) != text(a):
        for f in atoms(ea, p):
          out.append(f)
    return out

  def _edges(self, atom, want):
    cfg = self.cfg
    edges, names = set(), set()
    def note(a):
      # locals the fact depends on (comprehension variables inside the test are its own)
      own = set()
      for x in ast.walk(a):
        if isinstance(x, ast.comprehension):
          own |= assigned_names(x.target)
        elif isinstance(x, ast.Lambda):
          own |= set(all_params(x))
      names.update(x.id for x in ast.walk(a) if isinstance(x, ast.Name) and x.id not in own)
    for n in cfg.nodes:
      if n.kind == "if" and n.id in cfg.if_true:
        t_succ = cfg.if_true[n.id]
        exc = cfg.if_exc.get(n.id, set())
        f_succ = set(cfg.succ[n.id]) - t_succ - exc
        for pol, succ in ((True, t_succ), (False, f_succ)):
          for (a, p) in self.facts_of(n.stmt.test, pol, n):
            if p == want and atom(a, n):
              edges |= {(n.id, s) for s in succ}
              note(a)
      elif n.kind == "assert":
        for (a, p) in self.facts_of(n.stmt.test, True, n):
          if p == want and atom(a, n):
            edges |= {(n.id, s) for s in cfg.succ[n.id]
                      if s != cfg.raise_exit.id and cfg.nodes[s].kind != "handler"}
            note(a)
      elif n.kind == "while":
        body = [s for s in cfg.succ[n.id] if cfg.nodes[s].stmt is not None and
                cfg.nodes[s].stmt in getattr(n.stmt, "body", [])]
        for (a, p) in self.facts_of(n.stmt.test, True, n):
          if p == want and atom(a, n):
            edges |= {(n.id, s) for s in body}
            note(a)
    return edges, names

  def guarded(self, nid, atom, want=True, starts=None, removed=()):
    """Every entry->nid path crosses, after the last rebinding / in-place change of a local the
    test mentions, an edge on which `atom` (predicate over (canonical atom, test node)) is known
    to be `want`. With starts=<node ids>: every path from those nodes instead of from the entry;
    removed=<node ids>: paths through these nodes are not considered."""
    edges, names = self._edges(atom, want)
    if not edges:
      # no such test anywhere: guarded only if nid cannot be reached at all
      edges = set()
    removed = set(removed)
    first = set(starts) if starts is not None else {self.cfg.entry.id}
    first -= removed
    if nid in first and starts is not None:
      return False
    begin = set(first)
    for nm in names:
      # rebinding a local the test mentions, or changing it in place, forgets the fact
      for k in set(self.defs.get(nm, ())) | set(self.du.muts.get(nm, ())):
        if k in removed:
          continue
        begin |= {x for x in self.cfg.succ[k] if x not in removed}
    # only kills that are themselves reachable from the starting points matter
    if starts is not None:
      live = self.cfg.reach(first, removed=removed)
      begin = {b for b in begin if b in live}
    seen, todo = set(begin), list(begin)
    while todo:
      a = todo.pop()
      for b in self.cfg.succ[a]:
        if (a, b) in edges or b in seen or b in removed:
          continue
        seen.add(b)
        todo.append(b)
    return nid not in seen

  def known(self, nid, atom, want=True, facts=(), within=None):
    """See module docstring. `facts`: expression-level facts already collected (from cases());
    `within`: a sub-expression of the node's own expressions whose evaluation context counts."""
    node = self.cfg.nodes[nid]
    for (a, p) in facts:
      if p == want and atom(a, node):
        return True
    if within is not None:
      for root in node.exprs:
        f = expr_context(root, within)
        if f is not None and any(p == want and atom(a, node) for (a, p) in f):
          return True
    return self.guarded(nid, atom, want)

  def text_atom(self, *texts, **kw):
    """Atom predicate: the canonical atom, with locals resolved at the test, reads as one of texts."""
    want = set(texts)
    stop = kw.get("stop", ())
    def pred(a, node):
      return text(a) in want or self.norm(a, node.id, stop) in want
    return pred

  # ------------------------------------------------------------------ collections
  def elements(self, e, nid=None, _seen=None):
    """[Element] describing how the collection denoted by e (at node nid) is populated; None when
    some contribution cannot be described (unknown call, parameter, ...)."""
    seen = _seen if _seen is not None else set()
    e0 = e
    e = strip_wrappers(e, ("list", "tuple", "iter", "sorted", "set", "frozenset"))
    node = self.cfg.nodes[nid] if nid is not None else None
    if isinstance(e, (ast.ListComp, ast.SetComp, ast.GeneratorExp)):
      return [Element(e.elt, [(g.target, g.iter) for g in e.generators],
                      [c for g in e.generators for c in g.ifs], node, e, "comp")]
    if isinstance(e, ast.DictComp):
      return [Element(e.value, [(g.target, g.iter) for g in e.generators],
                      [c for g in e.generators for c in g.ifs], node, e, "comp", key=e.key)]
    if isinstance(e, (ast.List, ast.Tuple, ast.Set)):
      if any(isinstance(x, ast.Starred) for x in e.elts):
        return None
      return [Element(x, [], [], node, x, "literal") for x in e.elts]
    if isinstance(e, ast.Dict):
      if any(k is None for k in e.keys):
        return None
      return [Element(v, [], [], node, v, "literal", key=k) for k, v in zip(e.keys, e.values)]
    if is_empty_collection(e):
      return []
    if isinstance(e, ast.BinOp) and isinstance(e.op, ast.Add):
      l, r = self.elements(e.left, nid, seen), self.elements(e.right, nid, seen)
      return None if l is None or r is None else l + r
    if isinstance(e, ast.IfExp):
      l, r = self.elements(e.body, nid, seen), self.elements(e.orelse, nid, seen)
      return None if l is None or r is None else l + r
    if isinstance(e, _At):
      return self.elements(e.expr, e.nid, seen)
    if isinstance(e, ast.Name):
      if e.id in seen or (e.id in self.params and not self.defs.get(e.id)):
        return None
      seen.add(e.id)
      if nid is not None:
        defs, entry = self.reaching(nid, e.id)
      else:
        defs, entry = set(self.defs.get(e.id, ())), False
      if entry or not defs:
        return None
      out = []
      for d in defs:
        v = self._plain_value(self.cfg.nodes[d], e.id)
        if v is None:
          return None
        sub = self.elements(v, d, seen)
        if sub is None:
          return None
        out += sub
      # in-place growth between the definitions and the use (through any alias of the list)
      grp = alias_group(self, e.id)
      for m in sorted({x for nm in grp for x in self.du.muts.get(nm, ())}):
        mn = self.cfg.nodes[m]
        if nid is not None and not (m in self.cfg.reach({nid}, forward=False) or m == nid):
          continue
        for nm in grp:
          if m not in self.du.muts.get(nm, ()):
            continue
          got = self._growth(mn, nm)
          if got is None:
            return None
          out += got
      return out
    return None

  def _growth(self, mn, name):
    """Elements added to local `name` by the mutation at CFG node mn (None: not describable)."""
    out = []
    s = mn.stmt
    loops = [(l.target, l.iter) for l in self.enclosing(s, (ast.For,))] if s is not None else []
    found = False
    if isinstance(s, ast.Assign):
      for t in s.targets:
        if isinstance(t, ast.Subscript) and isinstance(t.value, ast.Name) and t.value.id == name:
          out.append(Element(s.value, loops, [], mn, s, "store", key=t.slice))
          found = True
    for c in calls_in(mn.exprs):
      if isinstance(c.func, ast.Attribute) and isinstance(c.func.value, ast.Name) and \
          c.func.value.id == name:
        if c.func.attr in ("append", "add") and len(c.args) == 1:
          out.append(Element(c.args[0], loops, [], mn, c, "append"))
          found = True
        elif c.func.attr == "extend" and len(c.args) == 1:
          sub = self.elements(c.args[0], mn.id)
          if sub is None:
            # an opaque sequence (e.g. the result of a call) spliced in as a whole
            sub = [Element(c.args[0], [], [], mn, c, "extend")]
          for x in sub:
            x.loops = loops + x.loops
          out += sub
          found = True
        elif c.func.attr in ("sort", "reverse"):
          found = True
        elif c.func.attr in ("pop", "remove", "discard", "clear", "popitem"):
          found = True     # shrinking does not add elements
        else:
          return None
    if not found:
      if isinstance(s, (ast.AugAssign, ast.Delete)):
        return None if isinstance(s, ast.AugAssign) else []
      return None
    return out


class _At(ast.expr):
  """Marker: `expr` is to be expanded as of node `nid` (used for the arms of reconstructed
  conditional expressions)."""
  _fields = ("expr",)

  def __init__(self, expr=None, nid=None):
    ast.expr.__init__(self)
    self.expr = expr
    self.nid = nid


def _copy_at(e):
  if isinstance(e, _At):
    return _At(copy.deepcopy(e.expr), e.nid)
  c = copy.deepcopy(e)
  # deepcopy keeps _At.nid because it copies __dict__
  return c


def _assigns(stmts, name):
  for s in stmts or []:
    for n in walk_no_nested(s):
      if isinstance(n, ast.Name) and isinstance(n.ctx, ast.Store) and n.id == name:
        return True
  return False


def expr_context(root, target):
  """Facts ((canonical atom, bool) list) known whenever sub-expression `target` of `root` is
  evaluated: arms of conditional expressions, later operands of and/or, comprehension elements
  under their filters. None when target is not inside root."""
  def go(e, facts):
    if e is target:
      return facts
    if isinstance(e, ast.IfExp):
      r = go(e.test, facts)
      if r is not None:
        return r
      r = go(e.body, facts + atoms(e.test, True))
      if r is not None:
        return r
      return go(e.orelse, facts + atoms(e.test, False))
    if isinstance(e, ast.BoolOp):
      cur = list(facts)
      for v in e.values:
        r = go(v, cur)
        if r is not None:
          return r
        cur = cur + atoms(v, isinstance(e.op, ast.And))
      return None
    if isinstance(e, (ast.ListComp, ast.SetComp, ast.GeneratorExp, ast.DictComp)):
      cur = list(facts)
      for g in e.generators:
        r = go(g.iter, cur)
        if r is not None:
          return r
        for c in g.ifs:
          r = go(c, cur)
          if r is not None:
            return r
          cur = cur + atoms(c, True)
      for fld in ("elt", "key", "value"):
        if hasattr(e, fld):
          r = go(getattr(e, fld), cur)
          if r is not None:
            return r
      return None
    if isinstance(e, ast.Lambda):
      return go(e.body, [])     # what held where the lambda was written need not hold when it runs
    for ch in ast.iter_child_nodes(e):
      r = go(ch, facts)
      if r is not None:
        return r
    return None
  return go(root, [])


def local_function(fn, e):
  """The nested def / lambda that expression e (a Name or a Lambda) denotes inside fn, or None."""
  if isinstance(e, ast.Lambda):
    return e
  if isinstance(e, ast.Name):
    cands = []
    for s in ast.walk(fn.node):
      if isinstance(s, (ast.FunctionDef,)) and s is not fn.node and s.name == e.id:
        cands.append(s)
      elif isinstance(s, ast.Assign) and len(s.targets) == 1 and \
          isinstance(s.targets[0], ast.Name) and s.targets[0].id == e.id:
        cands.append(s.value)
    if len(cands) == 1:
      c = cands[0]
      if isinstance(c, (ast.FunctionDef, ast.Lambda)):
        return c
      if isinstance(c, ast.Name):
        return local_function(fn, c)
  return None


def function_results(world, fnode, owner_fi=None):
  """Resolved result expressions of a nested def / lambda: [(facts, leaf)] over all its returns
  (conditional expressions and if/return chains are both split into cases; the CFG conditions of
  an if/return chain are *not* added to facts -- use for shape tests of every alternative)."""
  if isinstance(fnode, ast.Lambda):
    return Res.cases(fnode.body)
  from ..fn import Fn
  fi = _pseudo_fi(world, fnode, owner_fi)
  fn = Fn(world, fi) if isinstance(fi, _PseudoFI) else world.fn_of(fi)
  r = Res(fn)
  out = []
  for (n, v) in r.returns():
    out += Res.cases(v)
  return out


class _PseudoFI(object):
  def __init__(self, node, owner):
    self.node = node
    self.qualname = (owner.qualname + "." if owner is not None else "") + node.name
    self.parent = owner
    self.cls = owner.cls if owner is not None else None
    self.module = owner.module if owner is not None else None
    self.name = node.name

  def params(self):
    return all_params(self.node)

  def decorators(self):
    return self.node.decorator_list


def _pseudo_fi(world, fnode, owner_fi):
  if owner_fi is not None:
    q = owner_fi.qualname + "." + fnode.name
    try:
      return world.repo.func(q)
    except Exception:
      pass
  return _PseudoFI(fnode, owner_fi)


def res_of(world, fn):
  """Cached Res of an Fn (normal CFG)."""
  r = getattr(fn, "_res_F", None)
  if r is None:
    r = fn._res_F = Res(fn)
  return r


def scopes(world, fn):
  """Res of fn and of every def nested in it (recursively), outermost first."""
  out = [res_of(world, fn)]
  cache = getattr(fn, "_nested_F", None)
  if cache is None:
    cache = fn._nested_F = []
    from ..fn import Fn
    for s in ast.walk(fn.node):
      if isinstance(s, (ast.FunctionDef, ast.AsyncFunctionDef)) and s is not fn.node:
        found = None
        for q, fi in world.repo.funcs.items():
          if fi.node is s:
            found = world.fn_of(fi)
            break
        if found is None:
          # a copy of the function (helpers inlined): nested defs are not in the index
          found = Fn(world, _PseudoFI(s, fn.fi))
        cache.append(found)
  return out + [res_of(world, f) for f in cache]


# Functions the rules of this group look up *by name* at their call sites; the inliner leaves
# calls of these alone.
KEEP_F = frozenset((
  "_rename_cell_choice", "rename_choices", "BulkUpdateRecord", "do_convert", "convert",
  "has_user_input", "encode_args", "decode_args", "encode_object", "decode_object", "safe_repr",
  "_get_encodable_row_ids", "get_action_repr", "encode_objects", "decode_objects",
  "convert_recursive_in_action", "apply_doc_actions", "apply_doc_action", "_do_doc_action",
  "_do_extra_doc_action", "doAddColumn", "next_row_id", "convert_action_values",
  "update_new_rows_map", "_make_sorted_work_items", "_update_loop", "_changes_to_actions",
  "_guess_basic_types", "get_table_data", "convert_and_add", "get_grist_column",
  "generic_visit", "visit", "create_migrations", "noop_migration", "safe_parse",
))


def ifn(world, qualname, keep=()):
  """Fn of `qualname` over a copy of its body in which small helpers it calls (private methods of
  the same class, functions of the same module -- "a few statements extracted into a helper") are
  dissolved back in, so the rules see one function whatever way the code is cut into helpers.
  The functions the rules anchor on (KEEP_F, `keep`) and all visit_* methods are never dissolved.
  Falls back to the plain function when the inliner is unavailable."""
  key = frozenset(keep)
  cache = world.__dict__.setdefault("_inliners_F", {})
  inl = cache.get(key)
  if inl is None:
    try:
      from ._h_A import Inliner
    except Exception:
      return world.fn(qualname)
    names = set(KEEP_F) | set(keep)
    names |= {q.rsplit(".", 1)[-1] for q in world.repo.funcs
              if q.rsplit(".", 1)[-1].startswith("visit_")}

    class _Inl(Inliner):
      """Plain-name calls resolve to functions of the caller's module unless the caller binds
      that name itself (parameter, assignment, nested def, import inside the function)."""
      _bound = {}

      def _callee(self, fi, call, caller_names):
        f = call.func
        if isinstance(f, ast.Name):
          b = self._bound.get(fi.qualname)
          if b is None:
            b = set(all_params(fi.node))
            for x in ast.walk(fi.node):
              if isinstance(x, ast.Name) and isinstance(x.ctx, (ast.Store, ast.Del)):
                b.add(x.id)
              elif isinstance(x, (ast.FunctionDef, ast.AsyncFunctionDef, ast.ClassDef)) and \
                  x is not fi.node:
                b.add(x.name)
              elif isinstance(x, (ast.Import, ast.ImportFrom)):
                b |= {(a.asname or a.name).split(".")[0] for a in x.names}
            self._bound[fi.qualname] = b
          if f.id in b:
            return None
          c = fi.module.functions.get(f.id)
          return (c, False) if c is not None else None
        return Inliner._callee(self, fi, call, caller_names)

      def _expr_helper(self, fi, call, names, stack):
        """As the base class, but names the helper's expression binds itself (comprehension /
        lambda variables) are renamed apart instead of giving up when they clash."""
        from ._h_A import bind_call, _Subst, _strip_doc
        r = self._callee(fi, call, names)
        if r is None:
          return None
        callee, bound = r
        if not self._inlinable(callee, stack):
          return None
        body = _strip_doc(callee.node.body)
        if len(body) != 1 or not isinstance(body[0], ast.Return) or body[0].value is None:
          return None
        args = bind_call(call, callee, bound=bound)
        if args is None:
          return None
        e = copy.deepcopy(body[0].value)
        inner = set()
        for x in ast.walk(e):
          if isinstance(x, ast.Name) and isinstance(x.ctx, ast.Store):
            inner.add(x.id)
          if isinstance(x, ast.Lambda):
            inner |= set(all_params(x))
        if inner & set(args):
          return None
        clash = inner & set(names)
        if clash:
          self._n += 1
          ren = {nm: "%s__e%d" % (nm, self._n) for nm in clash}
          e = _Subst(ren, {}).visit(e)
          names |= set(ren.values())
        return _Subst({}, dict(args)).visit(e)

      def _block(self, fi, stmts, names, stack, depth):
        """Additionally: a multi-statement helper called in the middle of an expression whose
        earlier operands are side-effect free is hoisted into a temporary first
        (`return ['O', h(v)]` -> `t = h(v); return ['O', t]`), then dissolved as usual."""
        if depth > 0:
          pre = []
          for st in stmts:
            if isinstance(st, (ast.Return, ast.Assign, ast.Expr)) and st.value is not None and \
                not isinstance(st.value, ast.Call):
              c = self._hoist_candidate(fi, st.value, names, stack)
              if c is not None:
                self._n += 1
                tmp = "__hv%d" % self._n
                names.add(tmp)
                asg = ast.copy_location(ast.Assign(
                  targets=[ast.Name(id=tmp, ctx=ast.Store())], value=c), st)
                ast.fix_missing_locations(asg)
                _replace_node(st, c, ast.copy_location(ast.Name(id=tmp, ctx=ast.Load()), c))
                pre.append(asg)
            pre.append(st)
          stmts = pre
        return Inliner._block(self, fi, stmts, names, stack, depth)

      def _hoist_candidate(self, fi, root, names, stack):
        from ._h_A import _strip_doc
        def simple(e):
          if isinstance(e, (ast.Constant, ast.Name)):
            return True
          if isinstance(e, ast.Attribute):
            return simple(e.value)
          if isinstance(e, (ast.List, ast.Tuple, ast.Set)):
            return all(simple(x) for x in e.elts)
          return False
        def ordered(e):
          if isinstance(e, (ast.List, ast.Tuple, ast.Set)):
            return list(e.elts)
          if isinstance(e, ast.Dict):
            out = []
            for k, v in zip(e.keys, e.values):
              out += [k, v] if k is not None else [v]
            return out
          if isinstance(e, ast.BinOp):
            return [e.left, e.right]
          if isinstance(e, ast.Call):
            return [e.func] + list(e.args) + [k.value for k in e.keywords]
          if isinstance(e, ast.Starred):
            return [e.value]
          if isinstance(e, ast.Subscript):
            return [e.value, e.slice]
          if isinstance(e, ast.Attribute):
            return [e.value]
          return None
        def want(c):
          if not isinstance(c, ast.Call):
            return False
          r = self._callee(fi, c, names)
          if r is None or not self._inlinable(r[0], stack):
            return False
          body = _strip_doc(r[0].node.body)
          single = len(body) == 1 and isinstance(body[0], ast.Return)
          return not single and all(simple(a) for a in c.args) and \
              all(simple(k.value) for k in c.keywords)
        def go(e):
          if want(e):
            return e
          kids = ordered(e)
          if kids is None:
            return None
          for k in kids:
            if simple(k):
              continue
            return go(k)      # the first non-simple operand: it runs before anything after it
          return None
        return go(root)

    inl = cache[key] = _Inl(world, keep=names)
  qualname = locate(world, qualname)
  try:
    return inl.fn(qualname)
  except AnalysisError:
    raise
  except Exception:
    return world.fn(qualname)


def sites(world, fn, types=ast.Call):
  """(res, cfg node, ast node) for every node of the given ast types evaluated anywhere in fn or in
  the defs / lambdas nested in it."""
  for r in scopes(world, fn):
    for n in r.cfg.nodes:
      for e in n.exprs:
        for x in walk_no_nested(e, into_lambda=True):
          if isinstance(x, types):
            yield r, n, x


def aliases_of(res, name):
  """Locals that only ever stand for `name` (every binding a plain assignment of an alias)."""
  out = {name}
  changed = True
  while changed:
    changed = False
    for nm, ds in res.defs.items():
      if nm in out or nm in res.params:
        continue
      vals = [res._plain_value(res.cfg.nodes[d], nm) for d in ds]
      if vals and all(isinstance(v, ast.Name) and v.id in out for v in vals):
        out.add(nm)
        changed = True
  return out


def is_none(e):
  return isinstance(e, ast.Constant) and e.value is None


def isinstance_atom(res, subject_texts, type_names):
  """Atom predicate: isinstance(<subject>, T) with T (or every member of tuple T) in type_names;
  subject compared by raw or resolved text."""
  subject_texts = set(subject_texts)
  def pred(a, node):
    if not (isinstance(a, ast.Call) and dotted(a.func) == "isinstance" and len(a.args) == 2):
      return False
    if text(a.args[0]) not in subject_texts and res.norm(a.args[0], node.id) not in subject_texts:
      return False
    t = a.args[1]
    elts = t.elts if isinstance(t, ast.Tuple) else [t]
    return all((dotted(x) or "?").split(".")[-1] in type_names for x in elts)
  return pred


def call_arg(call, pos, kw=None):
  """Argument of a call by position (not counting self) or keyword name; None when absent."""
  if kw is not None:
    for k in call.keywords:
      if k.arg == kw:
        return k.value
  if pos is not None and pos < len(call.args) and \
      not any(isinstance(a, ast.Starred) for a in call.args[:pos + 1]):
    return call.args[pos]
  return None


def helper_calls(world, fn):
  """Calls in fn to code the rules of this group do not follow: private methods of the same object
  and private functions of the same module."""
  out = []
  for (n, c, nm) in fn.calls():
    if nm is None:
      continue
    parts = nm.split(".")
    if (len(parts) == 2 and parts[0] in ("self", "cls") and parts[1].startswith("_") and
        not parts[1].startswith("__")) or (len(parts) == 1 and parts[0].startswith("_")):
      out.append(c)
  return out


def absent(world, fn, what):
  """A structure a rule anchors on was not found in fn. When fn hands work to private helpers the
  rules do not follow, that is undecidable (AnalysisError); otherwise the caller reports it."""
  hc = helper_calls(world, fn)
  if hc:
    raise AnalysisError("%s: %s not found here and the function calls helpers that are not "
                        "followed (%s)" % (fn.qualname, what, ", ".join(sorted({short(c.func, 40)
                                                                              for c in hc}))))
  return False


def iterations(fnode):
  """(iterable, target, body) of every for-loop and comprehension clause of a function: body is
  the list of ast nodes evaluated per element (loop body statements / element expressions)."""
  out = []
  for n in ast.walk(fnode):
    if isinstance(n, (ast.For, ast.AsyncFor)):
      out.append((n.iter, n.target, list(n.body), n))
    elif isinstance(n, (ast.ListComp, ast.SetComp, ast.GeneratorExp, ast.DictComp)):
      body = [n.key, n.value] if isinstance(n, ast.DictComp) else [n.elt]
      for i, g in enumerate(n.generators):
        out.append((g.iter, g.target, body + [c for gg in n.generators[i:] for c in gg.ifs], n))
  return out


def loop_body_nodes(res, loop_stmt):
  """ids of the CFG nodes of the statements inside a loop's body."""
  inner = {id(x) for st in loop_stmt.body for x in ast.walk(st)}
  return {n.id for n in res.cfg.nodes if n.stmt is not None and id(n.stmt) in inner}


def every_iteration(res, loop_stmt, nid):
  """Node nid (inside the loop body) runs exactly once in every iteration that completes, and the
  loop is never left early (break / return) -- so the loop performs it once per element."""
  cfg = res.cfg
  heads = {n.id for n in res.nodes_of(loop_stmt)}
  body = loop_body_nodes(res, loop_stmt)
  if nid not in body or not heads:
    return False
  first = {s for h in heads for s in cfg.succ[h] if s in body}
  if heads & cfg.reach(first, removed={nid}):
    return False                       # an iteration can complete without passing nid
  if nid in cfg.reach_after({nid}, removed=heads):
    return False                       # or pass it twice
  for b in body:
    for s in cfg.succ[b]:
      if s not in body and s not in heads and s != cfg.raise_exit.id and \
          (b, s) not in cfg.exc_edges and cfg.nodes[s].kind != "handler":
        return False                   # leaves the loop early
  return True


def alias_group(res, name):
  """Locals that denote the same object as `name`: names bound only to it, and the names it is
  itself only bound to (x = y; both directions, transitively)."""
  grp = set(aliases_of(res, name))
  changed = True
  while changed:
    changed = False
    for nm in list(grp):
      if nm in res.params:
        continue
      vals = [res._plain_value(res.cfg.nodes[d], nm) for d in res.defs.get(nm, ())]
      if vals and all(isinstance(v, ast.Name) for v in vals) and len({v.id for v in vals}) == 1:
        y = vals[0].id
        if y not in grp:
          grp |= aliases_of(res, y)
          changed = True
  return grp


def _replace_node(root, old, new):
  """Replace sub-node `old` of statement `root` by `new` (identity match)."""
  for parent in ast.walk(root):
    for fld, val in ast.iter_fields(parent):
      if val is old:
        setattr(parent, fld, new)
        return True
      if isinstance(val, list):
        for i, x in enumerate(val):
          if x is old:
            val[i] = new
            return True
  return False


def sorted_view(res, fn, e, nid):
  """When expression e at node nid denotes a sequence that was just put in order, return
  (what was sorted, the sorted()/sort() call): either e resolves to `sorted(X, ...)`, or e is a
  local list L with an `L.sort(...)` that dominates nid and no other change of L in between
  (X is then what L was built from: `L = list(X)`). None otherwise."""
  v = res.expand(e, nid)
  if isinstance(v, ast.Call) and dotted(v.func) == "sorted" and v.args:
    return v.args[0], v
  if isinstance(e, ast.Name):
    L = e.id
    cfg = res.cfg
    for n in cfg.nodes:
      for c in calls_in(n.exprs):
        if isinstance(c.func, ast.Attribute) and c.func.attr == "sort" and \
            isinstance(c.func.value, ast.Name) and c.func.value.id == L and \
            cfg.dominated_by(nid, {n.id}):
          between = cfg.reach_after({n.id}) & cfg.reach({nid}, forward=False)
          others = (set(res.du.muts.get(L, ())) | set(res.defs.get(L, ()))) - {n.id}
          if between & others:
            continue
          vals = res.values_at(n.id, L)
          if not vals or len(vals) != 1:
            continue
          src = strip_wrappers(res.expand(vals[0][0], vals[0][1]), ("list", "tuple"))
          return src, c
  return None


def sole_arg(call):
  """The single argument of a call, however it is passed (positionally or by keyword); None when
  the call has no or several arguments, or star-arguments."""
  vals = list(call.args) + [k.value for k in call.keywords]
  if len(vals) != 1 or isinstance(vals[0], ast.Starred) or \
      any(k.arg is None for k in call.keywords):
    return None
  return vals[0]


def need(found, what, fn=None):
  """The structure a clause is about must have been located; otherwise the clause is undecided
  (AnalysisError), never violated: a violation is reported only for a mechanism that was found
  and seen broken."""
  if not found:
    raise AnalysisError("%s%s not identified in the code as it is now written: cannot decide"
                        % ((fn.qualname + ": ") if fn is not None else "", what))
  return found


def repo_callees(world, fn, call):
  """Repo functions a call resolves to (same class / same module / imported module), or []."""
  cg = getattr(world, "_cg_F", None)
  if cg is None:
    from ..callgraph import CallGraph
    cg = world._cg_F = CallGraph(world)
  try:
    return list(cg.resolve(fn, call))
  except Exception:
    return []


def locate(world, qualname):
  """Qualified name under which an anchor function is found now. The given name first; when it is
  gone, the one function of the same module that carries the same (private) name elsewhere -- a
  self-less method moved to module level, a module function moved into a class, a method moved to
  another class of the module. AnalysisError when there is none or several."""
  repo = world.repo
  if repo.has_func(qualname):
    return qualname
  parts = qualname.split(".")
  name = parts[-1]
  # the module is the longest prefix that names one
  mod = None
  for i in range(len(parts) - 1, 0, -1):
    try:
      mod = repo.module(".".join(parts[:i]))
      break
    except Exception:
      continue
  if mod is None:
    raise AnalysisError("anchor function vanished: %s" % qualname)
  cands = [q for q, fi in repo.funcs.items()
           if fi.module is mod and q.rsplit(".", 1)[-1] == name and fi.parent is None]
  if len(cands) == 1:
    return cands[0]
  raise AnalysisError("anchor function vanished: %s%s" % (
    qualname, " (several functions of that name)" if cands else ""))


def own_params(fn):
  """Parameters of a function without the receiver of a method."""
  ps = list(fn.fi.params())
  if getattr(fn.fi, "cls", None) is not None and ps[:1] in (["self"], ["cls"]):
    ps = ps[1:]
  return ps
