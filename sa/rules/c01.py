"""C01 Undo restores the exact prior document -- structural clauses (DESIGN.md section 4, C01)."""
import ast
from ..fn import World
from ..index import AnalysisError, dotted
from ..astutil import text, short, endswith, calls_in, walk_no_nested, names_loaded, stmt_defs
from .. import events as E
from .. import types as T
from ._h_E import decide, anchors_of, analysed_separately, cname, calls_E, nodes_calling_E, Flow, arg, argn, nargs, return_cases, own_helper, mutation_nodes_deep, args_by_params

EXPLANATION = (
  "Decides the structural pairing behind undo: every path through every DocActions method that "
  "mutates engine state records an inverse action of the right kind (R1,R2), the inverse's values "
  "are read from the pre-state (R3), undo actions are replayed in reverse and stored ones forward "
  "(R4), rollback trims every action list at the checkpoint (R5), the ModifyColumn undo "
  "re-ordering is exception-safe (R6), calc deltas put 'before' values into undo and 'after' "
  "values into stored with rename-aware front restores (R7), and column storage / the schema are "
  "written only by functions that take part in this pairing (R8), and every cell value captured "
  "for an undo record is read as stored (raw_get), never through a type-normalising accessor "
  "(R9). Not decided: equality of "
  "recorded and prior values for every data shape.")

# inverse(M): primary inverse kind(s), and data-restoring extras that must be appended *before*
# the primary (undo replays in reverse, so they run after the entity exists again).
INVERSE = {
  "BulkAddRecord":    (("BulkRemoveRecord",), ()),
  "BulkRemoveRecord": (("BulkAddRecord",), ()),
  "BulkUpdateRecord": (("BulkUpdateRecord",), ()),
  "ReplaceTableData": (("ReplaceTableData",), ()),
  "AddColumn":        (("RemoveColumn",), ()),
  "RemoveColumn":     (("AddColumn",), ("BulkUpdateRecord",)),
  "RenameColumn":     (("RenameColumn",), ()),
  "ModifyColumn":     (("ModifyColumn",), ()),
  "AddTable":         (("RemoveTable",), ()),
  "RemoveTable":      (("AddTable",), ("BulkAddRecord",)),
  "RenameTable":      (("RenameTable",), ()),
}
# single-record forms delegate to their bulk sibling
DELEGATES = {"AddRecord": "BulkAddRecord", "RemoveRecord": "BulkRemoveRecord",
             "UpdateRecord": "BulkUpdateRecord"}

STATE_READS = ("raw_get", "fetch_table", "get_cell_value", "safe_get")


def check(run, repo, tier):
  # each rule is decided on the code as written; when it is not satisfied there, it is asked again
  # on the view with private helpers inlined (see _h_E.decide), so statements moved into a new
  # helper keep their place
  import os
  _HERE = os.path.dirname(os.path.abspath(__file__))
  decide(run, repo, [r1_r2_r3, r4_replay_order, r5_rollback_trim, r6_modify_reorder, r7_delta_direction, r8_ownership, r9_undo_reads_stored],
         anchors_of(os.path.join(_HERE, "c01.py"), os.path.join(_HERE, "_h_E.py"), os.path.join(_HERE, "../events.py")))


# ------------------------------------------------------------------------------------------
def _flow_of(fn):
  """One Flow per function wrapper (normal CFG)."""
  fl = getattr(fn, "_flow_E", None)
  if fl is None:
    fl = fn._flow_E = Flow(fn)
  return fl


def undo_records(w, fn, cfg=None):
  """[(cfg node, call, recorded expression or None)] for every statement of fn that puts an action
  on the undo list: out_actions.undo.append/insert itself, or a call of a helper of the same class
  that records its own argument on every path."""
  out = []
  dnames = set(w.doc_action_names())
  for (n, c, nm) in calls_E(fn, cfg):
    if E.is_undo_record(c, nm, fn):
      args = list(c.args)
      if endswith(nm, "undo.insert") and len(args) == 2:
        args = args[1:]
      out.append((n, c, args[0] if len(args) == 1 else None))
      continue
    h = own_helper(w, fn, c, exclude=dnames)
    if h is None:
      continue
    hfn = w.fn_of(h)
    hflow = _flow_of(hfn)
    hps = h.params()[1:]
    for (hn, hc, hnm) in calls_E(hfn):
      if E.is_undo_record(hc, hnm, hfn) and len(hc.args) == 1 and \
          hfn.cfg.dominated_by(hfn.cfg.exit.id, {hn.id}):
        t = hflow.itext(hc.args[0], hn.id, stop=hps)
        b = args_by_params(c, hps)
        if t in hps and b is not None and t in b:
          out.append((n, c, b[t]))
  return out


def undo_ctor_of(fn, call, names, expr=False):
  """The action constructor recorded by an undo.append/insert call: (kind, ctor Call) or None.
  Follows locals (every binding reaching the call; a None placeholder is ignored). With
  expr=<recorded expression> the expression is given by the caller (see undo_records)."""
  if expr is not False:
    if expr is None:
      return None
    args = [expr]
  else:
    args = list(call.args)
    if endswith(cname(fn, call), "undo.insert") and len(args) == 2:
      args = args[1:]
  if len(args) != 1:
    return None
  a = args[0]
  r = E.action_ctor(a, names)
  if r:
    return r
  def strip(e):
    while isinstance(e, ast.Call) and isinstance(e.func, ast.Attribute) and \
        e.func.attr == "simplify" and not e.args and not e.keywords:
      e = e.func.value
    return e
  flow = _flow_of(fn)
  kinds = []
  for nid in flow.where(call)[:1]:
    work = [(strip(a), nid)]
    ls = []
    depth = 0
    while work and depth < 20:
      depth += 1
      e_, n_ = work.pop()
      for l in flow.leaves(e_, n_, split=False):
        e2 = strip(l.expr)
        if e2 is not l.expr and isinstance(e2, ast.Name):
          work.append((e2, l.nid))
        else:
          ls.append(l)
    for l in ls:
      r = E.action_ctor(l.expr, names)
      if r:
        kinds.append(r)
      elif not (isinstance(l.expr, ast.Constant) and l.expr.value is None):
        return None
  if len(kinds) == 1:
    return kinds[0]
  return None


def r1_r2_r3(run, w):
  R1 = run.rule("C01-R1", "every path through a DocActions method that mutates state records "
                "the primary inverse action (or delegates to a sibling that does)", floor=13)
  R2 = run.rule("C01-R2", "recorded inverse is of the inverse kind, names the same table, swaps "
                "old/new for renames; data-restoring extras precede the primary inverse", floor=11)
  R3 = run.rule("C01-R3", "state reads that feed an undo record are not reachable from a "
                "mutation of the same receiver", floor=6)
  names = w.action_types()
  dnames = w.doc_action_names()
  cls = w.repo.cls("docactions.DocActions")
  unfollowed = []
  for an in dnames:
    if an not in cls.methods:
      run.ob(R1, "docactions.DocActions", an, "DocActions has a method for action type %s" % an,
             False, nontrivial=False)
      continue
    fn = w.fn_of(cls.methods[an])
    fi = fn.fi
    cfg = fn.cfg
    muts = mutation_nodes_deep(w, fn, exclude=set(dnames))
    recs = undo_records(w, fn)
    undo_calls = [(n, c) for (n, c, x) in recs]
    rec_expr = {id(c): x for (n, c, x) in recs}
    deleg = [(n, c, nm) for (n, c, nm) in calls_E(fn)
             if nm and nm.startswith("self.") and nm.split(".")[-1] in dnames and nm.count(".") == 1]
    if an in DELEGATES:
      ok = any(nm == "self." + DELEGATES[an] for (_, _, nm) in deleg) and not muts
      tgt_nodes = {n.id for (n, c, nm) in deleg if nm == "self." + DELEGATES[an]}
      ok = ok and cfg.dominated_by(cfg.exit.id, tgt_nodes)
      run.ob(R1, fi.qualname, "delegates to " + DELEGATES[an],
             "single-record form reaches its bulk sibling on every path and mutates nothing itself",
             ok, fi=fi)
      continue
    if an not in INVERSE:
      raise AnalysisError("new doc action type %s has no entry in the inverse-kind table" % an)
    primary, extras = INVERSE[an]
    prim_nodes, extra_nodes = set(), set()
    for (n, c) in undo_calls:
      k = undo_ctor_of(fn, c, names, expr=rec_expr[id(c)])
      if k is None:
        # built somewhere the rule cannot see (not: seen and wrong)
        unfollowed.append("%s: undo record `%s` is not built by a recognisable action "
                          "constructor" % (fi.qualname, short(c, 70)))
        continue
      kind, ctor = k
      if kind in primary:
        prim_nodes.add(n.id)
        r = check_ctor_args(fn, an, kind, ctor)
        if r is None:
          unfollowed.append("%s: arguments of `%s` cannot be related to the parameters"
                            % (fi.qualname, short(ctor, 70)))
        else:
          run.ob(R2, fi.qualname, short(ctor), "inverse kind %s is inverse(%s) with matching "
                 "arguments" % (kind, an), r, fi=fi, node=ctor)
      elif kind in extras:
        extra_nodes.add(n.id)
        r = first_arg_is_table_param(fn, ctor)
        if r is None:
          unfollowed.append("%s: table argument of `%s` cannot be related to the parameters"
                            % (fi.qualname, short(ctor, 70)))
        else:
          run.ob(R2, fi.qualname, short(ctor), "data-restoring %s names the same table" % kind,
                 r, fi=fi, node=ctor)
      else:
        run.ob(R2, fi.qualname, short(ctor), "%s is not an inverse kind of %s" % (kind, an),
               False, fi=fi, node=ctor)
    # formula-column restore goes through summary.add_changes (RemoveColumn)
    sum_nodes = nodes_calling_E(fn, E.is_summary_add_changes)
    # R1: no entry->mutation->normal exit path avoiding the primary inverse
    if not muts:
      unfollowed.append("%s: no state mutation recognised (mechanism moved?)" % fi.qualname)
      continue
    bad = None
    reach_from_entry = cfg.reach({cfg.entry.id}, removed=prim_nodes)
    for m in sorted(muts):
      if m in reach_from_entry or m in prim_nodes:
        if m in prim_nodes:
          continue
        after = cfg.reach_after({m}, removed=prim_nodes)
        if cfg.exit.id in after:
          bad = m
          break
    wit = None
    if bad is not None:
      p1 = cfg.path(cfg.entry.id, {bad}, removed=prim_nodes) or []
      p2 = cfg.path(bad, {cfg.exit.id}, removed=prim_nodes, after=True) or []
      wit = cfg.describe_path(p1 + p2[1:])
    run.ob(R1, fi.qualname, "mutation paired with undo record of kind %s" % "/".join(primary),
           "every normal path that mutates state also appends the primary inverse",
           bad is None, witness=wit, fi=fi, missing=not prim_nodes,
           node=cfg.nodes[bad].stmt if bad is not None else None)
    # data-restoring extras exist where the action destroys data
    if extras:
      run.ob(R2, fi.qualname, "data-restoring undo of kind %s" % "/".join(extras),
             "an action that destroys cell data records an undo that restores it",
             bool(extra_nodes), fi=fi, missing=True)
    if an == "RemoveColumn":
      run.ob(R2, fi.qualname, "summary.add_changes for formula columns",
             "values of a removed formula column are recorded in the calc summary",
             bool(sum_nodes), fi=fi, missing=True)
    # extras precede primary
    for x in sorted(extra_nodes):
      before = not (cfg.reach_after(prim_nodes) & {x})
      run.ob(R2, fi.qualname, short(cfg.nodes[x].stmt),
             "data-restoring undo is appended before the primary inverse (replayed after it)",
             before, fi=fi, node=cfg.nodes[x].stmt)
    # extras for formula columns: add_changes also before the primary
    for x in sorted(sum_nodes):
      before = not (cfg.reach_after(prim_nodes) & {x})
      run.ob(R2, fi.qualname, short(cfg.nodes[x].stmt),
             "calc-summary restore is recorded before the primary inverse", before, fi=fi,
             node=cfg.nodes[x].stmt)
    r3_prestate(run, R3, fn, undo_calls, muts)
  if unfollowed:
    raise AnalysisError(unfollowed[0])


def param_names(fn):
  return fn.fi.params()[1:]


def _ctor_args(fn, kind, ctor):
  """Arguments of an action constructor in field order (keywords bound by the action type's own
  field names); None when they cannot be bound."""
  fields = fn.world.action_types().get(kind)
  if any(isinstance(a, ast.Starred) for a in ctor.args) or fields is None:
    return None
  out = list(ctor.args)
  kw = {k.arg: k.value for k in ctor.keywords}
  for f in fields[len(out):]:
    if f not in kw:
      break
    out.append(kw[f])
  return out


def _is_param(fn, ctor, e, param):
  """`e` (an argument of ctor) denotes the method's parameter `param`."""
  flow = _flow_of(fn)
  ws = flow.where(ctor)
  if not ws:
    return None
  ps = param_names(fn)
  t = flow.itext(e, ws[0], stop=tuple(ps))
  if t == param:
    return True
  # positively something else: another parameter of the method, or a literal
  if t in ps or isinstance(flow.resolve(e, ws[0])[0], ast.Constant):
    return False
  return None      # an expression the rule cannot relate to the parameters


def _all3(vals):
  """Three-valued conjunction: False if any is False, else None if any is None, else True."""
  vals = list(vals)
  return False if False in vals else (None if None in vals else True)


def _from_param(fn, ctor, e, param):
  """`e` is the parameter or a local computed from it (e.g. the row ids filtered to the rows that
  exist)."""
  r = _is_param(fn, ctor, e, param)
  if r is not None:
    return r
  flow = _flow_of(fn)
  if flow.du.flows_from(lambda x: isinstance(x, ast.Name) and x.id == param, e):
    return True
  return None


def first_arg_is_table_param(fn, ctor):
  ps = param_names(fn)
  if not ctor.args and not ctor.keywords:
    return False
  a = ctor.args[0] if ctor.args else None
  if isinstance(a, ast.Starred):
    # actions.X(*old_data): table id comes from fetch_table(<table param>)
    flow = _flow_of(fn)
    ws = flow.where(ctor)
    if not ws:
      return None
    ls = flow.leaves(a.value, ws[0])
    if not ls or not all(isinstance(l.expr, ast.Call) and nargs(l.expr) >= 1 and
                         argn(fn.world, fn, l.expr, 0) is not None for l in ls):
      return None
    return all(flow.itext(argn(fn.world, fn, l.expr, 0), l.nid, stop=(ps[0],)) == ps[0]
               for l in ls)
  args = _ctor_args(fn, dotted(ctor.func).split(".")[-1], ctor)
  if not args:
    return None
  return _is_param(fn, ctor, args[0], ps[0])


def check_ctor_args(fn, an, kind, ctor):
  """True / False / None (the arguments cannot be related to the method's parameters)."""
  ps = param_names(fn)
  args = _ctor_args(fn, kind, ctor)
  if an == "RenameColumn":
    if args is None or len(args) != 3:
      return None
    return _all3(_is_param(fn, ctor, a, p_) for a, p_ in zip(args, [ps[0], ps[2], ps[1]]))
  if an == "RenameTable":
    if args is None or len(args) != 2:
      return None
    return _all3(_is_param(fn, ctor, a, p_) for a, p_ in zip(args, [ps[1], ps[0]]))
  first = first_arg_is_table_param(fn, ctor)
  if an in ("AddColumn", "ModifyColumn", "RemoveColumn"):
    if args is None or len(args) < 2:
      return _all3([first, None])
    return _all3([first, _is_param(fn, ctor, args[1], ps[1])])
  if an in ("BulkAddRecord", "BulkRemoveRecord", "BulkUpdateRecord"):
    # row ids: the row_ids parameter (possibly rebound to a filtered version of itself)
    if args is None or len(args) < 2:
      return _all3([first, None])
    return _all3([first, _from_param(fn, ctor, args[1], ps[1])])
  return first


def r3_prestate(run, R3, fn, undo_calls, muts):
  """Reads feeding undo args must not come after a mutation of the same receiver."""
  from ..dataflow import DefUse
  cfg = fn.cfg
  fi = fn.fi
  du = DefUse(fn)
  mut_recv = {}
  for (n, c, nm) in calls_E(fn):
    if n.id in muts and (E.is_column_mutation(c, nm, fn) or E.is_engine_mutation(c, nm, fn)):
      rv = c.func.value
      mut_recv.setdefault(n.id, set()).add(rv.id if isinstance(rv, ast.Name) else None)
  for m in muts:
    mut_recv.setdefault(m, {None})
  for (un, uc) in undo_calls:
    feed = du.backward_slice([uc]) | {un.id}
    for d in sorted(feed):
      node = cfg.nodes[d]
      reads = [c for c in calls_in(node.exprs) if isinstance(c.func, ast.Attribute) and
               c.func.attr in STATE_READS]
      for e in node.exprs:
        for x in walk_no_nested(e):
          if isinstance(x, ast.Subscript) and isinstance(x.ctx, ast.Load) and \
              fn.type_of(x.value) in E.SCHEMA_TAGS:
            reads.append(x)
      if not reads:
        continue
      bad = None
      for m in sorted(muts):
        if m == d:
          continue
        for recv in mut_recv[m]:
          rebind = du.rebinders(recv) if recv else set()
          if d in rebind:
            continue
          if d in cfg.reach_after({m}, removed=rebind):
            bad = (m, recv)
            break
        if bad:
          break
      run.ob(R3, fi.qualname, short(node.stmt if node.kind == "stmt" else node.exprs[0]),
             "pre-state read feeding the undo record is not reachable from a mutation of the "
             "same receiver", bad is None,
             witness=("read again after the mutation at L%d (receiver %s not rebound in between)"
                      % (cfg.nodes[bad[0]].lineno, bad[1])) if bad else None,
             fi=fi, node=node.stmt)


# ------------------------------------------------------------------------------------------
def r4_replay_order(run, w):
  R4 = run.rule("C01-R4", "ApplyUndoActions replays its argument reversed, ApplyDocActions "
                "forward; both decode with action_from_repr and go through the gateway", floor=2)
  for meth, want_rev in (("ApplyUndoActions", True), ("ApplyDocActions", False)):
    fn = w.fn("useractions.UserActions." + meth)
    flow = _flow_of(fn)
    p = fn.fi.params()[1]
    ok = False
    desc = "no loop over the parameter"
    def order_of(it, nid):
      """(reversed?, base expression) of an iterable, through local aliases."""
      it, nid = flow.resolve(it, nid)
      rev = False
      base = it
      if isinstance(it, ast.Call) and dotted(it.func) == "reversed" and len(it.args) == 1:
        rev, base = True, it.args[0]
      elif isinstance(it, ast.Subscript) and isinstance(it.slice, ast.Slice) and \
          it.slice.lower is None and it.slice.upper is None and \
          isinstance(it.slice.step, ast.UnaryOp) and isinstance(it.slice.step.op, ast.USub) and \
          isinstance(it.slice.step.operand, ast.Constant) and it.slice.step.operand.value == 1:
        rev, base = True, it.value
      base, bn = flow.resolve(base, nid)
      while isinstance(base, ast.Call) and dotted(base.func) in ("list", "iter", "tuple") and \
          len(base.args) == 1:
        base, bn = flow.resolve(base.args[0], bn)
      return rev, base
    gateways = [(n, c) for (n, c, nm) in calls_E(fn)
                if E.is_strict_gateway_call(c, nm, fn) and nargs(c) == 1]
    n_ok = n_seen = 0
    for (n, c) in gateways:
      a = flow.resolve(argn(w, fn, c, 0), n.id) if argn(w, fn, c, 0) is not None else (None, n.id)
      if not (isinstance(a[0], ast.Call) and endswith(cname(fn, a[0]), "action_from_repr") and
              nargs(a[0]) == 1 and a[0].args):
        continue
      src = flow.loop_source(a[0].args[0], a[1])
      in_comp = None
      if src is None and isinstance(a[0].args[0], ast.Name):
        # replayed from a comprehension evaluated for its effect
        for e in fn.cfg.nodes[n.id].exprs:
          for x in walk_no_nested(e):
            if isinstance(x, (ast.ListComp, ast.GeneratorExp, ast.SetComp)) and \
                len(x.generators) == 1 and isinstance(x.generators[0].target, ast.Name) and \
                x.generators[0].target.id == a[0].args[0].id and \
                any(y is c for y in ast.walk(x.elt)):
              in_comp = x.generators[0]
        if in_comp is not None:
          src = (in_comp.iter, n.id)
      if src is None:
        continue
      rev, base = order_of(src[0], src[1])
      if not (isinstance(base, ast.Name) and base.id == p):
        continue
      n_seen += 1
      desc = "for %s in %s" % (text(a[0].args[0]), text(src[0]))
      # nothing inside the loop decides whether an action is replayed
      if in_comp is not None:
        uncond = not in_comp.ifs and not flow.required_facts(n.id)
      else:
        uncond = not flow.facts_inside(n.id, src[1]) and \
            fn.cfg.dominated_by(fn.cfg.exit.id, {src[1]})
      if rev == want_rev and uncond:
        n_ok += 1
    if not n_seen:
      raise AnalysisError("%s: no replay of the parameter through action_from_repr and the "
                          "gateway recognised" % fn.qualname)
    ok = n_ok == 1 and len(gateways) == 1
    run.ob(R4, fn.qualname, desc, "%s order, decode, gateway" %
           ("reversed" if want_rev else "forward"), ok, fi=fn.fi)


def r5_rollback_trim(run, w):
  R5 = run.rule("C01-R5", "every list of ActionGroup is truncated by _undo_to_checkpoint at the "
                "checkpointed length; direct is cut with stored; the undo slice is read first",
                floor=6)
  init = w.fn("action_obj.ActionGroup.__init__")
  lists = []
  for s in init.node.body:
    if isinstance(s, ast.Assign) and isinstance(s.value, ast.List) and \
        isinstance(s.targets[0], ast.Attribute):
      lists.append(s.targets[0].attr)
  gc = w.fn("engine.Engine._get_undo_checkpoint")
  gflow = Flow(gc)
  cases = return_cases(gflow)
  if len(cases) != 1 or not isinstance(cases[0][1].expr, ast.Tuple):
    raise AnalysisError("_get_undo_checkpoint no longer returns one tuple")
  cp_attrs = []
  for e in cases[0][1].expr.elts:
    e = gflow.resolve(e, cases[0][1].nid)[0]
    if isinstance(e, ast.Call) and dotted(e.func) == "len" and len(e.args) == 1 and \
        isinstance(e.args[0], ast.Attribute):
      cp_attrs.append(e.args[0].attr)
    else:
      raise AnalysisError("_get_undo_checkpoint element is not len(<list attr>)")
  ut = w.fn("engine.Engine._undo_to_checkpoint")
  cfg = ut.cfg
  flow = Flow(ut)
  cp_param = ut.fi.params()[1]
  def cp_field(e, nid):
    """Which list's checkpointed length expression `e` denotes: a local unpacked from the
    checkpoint parameter, or <checkpoint>[i]."""
    e, nid = flow.resolve(e, nid)
    if isinstance(e, ast.Name):
      b = flow.binder(e.id, nid)
      if b is not None and b.kind == "stmt" and isinstance(b.stmt, ast.Assign) and \
          flow.itext(b.stmt.value, b.id, stop=(cp_param,)) == cp_param:
        for t in b.stmt.targets:
          if isinstance(t, (ast.Tuple, ast.List)):
            if len(t.elts) != len(cp_attrs):
              raise AnalysisError("checkpoint tuple arity differs between get and undo")
            for v, a in zip(t.elts, cp_attrs):
              if isinstance(v, ast.Name) and v.id == e.id:
                return a
    e2, n2 = flow.resolve(e, nid)
    if isinstance(e2, ast.Subscript) and isinstance(e2.slice, ast.Constant) and \
        isinstance(e2.slice.value, int) and \
        flow.itext(e2.value, n2, stop=(cp_param,)) == cp_param and \
        0 <= e2.slice.value < len(cp_attrs):
      return cp_attrs[e2.slice.value]
    return None
  dels = {}
  del_nodes = set()
  for n in cfg.nodes:
    s = n.stmt
    if n.kind == "stmt" and isinstance(s, ast.Delete):
      for t in s.targets:
        if isinstance(t, ast.Subscript) and isinstance(t.slice, ast.Slice) and \
            t.slice.upper is None and t.slice.lower is not None and t.slice.step is None and \
            endswith(ut.aliases.dotted(t.value) or "", *["out_actions." + a for a in lists]):
          dels[t.value.attr] = cp_field(t.slice.lower, n.id)
          del_nodes.add(n.id)
  if not dels:
    raise AnalysisError("_undo_to_checkpoint: no `del out_actions.<list>[<length>:]` found "
                        "(trimming moved?)")
  for a in lists:
    want = "stored" if a == "direct" else a
    if a in dels and dels[a] is None:
      raise AnalysisError("_undo_to_checkpoint: cannot tell which checkpointed length "
                          "out_actions.%s is cut at" % a)
    ok = a in dels and dels[a] == want
    run.ob(R5, ut.qualname, "del out_actions.%s[...]" % a,
           "list %s is truncated at the checkpointed length of %s" % (a, want), ok, fi=ut.fi)
  # the undo slice feeding ApplyUndoActions is read before any del
  slice_nodes = set()
  for n in cfg.nodes:
    for e in n.exprs:
      for x in walk_no_nested(e):
        if isinstance(x, ast.Subscript) and isinstance(x.ctx, ast.Load) and \
            endswith(ut.aliases.dotted(x.value) or "", "out_actions.undo") and \
            isinstance(x.slice, ast.Slice):
          slice_nodes.add(n.id)
          if x.slice.lower is not None and cp_field(x.slice.lower, n.id) is None:
            raise AnalysisError("_undo_to_checkpoint: cannot tell where the undo slice `%s` "
                                "starts" % short(x))
          len_ok = x.slice.lower is not None and cp_field(x.slice.lower, n.id) == "undo" \
              and x.slice.upper is None and x.slice.step is None
          run.ob(R5, ut.qualname, short(x), "undo slice starts at the checkpointed undo length",
                 len_ok, fi=ut.fi, node=x)
  apply_nodes = nodes_calling_E(ut, lambda c, nm, f: endswith(nm, "ApplyUndoActions"))
  ok = bool(slice_nodes) and bool(apply_nodes) and not (cfg.reach_after(del_nodes) & slice_nodes) \
      and all(cfg.dominated_by(a, slice_nodes) for a in apply_nodes) \
      and all(cfg.dominated_by(d, apply_nodes) for d in del_nodes)
  run.ob(R5, ut.qualname, "slice -> ApplyUndoActions -> del",
         "undo actions are captured, replayed, and only then trimmed", ok, fi=ut.fi,
         missing=not slice_nodes or not apply_nodes)


def r6_modify_reorder(run, w):
  R6 = run.rule("C01-R6", "doModifyColumn's undo.pop() is re-appended in a finally and guarded by "
                "the ModifyColumn assertion", floor=1)
  fn = w.fn("useractions.UserActions.doModifyColumn")
  cfg = fn.xcfg
  pops = [(n, c) for (n, c, nm) in calls_E(fn, cfg) if endswith(nm, "out_actions.undo.pop")]
  xflow = Flow(fn, cfg)
  if not pops:
    raise AnalysisError("doModifyColumn: undo.pop() not found (mechanism moved?)")
  for (n, c) in pops:
    # re-appends of the very value popped here (through whatever local holds it)
    apps = {m.id for (m, c2, nm) in calls_E(fn, cfg) if endswith(nm, "out_actions.undo.append")
            and len(c2.args) == 1 and
            xflow.denotes(c2.args[0], m.id, lambda v, k: v is c)}
    # every path after the pop -- normal or exceptional -- re-appends the same value
    ok = bool(apps) and cfg.postdominated_by(n.id, apps, exits={cfg.exit.id, cfg.raise_exit.id},
                                             completed=True)
    wit = None
    if not ok:
      p = cfg.path(n.id, {cfg.exit.id, cfg.raise_exit.id}, removed=apps, after=True,
                   completed=True)
      wit = cfg.describe_path(p)
    run.ob(R6, fn.qualname, short(n.stmt), "popped undo action is re-appended on every path, "
           "exceptional ones included", ok, witness=wit, fi=fn.fi, node=n.stmt, missing=not apps)
    # dominated by assert isinstance(undo[-1], actions.ModifyColumn)
    asserts = set()
    for a in cfg.nodes:
      if a.kind == "assert":
        t = xflow.resolve(a.stmt.test, a.id)[0]
        if isinstance(t, ast.Call) and dotted(t.func) == "isinstance" and len(t.args) == 2 and \
            endswith(dotted(t.args[1]), "ModifyColumn"):
          last = xflow.resolve(t.args[0], a.id)[0]
          if isinstance(last, ast.Subscript) and text(last.slice) == "-1" and \
              endswith(cname(fn, xflow.inline(last.value, a.id)) or "", "out_actions.undo"):
            asserts.add(a.id)
    def is_modify_test(e, i):
      t_ = xflow.resolve(e, i)[0]
      if not (isinstance(t_, ast.Call) and dotted(t_.func) == "isinstance" and
              len(t_.args) == 2 and endswith(dotted(t_.args[1]), "ModifyColumn")):
        return False
      last_ = xflow.resolve(t_.args[0], i)[0]
      return isinstance(last_, ast.Subscript) and text(last_.slice) == "-1" and \
          endswith(cname(fn, xflow.inline(last_.value, i)) or "", "out_actions.undo")
    checked = (bool(asserts) and cfg.dominated_by(n.id, asserts)) or \
        xflow.guarded(n.id, is_modify_test, True)
    if not checked and not asserts:
      raise AnalysisError("doModifyColumn: no check that undo[-1] is the ModifyColumn inverse "
                          "recognised before the pop")
    run.ob(R6, fn.qualname, "assert isinstance(undo[-1], ModifyColumn)",
           "the pop is dominated by the check that the popped action is the ModifyColumn inverse",
           checked, fi=fn.fi, node=n.stmt)


def delta_builders(w, fn, p_delta):
  """Functions that build an update action from the column delta by an index parameter --
  `<delta>[r][<param>]` -- whether written as a closure of fn (capturing the delta) or as a
  method / module-level function taking the delta explicitly:
  [{name, fi_or_node, params, idx, delta (param name or None when captured)}]."""
  from ._h_E import callgraph
  cands = {}
  for s in ast.walk(fn.node):
    if isinstance(s, ast.FunctionDef) and s is not fn.node:
      cands[s.name] = (s, [a.arg for a in s.args.args], True)
  cg = callgraph(w)
  for (n, c, nm) in calls_E(fn):
    for t in cg.resolve(fn, c):
      if t.parent is None and t.qualname != fn.qualname and t.module is fn.fi.module:
        ps = t.params()
        if t.cls is not None:
          ps = ps[1:]
        cands.setdefault(t.name, (t.node, ps, False))
  out = []
  for name, (node, ps, closure) in cands.items():
    for x in ast.walk(node):
      if isinstance(x, ast.Subscript) and isinstance(x.value, ast.Subscript) and \
          isinstance(x.value.value, ast.Name) and isinstance(x.slice, ast.Name) and \
          x.slice.id in ps:
        d = x.value.value.id
        if closure and d == p_delta and d not in ps:
          out.append({"name": name, "node": node, "params": ps, "idx": x.slice.id, "delta": None})
          break
        if d in ps:
          out.append({"name": name, "node": node, "params": ps, "idx": x.slice.id, "delta": d})
          break
  return out


def r7_delta_direction(run, w):
  R7 = run.rule("C01-R7", "_changes_to_actions: undo gets delta[0] (before), stored gets delta[1] "
                "(after); defunct restores go to the front of undo under pre-rename names", floor=5)
  fn = w.fn("action_summary.ActionSummary._changes_to_actions")
  ps = fn.fi.params()
  p_tid, p_cid, p_delta, p_stored, p_undo = ps[1], ps[2], ps[3], ps[4], ps[5]
  flow = _flow_of(fn)
  du = flow.du
  cfg = fn.cfg
  builders = {b["name"]: b for b in delta_builders(w, fn, p_delta)}
  if builders:
    b0 = sorted(builders.values(), key=lambda b: b["name"])[0]
    run.ob(R7, fn.qualname, "%s: values = [%s[r][<index param>]]" % (b0["name"], p_delta),
           "helper selects before/after by an index parameter", True, fi=fn.fi, node=b0["node"])
  else:
    run.ob(R7, fn.qualname, "values = [%s[r][<0 or 1>]] built where the action is emitted" % p_delta,
           "before/after is selected by a constant index at each emission", True, fi=fn.fi,
           nontrivial=False)

  def bind(call, b):
    params = b["params"]
    if any(isinstance(a, ast.Starred) for a in call.args) or len(call.args) > len(params):
      return None
    out = dict(zip(params, call.args))
    for k in call.keywords:
      if k.arg is None or k.arg not in params or k.arg in out:
        return None
      out[k.arg] = k.value
    return out

  def is_orig(v, k):
    return isinstance(v, ast.Call) and isinstance(v.func, ast.Attribute) and \
        v.func.attr == "original_name"

  def const_int(e, k):
    e = flow.resolve(e, k)[0]
    if isinstance(e, ast.Constant) and isinstance(e.value, int) and not isinstance(e.value, bool):
      return e.value
    return None

  def indices_of(value, nid):
    """(set of delta indices the written value is built from, pre-rename names used?) or None
    when the construction cannot be followed."""
    ks, names_ok = set(), True
    for l in flow.leaves(value, nid):
      e = l.expr
      callee = dotted(e.func).split(".")[-1] if isinstance(e, ast.Call) and dotted(e.func) else None
      if callee in builders:
        b = builders[callee]
        bd = bind(e, b)
        if bd is None or b["idx"] not in bd:
          return None
        if b["delta"] is not None and (b["delta"] not in bd or
                                       flow.itext(bd[b["delta"]], l.nid, stop=ps) != p_delta):
          return None
        k = const_int(bd[b["idx"]], l.nid)
        if k is None:
          return None
        ks.add(k)
        extra = [bd.get(p_) for p_ in b["params"][b["params"].index(b["idx"]) + 1:]]
        names_ok = names_ok and len(extra) == 2 and all(
          x is not None and flow.denotes(x, l.nid, is_orig) for x in extra)
        continue
      # built in place: look for <delta>[r][<constant>] in what feeds the value
      found = set()
      for (root, _k) in flow.feeding(e, l.nid):
        for x in ast.walk(root):
          if isinstance(x, ast.Subscript) and isinstance(x.value, ast.Subscript) and \
              isinstance(x.value.value, ast.Name) and x.value.value.id == p_delta:
            k = x.slice.value if isinstance(x.slice, ast.Constant) else None
            if not isinstance(k, int) or isinstance(k, bool):
              return None
            found.add(k)
      if not found:
        return None
      ks |= found
      names_ok = names_ok and du.flows_from(lambda v: is_orig(v, None), e)
    return ks, names_ok

  n_st = n_un = n_front = 0
  unfollowed = []
  for (n, c, nm) in calls_E(fn):
    if nm in (p_stored + ".append", p_undo + ".append", p_undo + ".insert",
              p_stored + ".insert", p_stored + ".extend", p_undo + ".extend"):
      args = list(c.args)
      front = nm.endswith(".insert")
      pos_ok = True
      if front:
        pos = flow.resolve(args[0], n.id)[0] if args else None
        pos_ok = isinstance(pos, ast.Constant) and pos.value == 0 and \
            not isinstance(pos.value, bool)
        args = args[1:]
      got = indices_of(args[0], n.id) if args else None
      if got is None:
        unfollowed.append(short(c))
        continue
      ks, names_ok = got
      want = 1 if nm.startswith(p_stored + ".") else 0
      ok = ks == {want}
      if front:
        n_front += 1
        ok = ok and pos_ok and names_ok and nm.startswith(p_undo + ".")
      elif nm.startswith(p_stored + "."):
        n_st += 1
      else:
        n_un += 1
      run.ob(R7, fn.qualname, short(c),
             "%s receives delta index %d%s" % ("stored" if want else "undo", want,
                                               " at the front, pre-rename names" if front else ""),
             ok, fi=fn.fi, node=c)
  if unfollowed:
    raise AnalysisError("_changes_to_actions: cannot follow how the action written by `%s` is "
                        "built from the column delta" % unfollowed[0])
  if not (n_st and n_un and n_front):
    raise AnalysisError("_changes_to_actions: stored / undo / front-restore writes to the out "
                        "lists not all found (%d/%d/%d)" % (n_st, n_un, n_front))
  # original_name() reads happen before table_id/col_id are rewritten by root_name()
  orig_nodes = nodes_calling_E(fn, lambda c, nm, f: endswith(nm, "original_name"))
  rewrite = set()
  for n in cfg.nodes:
    if n.kind == "stmt" and isinstance(n.stmt, ast.Assign) and \
        isinstance(n.stmt.targets[0], ast.Name) and n.stmt.targets[0].id in (p_tid, p_cid):
      rewrite.add(n.id)
  if not orig_nodes:
    raise AnalysisError("_changes_to_actions: no original_name() call found")
  ok = not (cfg.reach_after(rewrite) & orig_nodes)
  run.ob(R7, fn.qualname, "original_name() before root_name() rewrite",
         "pre-rename names are resolved before table_id/col_id are rewritten", ok, fi=fn.fi)


# ------------------------------------------------------------------------------------------
# Functions allowed to call column mutators, with the reason each takes part in undo pairing.
MUTATOR_OWNERS = {
  "engine.Engine.add_records": "loading / BulkAddRecord body; paired by DocActions.BulkAddRecord",
  "engine.Engine.load_table": "initial load and ReplaceTableData body",
  "engine.Engine._recompute_step": "formula results; recorded through _changes_map (C02-R3)",
  "useractions.UserActions.doModifyColumn": "type conversion; recorded via summary.add_changes",
}
SCHEMA_OWNERS = {
  "engine.Engine.__init__": "initial empty schema",
  "engine.Engine.load_meta_tables": "schema built from metadata at load",
  "engine.Engine.apply_doc_action": "restore of the saved schema when a schema action fails",
}


def _helper_of_owners(w, fi, is_owner, depth=2):
  """Every call site of fi lies in an owner, or in a function of which the same holds: statements
  of an owner that were extracted into a helper keep their place in the undo pairing (the helper
  call counts as the owner's mutation in R1-R3)."""
  from ._h_E import callgraph
  cg = callgraph(w)
  if not hasattr(cg, "_callers"):
    cg.reaches(set())
  callers = cg._callers.get(fi.qualname, set())
  if not callers:
    return False
  for q in callers:
    cfi = w.repo.funcs.get(q)
    if cfi is None:
      return False
    if is_owner(cfi) or (depth > 0 and cfi.qualname != fi.qualname and
                         _helper_of_owners(w, cfi, is_owner, depth - 1)):
      continue
    return False
  return True


def r8_ownership(run, w):
  R8 = run.rule("C01-R8", "column storage and Engine.schema are written only by DocActions "
                "methods, the named engine/loader functions and the column classes themselves",
                floor=10)
  dnames = set(w.doc_action_names())
  for fi in w.repo.all_functions():
    if not analysed_separately(w, fi):
      continue
    fn = w.fn_of(fi)
    fi = fn.fi
    in_column_class = fi.cls is not None and (w.typer.is_column(fi.cls.qualname) or
                                              fi.module.name in ("column", "lookup"))
    is_docaction = fi.cls is not None and fi.cls.qualname == "docactions.DocActions" and \
        fi.name in dnames
    calls = None
    try:
      calls = calls_E(fn)
    except AnalysisError:
      raise
    def docaction(f):
      return f.cls is not None and f.cls.qualname == "docactions.DocActions" and f.name in dnames
    for (n, c, nm) in calls:
      if E.is_column_mutation(c, nm, fn):
        ok = in_column_class or is_docaction or fi.qualname in MUTATOR_OWNERS
        ok = ok or _helper_of_owners(w, fi, lambda f: docaction(f) or f.qualname in MUTATOR_OWNERS)
        run.ob(R8, fi.qualname, short(c), "column mutator called from an owner of undo pairing",
               ok, fi=fi, node=c, nontrivial=False)
    sw = E.schema_write_nodes(fn)
    for s in sorted(sw):
      ok = is_docaction or fi.qualname in SCHEMA_OWNERS
      ok = ok or _helper_of_owners(w, fi, lambda f: docaction(f) or f.qualname in SCHEMA_OWNERS)
      run.ob(R8, fi.qualname, short(fn.cfg.nodes[s].stmt), "schema written from a schema owner",
             ok, fi=fi, node=fn.cfg.nodes[s].stmt, nontrivial=False)
    # raw storage writes (self._data...) outside the column module
    if fi.module.name not in ("column", "lookup", "parse_data"):
      for x in ast.walk(fi.node):
        if isinstance(x, ast.Attribute) and x.attr == "_data" and \
            isinstance(x.ctx, (ast.Store, ast.Del)):
          run.ob(R8, fi.qualname, short(x), "raw column storage written outside column classes",
                 False, fi=fi, node=x, nontrivial=False)


# accessors that give a column's value after type normalisation (wrong-typed cells -- alt text,
# stored errors -- come back as the default / a converted value): not what undo has to restore
NORMALISING_READS = ("safe_get", "get_cell_value", "convert")


def r9_undo_reads_stored(run, w):
  R9 = run.rule("C01-R9", "cell values captured for an undo record (or for the calc-summary "
                "restore) are read with raw_get, never through safe_get / get_cell_value / "
                "convert", floor=6)
  names = w.action_types()
  dnames = w.doc_action_names()
  cls = w.repo.cls("docactions.DocActions")
  def normalising(root):
    return [x for x in ast.walk(root) if isinstance(x, ast.Call) and
            isinstance(x.func, ast.Attribute) and x.func.attr in NORMALISING_READS]
  for an in dnames:
    if an not in cls.methods or an in DELEGATES:
      continue
    fn = w.fn_of(cls.methods[an])
    flow = _flow_of(fn)
    captured = [(n, c, x) for (n, c, x) in undo_records(w, fn) if x is not None]
    for (n, c, nm) in calls_E(fn):
      if E.is_summary_add_changes(c, nm, fn) and c.args:
        captured.append((n, c, c.args[-1]))
    for (n, c, x) in captured:
      bad = []
      for (e, k) in flow.feeding(x, n.id):
        bad.extend(normalising(e))
      run.ob(R9, fn.qualname, short(c), "what undo will restore is the value as stored, wrong-typed "
             "cells included", not bad, witness="value read through `%s`" % short(bad[0], 70)
             if bad else None, fi=fn.fi, node=bad[0] if bad else c)
  # RemoveTable / ReplaceTableData take their undo data from Engine.fetch_table
  ft = w.fn("engine.Engine.fetch_table")
  bad = [x for s_ in ft.node.body for x in normalising(s_)]
  reads = [x for x in ast.walk(ft.node) if isinstance(x, ast.Call) and
           isinstance(x.func, ast.Attribute) and x.func.attr == "raw_get"]
  if not reads and not bad:
    raise AnalysisError("fetch_table: no column read recognised")
  run.ob(R9, ft.qualname, "column values read with raw_get", "fetched table data (the source of "
         "the RemoveTable / ReplaceTableData undo) holds the stored values", not bad, fi=ft.fi,
         node=bad[0] if bad else None)


D = "sandbox/grist/docactions.py"
U = "sandbox/grist/useractions.py"
VARIANTS = [
  ("drop-undo-addcolumn", D,
   "    self._engine.out_actions.undo.append(actions.RemoveColumn(table_id, col_id))\n", "", "C01-R1"),
  ("undo-only-when-values", D,
   "    self._engine.out_actions.undo.append(\n        actions.BulkUpdateRecord(table_id, row_ids, undo_values).simplify())\n\n    # Load the updated values.",
   "    if any(undo_values.values()):\n      self._engine.out_actions.undo.append(\n        actions.BulkUpdateRecord(table_id, row_ids, undo_values).simplify())\n\n    # Load the updated values.",
   "C01-R1"),
  ("rename-undo-not-swapped", D,
   "actions.RenameColumn(table_id, new_col_id, old_col_id)", "actions.RenameColumn(table_id, old_col_id, new_col_id)", "C01-R2"),
  ("renametable-undo-not-swapped", D,
   "actions.RenameTable(new_table_id, old_table_id)", "actions.RenameTable(old_table_id, new_table_id)", "C01-R2"),
  ("wrong-inverse-kind", D,
   "self._engine.out_actions.undo.append(actions.RemoveTable(table_id))",
   "self._engine.out_actions.undo.append(actions.RemoveColumn(table_id, 'id'))", "C01-R2"),
  ("restore-after-addtable", D,
   """    undo_action = actions.BulkAddRecord(*table_data).simplify()
    if undo_action:
      self._engine.out_actions.undo.append(undo_action)
""", "    undo_action = actions.BulkAddRecord(*table_data).simplify()\n",
   "C01-R2"),
  ("read-after-set", D,
   """    # Collect the undo values.
    undo_values = {}
    for col_id in columns:
      col = table.get_column(col_id)
      undo_values[col_id] = [col.raw_get(r) for r in row_ids]

    # Generate the undo action. This is done before changing anything, so that if we fail
    # part-way (e.g. on an unknown column), the changes already made can be reverted.
    self._engine.out_actions.undo.append(
        actions.BulkUpdateRecord(table_id, row_ids, undo_values).simplify())

    # Load the updated values.
    for col_id, values in columns.items():
      col = table.get_column(col_id)
      for (row_id, value) in zip(row_ids, values):
        col.set(row_id, value)
""", """    undo_values = {}
    for col_id, values in columns.items():
      col = table.get_column(col_id)
      for (row_id, value) in zip(row_ids, values):
        col.set(row_id, value)
      undo_values[col_id] = [col.raw_get(r) for r in row_ids]
    self._engine.out_actions.undo.append(
        actions.BulkUpdateRecord(table_id, row_ids, undo_values).simplify())
    for col_id, values in columns.items():
      col = table.get_column(col_id)
""", "C01-R3"),
  ("read-fused-into-set-loop", D,
   """    # Collect the undo values.
    undo_values = {}
    for col_id in columns:
      col = table.get_column(col_id)
      undo_values[col_id] = [col.raw_get(r) for r in row_ids]

    # Generate the undo action. This is done before changing anything, so that if we fail
    # part-way (e.g. on an unknown column), the changes already made can be reverted.
    self._engine.out_actions.undo.append(
        actions.BulkUpdateRecord(table_id, row_ids, undo_values).simplify())

    # Load the updated values.
    for col_id, values in columns.items():
      col = table.get_column(col_id)
      for (row_id, value) in zip(row_ids, values):
        col.set(row_id, value)
""", """    undo_values = {}
    for col_id, values in columns.items():
      col = table.get_column(col_id)
      undo_values[col_id] = old_values = []
      for (row_id, value) in zip(row_ids, values):
        old_values.append(col.raw_get(row_id))
        col.set(row_id, value)
    self._engine.out_actions.undo.append(
        actions.BulkUpdateRecord(table_id, row_ids, undo_values).simplify())
    for col_id, values in columns.items():
      col = table.get_column(col_id)
""", "C01-R3"),
  ("undo-forward", U, "for undo_action in reversed(undo_actions):", "for undo_action in undo_actions:", "C01-R4"),
  ("direct-not-trimmed", "sandbox/grist/engine.py", "      del self.out_actions.direct[len_stored:]\n", "", "C01-R5"),
  ("direct-trimmed-at-undo-len", "sandbox/grist/engine.py", "del self.out_actions.direct[len_stored:]", "del self.out_actions.direct[len_undo:]", "C01-R5"),
  ("trim-before-replay", "sandbox/grist/engine.py",
   """      self.user_actions.ApplyUndoActions([actions.get_action_repr(a) for a in undo_actions])
      del self.out_actions.calc[len_calc:]""",
   """      del self.out_actions.calc[len_calc:]
      self.user_actions.ApplyUndoActions([actions.get_action_repr(a) for a in undo_actions])""", "C01-R5"),
  ("modify-reappend-not-finally", U,
   """      try:
        self._engine.out_actions.flush_calc_changes_for_column(table_id, col_id)
      finally:
        self._engine.out_actions.undo.append(mod_action)""",
   """      self._engine.out_actions.flush_calc_changes_for_column(table_id, col_id)
      self._engine.out_actions.undo.append(mod_action)""", "C01-R6"),
  ("undo-gets-after", "sandbox/grist/action_summary.py",
   "out_undo.append(update_action(preserved_row_ids, 0))", "out_undo.append(update_action(preserved_row_ids, 1))", "C01-R7"),
  ("front-restore-appended", "sandbox/grist/action_summary.py",
   "out_undo.insert(0, update_action(defunct_row_ids, 0, orig_table_id, orig_col_id))",
   "out_undo.insert(0, update_action(defunct_row_ids, 0, table_id, col_id))", "C01-R7"),
  ("undo-values-through-safe-get", D,
   "        col_values = [column.raw_get(r) for r in row_ids]",
   "        col_values = [column.safe_get(r) for r in row_ids]", "C01-R9"),
  ("removecolumn-undo-through-safe-get", D,
   """      undo_values = [(r, column.raw_get(r)) for r in table.row_ids
                     if not strict_equal(column.raw_get(r), default)]""",
   """      row_values = ((r, column.safe_get(r)) for r in table.row_ids)
      undo_values = [(r, v) for (r, v) in row_values if not strict_equal(v, default)]""", "C01-R9"),
  ("raw-set-in-useraction", U,
   "    self._engine.update_current_time()\n",
   "    self._engine.update_current_time()\n    self._engine.tables['_grist_DocInfo'].get_column('timezone').set(1, 'UTC')\n", "C01-R8"),
]
