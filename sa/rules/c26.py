"""C26 Temporary row ids resolve consistently within a bundle -- structural clauses (DESIGN.md
section 4, C26)."""
import ast
from ..fn import World
from ..index import AnalysisError, dotted
from ..astutil import text, short, endswith, calls_in, walk_no_nested
from ..dataflow import DefUse
from .. import events as E
from .. import types as T
from . import _h_B as H

EXPLANATION = (
  "Decides the plumbing of temporary (negative) row ids. R1 (siblings): every concrete reference "
  "column class has a prepare_new_values of its own that, whenever an action summary is given, "
  "translates the incoming values through action_summary.translate_new_row_ids(<target table>, "
  "...), rejects ids that stay negative (_reject_unresolved_temp_ids, which raises for every "
  "negative id in a value or a list value) and only then delegates the translated values, with "
  "the summary, to the base class. R2: every prepare_new_values call of convert_action_values "
  "passes action_summary=self.out_actions.summary, and nobody else calls it. R3: in "
  "doBulkAddOrReplace the temp->final map is recorded (requested ids against filled ids) before "
  "values are converted and the action is built from the filled ids; in doBulkUpdateRecord and "
  "doBulkRemoveRecord the row ids are translated before the action is built and the action is "
  "built from the translated ids, and nothing computed from the ids as requested is used once "
  "they have been translated (the clean-up of references to removed rows works on the rows the "
  "temporary ids stand for); recording and translating use the same per-table map. Values are "
  "followed through reaching definitions, so locals may be renamed, copied or built by loops. Not "
  "decided: the ids allocated (C27) and the values the translated references end up with.")


def check(run, repo, tier):
  w = World(repo)
  r1_siblings(run, w)
  r2_call_sites(run, w)
  r3_row_ids(run, w)
  run.guard(r4_map_follows_rename, run, w)


# ------------------------------------------------------------------------------------------ R1
def r1_siblings(run, w):
  R1 = run.rule("C26-R1", "every concrete reference column translates new values through the "
                "action summary for its target table, rejects unresolved temporary ids, then "
                "delegates the translated values to the base class", floor=9)
  base = w.repo.cls("column.BaseReferenceColumn")
  subs = w.repo.subclasses(base, strict=True)
  if len(subs) < 2:
    raise AnalysisError("fewer than two reference column classes found")
  for ci in sorted(subs, key=lambda c: c.qualname):
    own = None
    for c in w.repo.mro(ci):
      if c is base:
        break
      if "prepare_new_values" in c.methods:
        own = c.methods["prepare_new_values"]
        break
    if own is None:
      run.ob(R1, ci.qualname, "prepare_new_values", "the class (or a reference-column ancestor "
             "below BaseReferenceColumn) defines its own prepare_new_values with temp-id "
             "translation", False, nontrivial=False)
      continue
    _r1_one(run, R1, w, own)
  # the rejecting helper
  _r1_reject_helper(run, R1, w)


def _elements_of(fn, e, outer):
  """What `for r in <e>` ranges over, relative to value variable `outer`: 'all' when e yields every
  id of the value whether it is a single id or a list (`v if isinstance(v, list) else (v,)` and
  spellings of it), 'some' when it recognisably yields only part, None when unknown."""
  e = H.deref(fn, e)
  is_outer = lambda x: isinstance(x, ast.Name) and x.id == outer
  def is_list_test(t):
    """polarity of `isinstance(outer, list[/tuple])`: True / False (negated) / None."""
    if isinstance(t, ast.UnaryOp) and isinstance(t.op, ast.Not):
      v = is_list_test(t.operand)
      return None if v is None else (not v)
    if isinstance(t, ast.Call) and dotted(t.func) == "isinstance" and len(t.args) == 2 and \
        is_outer(t.args[0]):
      kinds = [text(x) for x in (t.args[1].elts if isinstance(t.args[1], ast.Tuple)
                                 else [t.args[1]])]
      return True if "list" in kinds else None
    return None
  def single(x):
    return isinstance(x, (ast.Tuple, ast.List)) and len(x.elts) == 1 and is_outer(x.elts[0])
  if isinstance(e, ast.IfExp):
    pol = is_list_test(e.test)
    if pol is None:
      return None
    as_list, as_one = (e.body, e.orelse) if pol else (e.orelse, e.body)
    if is_outer(as_list) and single(as_one):
      return "all"
    return "some"
  if single(e) or is_outer(e):
    return "some"
  return None


def _rejecter(w):
  """The helper that rejects ids that stayed negative (_reject_unresolved_temp_ids today), found
  by role when renamed or moved: a method of the reference columns' base class (or a function of
  the module) that raises ValueError and is called from a prepare_new_values."""
  def role(fi):
    if not any(isinstance(x, ast.Raise) and isinstance(x.exc, ast.Call) and
               dotted(x.exc.func) == "ValueError" for x in ast.walk(fi.node)):
      return False
    rs = H.referrers(w, fi) if fi.cls is not None else H.name_referrers(w, fi)
    return any(g is not None and g.name == "prepare_new_values" for (g, ok) in rs)
  return H.find_by_role(w, "column.BaseReferenceColumn", "_reject_unresolved_temp_ids", role,
                        "rejection of unresolved temporary ids")


def _r1_reject_helper(run, R1, w):
  rj = w.fn_of(_rejecter(w))
  p = [x for x in rj.fi.params() if x not in ("self", "cls")][0]
  cfg = rj.cfg
  raises = [n for n in cfg.nodes if n.kind == "raise_stmt"]
  if len(raises) != 1:
    raise AnalysisError("_reject_unresolved_temp_ids: expected exactly one raise")
  chain = H.guards_of(rj.node, raises[0].stmt)
  loops = [s for (s, f) in chain if isinstance(s, ast.For)]
  if len(loops) != 2 or any(isinstance(s, (ast.While, ast.Try, ast.With)) for (s, f) in chain):
    raise AnalysisError("_reject_unresolved_temp_ids: unrecognised shape (expected two nested "
                        "loops around the raise)")
  outer_ok = H.canon(rj, loops[0].iter) == p and not loops[0].orelse and \
      isinstance(loops[0].target, ast.Name)
  outer = text(loops[0].target)
  inner = text(loops[1].target)
  cov = _elements_of(rj, loops[1].iter, outer)
  if cov is None:
    raise AnalysisError("_reject_unresolved_temp_ids: cannot tell what %s ranges over"
                        % short(loops[1].iter))
  covers = cov == "all" and isinstance(loops[1].target, ast.Name)
  # the raise is reached exactly when the id is a negative int: `r < 0` (and being an int) are the
  # only facts on the way from the inner loop header to the raise
  heads = {n.id for n in cfg.nodes if n.kind == "for"}
  inner_head = [n.id for n in cfg.nodes if n.kind == "for" and n.stmt is loops[1]][0]
  def is_neg(e):
    return isinstance(e, ast.Compare) and len(e.ops) == 1 and (
      (text(e.left) == inner and isinstance(e.ops[0], ast.Lt) and
       H.const_value(e.comparators[0]) == (True, 0)) or
      (text(e.comparators[0]) == inner and isinstance(e.ops[0], ast.Gt) and
       H.const_value(e.left) == (True, 0)))
  def is_nonneg(e):
    return isinstance(e, ast.Compare) and len(e.ops) == 1 and (
      (text(e.left) == inner and isinstance(e.ops[0], ast.GtE) and
       H.const_value(e.comparators[0]) == (True, 0)) or
      (text(e.comparators[0]) == inner and isinstance(e.ops[0], ast.LtE) and
       H.const_value(e.left) == (True, 0)))
  def is_int(e):
    return isinstance(e, ast.Call) and dotted(e.func) == "isinstance" and len(e.args) == 2 and \
        text(e.args[0]) == inner and text(e.args[1]) in ("int", "six.integer_types", "(int,)")
  # every test between the inner loop header and the raise is about the id being a negative int
  body_ifs = [n for n in cfg.nodes if n.kind == "if" and
              any(s is n.stmt for s in H.stmts_under(loops[1].body))]
  atoms = [(e, True) for n in body_ifs for e in H.test_atoms(n.stmt.test)]
  others = [e for (e, pl) in atoms if not (is_neg(e) or is_nonneg(e) or is_int(e))]
  rid = raises[0].id
  start = H.nodes_of_stmts(cfg, loops[1].body[:1])
  def assume(neg, isint):
    def val(e):
      if is_neg(e):
        return neg
      if is_nonneg(e):
        return not neg
      if is_int(e):
        return isint
      return None
    return val
  # an id that is a negative int cannot get to the next iteration (or out) without the raise
  always = not (H.reach_assuming(cfg, start, assume(True, True), removed={rid}) &
                (heads | {cfg.exit.id}))
  # an id that is not negative never raises
  guarded = rid not in H.reach_assuming(cfg, start, assume(False, True))
  exc = raises[0].stmt.exc
  is_value_error = isinstance(exc, ast.Call) and dotted(exc.func) == "ValueError"
  ok = outer_ok and covers and guarded and always and not others and is_value_error
  wit = "outer=%s covers=%s raise-only-if-negative=%s negative-always-raises=%s other-tests=%s " \
        "ValueError=%s" % (outer_ok, cov, guarded, always, [short(x, 30) for x in others],
                           is_value_error)
  run.ob(R1, rj.qualname, "for v in values: for r in (v if list else (v,)): if int and r < 0: "
         "raise ValueError", "every id of every value (single or list) that is still negative "
         "raises, so the bundle is rejected", ok, witness=wit, fi=rj.fi)


def _r1_one(run, R1, w, fi):
  fn = H.inlined_fn(w, fi.qualname)
  cfg = fn.cfg
  du = DefUse(fn)
  rd = H.ReachDefs(fn, du)
  ENTRY = H.ReachDefs.ENTRY
  ps = fi.params()
  if len(ps) < 3 or "action_summary" not in [a.arg for a in fi.node.args.args]:
    run.ob(R1, fi.qualname, "signature", "prepare_new_values takes (row_ids, values, ..., "
           "action_summary)", False, fi=fi, nontrivial=False)
    return
  p_rows, p_vals, p_sum = ps[1], ps[2], "action_summary"
  trans = [(n, c) for (n, c, nm) in fn.calls() if nm == p_sum + ".translate_new_row_ids"]
  if not trans:
    if H.hidden_in_callees(w, fn, lambda c, nm, f: isinstance(c.func, ast.Attribute) and
                           c.func.attr == "translate_new_row_ids", depth=3):
      raise AnalysisError("%s: translate_new_row_ids is only called inside a helper that could "
                          "not be read in place" % fi.qualname)
    run.ob(R1, fi.qualname, "%s.translate_new_row_ids(...)" % p_sum, "temporary ids in the new "
           "values are translated", False, fi=fi)
    return
  if len(trans) != 1:
    raise AnalysisError("%s: more than one translate_new_row_ids call" % fi.qualname)
  tn, tc = trans[0]
  tfi = w.repo.func("action_summary.ActionSummary.translate_new_row_ids")
  try:
    a_table, a1 = H.arg_of(tc, tfi, "table_id"), H.arg_of(tc, tfi, "row_ids")
  except AnalysisError:
    a_table = a1 = None
  ok = a_table is not None and H.canon(fn, a_table) == "self._target_table.table_id"
  run.ob(R1, fi.qualname, short(tc), "ids are looked up in the map of the table this column "
         "refers to", ok, fi=fi, node=tc)
  # The binding the translated values end up in: the statement evaluating the call binds a local
  # (directly, or -- for a per-element translation written as a loop -- by accumulation).
  tst = tn.stmt
  resv = None
  tdef = None              # the CFG node that (re)binds the result variable
  comp = None
  if isinstance(tst, ast.Assign) and len(tst.targets) == 1 and isinstance(tst.targets[0], ast.Name):
    resv, tdef = tst.targets[0].id, tn.id
    for x in ast.walk(tst.value):
      if isinstance(x, (ast.ListComp, ast.GeneratorExp)) and any(y is tc for y in ast.walk(x.elt)):
        comp = x
  else:
    # accumulating loop: <acc>.append(<translated or passed through>) under `for v in values`
    for nm_, ms in du.muts.items():
      if tn.id in ms:
        readers = [m.id for m in cfg.nodes if m.stmt is not None and m.id not in ms and
                   any(isinstance(y, ast.Name) and y.id == nm_ and isinstance(y.ctx, ast.Load)
                       for e_ in m.exprs if e_ is not None for y in ast.walk(e_))]
        for d in du.defs.get(nm_, ()):
          if H.def_value(cfg, d) is None:
            continue
          for at_ in readers:
            c2 = H.loop_as_comprehension(fn, du, rd, nm_, at_)
            if c2 is not None and any(y is tc or text(y) == text(tc) for y in ast.walk(c2.elt)):
              resv, tdef, comp = nm_, d, c2
              break
  # what is translated comes from the values parameter: the parameter itself, or each element of a
  # comprehension over it with untranslated elements passed through unchanged
  src_ok = False
  if a1 is not None:
    if comp is None:
      src_ok = H.whole_of(fn, rd, a1, tn.id,
                          lambda x, d: isinstance(x, str) and x == p_vals and d == ENTRY) is True
    elif isinstance(a1, ast.Name) and len(comp.generators) == 1 and \
        text(comp.generators[0].target) == a1.id and not comp.generators[0].ifs and \
        H.whole_of(fn, rd, comp.generators[0].iter, getattr(comp, "_loop_node", tn.id),
                   lambda x, d: isinstance(x, str) and x == p_vals and d == ENTRY) is True:
      e = comp.elt
      is_tc = lambda y: y is tc or text(y) == text(tc)
      src_ok = is_tc(e) or (isinstance(e, ast.IfExp) and (
        (is_tc(e.body) and text(e.orelse) == a1.id) or (is_tc(e.orelse) and text(e.body) == a1.id)))
  if resv is None:
    raise AnalysisError("%s: cannot tell which local the translated values end up in (%s)"
                        % (fi.qualname, short(tst, 70)))
  run.ob(R1, fi.qualname, "translate(%s)" % (text(a1) if a1 is not None else "?"),
         "what is translated is the incoming values (each of them), and an untranslated value is "
         "passed through unchanged", src_ok, fi=fi, node=tc)
  # the delegation to the base class
  base = w.repo.func("column.BaseReferenceColumn.prepare_new_values")
  dele = [(n, c) for (n, c, nm) in fn.calls() if isinstance(c.func, ast.Attribute) and
          c.func.attr == "prepare_new_values" and isinstance(c.func.value, ast.Call) and
          dotted(c.func.value.func) == "super"]
  if not dele:
    if H.hidden_in_callees(w, fn, lambda c, nm, f: isinstance(c.func, ast.Attribute) and
                           c.func.attr == "prepare_new_values", depth=2):
      raise AnalysisError("%s: the delegation to the base class is inside a helper" % fi.qualname)
    run.ob(R1, fi.qualname, "return super().prepare_new_values(...)", "the translated values are "
           "delegated to the base class", False, fi=fi)
    return
  is_tr = lambda x, d: isinstance(x, str) and ((x == resv and d == tdef) or
                                               (x == p_vals and d == ENTRY))
  D = {n.id for (n, c) in dele}
  rows_ok = vals_ok = sum_ok = True
  fed = False
  for (dn, dc) in dele:
    try:
      d_rows, d_vals, d_sum = (H.arg_of(dc, base, "row_ids"), H.arg_of(dc, base, "values"),
                               H.kwarg(dc, "action_summary") or
                               (dc.args[3] if len(dc.args) > 3 else None))
    except AnalysisError:
      raise AnalysisError("%s: cannot bind the arguments of %s" % (fi.qualname, short(dc)))
    rows_ok = rows_ok and d_rows is not None and H.canon(fn, d_rows) == p_rows
    sum_ok = sum_ok and d_sum is not None and H.canon(fn, d_sum) == p_sum
    vals_ok = vals_ok and d_vals is not None and isinstance(d_vals, ast.Name) and \
        H.whole_of(fn, rd, d_vals, dn.id, is_tr) is True
    fed = fed or (isinstance(d_vals, ast.Name) and tdef in _defs_feeding(fn, rd, d_vals, dn.id))
  vals_ok = vals_ok and fed
  rets = H.return_values(fn, du, rd)
  ret_ok = bool(rets) and all(any(e is dc for (dn, dc) in dele) for (n, e, at) in rets) and \
      cfg.dominated_by(cfg.exit.id, D)
  ok = rows_ok and vals_ok and sum_ok and ret_ok
  run.ob(R1, fi.qualname, "return super().prepare_new_values(row_ids, %s, ..., action_summary="
         "action_summary)" % resv, "the base class (reverse-reference adjustments) works on the "
         "translated values and the result is what the caller gets", ok, fi=fi,
         witness=None if ok else "rows=%s values=%s summary=%s returned=%s" % (
           rows_ok, vals_ok, sum_ok, ret_ok))
  # translation is skipped only when no action summary is given (or there are no values): with
  # both truthy no path gets to a delegation without translating (any other condition on the
  # way leaves both of its branches open)
  given = lambda e: True if isinstance(e, ast.Name) and e.id in (p_sum, p_vals) else None
  loop_node = getattr(comp, "_loop_node", None)
  must = {tn.id} if loop_node is None else {loop_node}
  rebound = du.rebinders(p_sum)
  unguarded = D & H.reach_assuming(cfg, {cfg.entry.id}, given, removed=must)
  g_ok = not unguarded and not rebound
  run.ob(R1, fi.qualname, "if %s: translate" % p_sum, "translation is skipped only when no action "
         "summary is given (or there are no values)", g_ok, fi=fi,
         witness=None if g_ok else "a path reaches the delegation without translating although "
                                   "an action summary (and values) were given")
  rej_fi = _rejecter(w)
  def rej_arg(c):
    a_ = [x for x in H.norm(w, fn, c).args if text(x) != "self"]
    return a_[0] if len(a_) == 1 and isinstance(a_[0], ast.Name) else None
  rej = {n.id for (n, c) in H.calls_to(w, fn, rej_fi) if rej_arg(c) is not None and
         H.whole_of(fn, rd, rej_arg(c), n.id,
                    lambda x, d: isinstance(x, str) and x == resv and d == tdef) is True}
  if not (ok and g_ok):
    return
  # with a summary: translate, then reject, then delegate
  ok_r = bool(rej) and not (D & H.reach_assuming(cfg, {cfg.entry.id}, given, removed=rej))
  run.ob(R1, fi.qualname, "translate -> self._reject_unresolved_temp_ids(%s) -> delegate" % resv,
         "with an action summary, every path to the delegation translates first and then rejects "
         "ids that stayed negative", ok_r, fi=fi,
         witness=None if ok_r else "a path from the guarded block reaches the delegation without "
                                   "the rejection of the translated values")


def _is_param_itself(fn, du, rd, e, at, param, depth=0):
  """Name e read at `at` is parameter `param` as passed in: the parameter or plain aliases of it,
  none of them mutated in place."""
  if not isinstance(e, ast.Name) or depth > 6 or du.muts.get(e.id):
    return False
  ds = rd.reaching(e.id, at)
  if not ds:
    return False
  for d in ds:
    if d == H.ReachDefs.ENTRY:
      if e.id != param:
        return False
      continue
    v = H.def_value(rd.cfg, d)
    if not (isinstance(v, ast.Name) and _is_param_itself(fn, du, rd, v, d, param, depth + 1)):
      return False
  return True


def _defs_feeding(fn, rd, e, at, depth=0):
  """Definition nodes the value of Name e at `at` may come from, through plain copies."""
  out = set()
  if not isinstance(e, ast.Name) or depth > 6:
    return out
  for d in rd.reaching(e.id, at):
    out.add(d)
    v = H.def_value(rd.cfg, d)
    if isinstance(v, ast.Name):
      out |= _defs_feeding(fn, rd, v, d, depth + 1)
  return out


# ------------------------------------------------------------------------------------------ R2
def r2_call_sites(run, w):
  R2 = run.rule("C26-R2", "convert_action_values passes action_summary=self.out_actions.summary to "
                "every prepare_new_values call; it is the only caller outside the column classes",
                floor=2)
  n = 0
  CAV = "engine.Engine.convert_action_values"
  parts = {CAV} | H.private_helpers(w, {CAV})
  for fi in w.repo.all_functions():
    if not any(isinstance(x, ast.Attribute) and x.attr == "prepare_new_values"
               for x in ast.walk(fi.node)):
      continue
    in_col = fi.cls is not None and w.typer.is_column(fi.cls.qualname)
    for c in calls_in(fi.node.body):
      if not (isinstance(c.func, ast.Attribute) and c.func.attr == "prepare_new_values"):
        continue
      if in_col and isinstance(c.func.value, ast.Call) and dotted(c.func.value.func) == "super":
        continue
      n += 1
      if fi.qualname not in parts:
        run.ob(R2, fi.qualname, short(c), "prepare_new_values is called only by "
               "Engine.convert_action_values (which supplies the action summary)", False, fi=fi,
               node=c, nontrivial=False)
        continue
      base = w.repo.func("column.BaseColumn.prepare_new_values")
      cf = w.fn_of(fi)
      try:
        kw = H.arg_of(c, base, "action_summary")
        rows = H.arg_of(c, base, base.params()[1])
      except AnalysisError:
        raise AnalysisError("convert_action_values: cannot bind the arguments of %s" % short(c))
      run.ob(R2, fi.qualname, short(c), "the call supplies the bundle's action summary, and the "
             "action's own row ids", kw is not None and
             H.canon(cf, kw) == "self.out_actions.summary" and rows is not None and
             H._pure(H.deref(cf, rows)), fi=fi, node=c)
  if n == 0:
    raise AnalysisError("no prepare_new_values call site found")
  # both halves of convert_action_values: mentioned columns, and all other data columns on adds
  fn = w.fn(CAV)
  sites = [c for q in sorted(parts) for c in calls_in(w.fn(q).node.body)
           if isinstance(c.func, ast.Attribute) and c.func.attr == "prepare_new_values"]
  run.ob(R2, fn.qualname, "explicit columns and defaulted columns", "values given explicitly and "
         "defaults of the remaining data columns both go through prepare_new_values",
         len(sites) >= 2, fi=fn.fi, nontrivial=False)


# ------------------------------------------------------------------------------------------ R3
def _ctor_sites(fn, names, kinds):
  """[(cfg node, kind, ctor Call)] for constructions of the given action kinds (by constructor or
  through a local alias of the class, e.g. ActionType = actions.X if .. else actions.Y)."""
  out = []
  for n in fn.cfg.nodes:
    for c in calls_in(n.exprs):
      r = E.action_ctor(c, names)
      if r and r[1] is c and r[0] in kinds:
        out.append((n, r[0], c))
      elif isinstance(c.func, ast.Name):
        ds = E.local_defs(fn.node, c.func.id)
        ks = set()
        for d in ds:
          ks |= H.action_names_in(d, names)
        if ds and ks and ks <= set(kinds) | {"ReplaceTableData"} and ks & set(kinds):
          out.append((n, "/".join(sorted(ks)), c))
  return out


def r3_row_ids(run, w):
  R3 = run.rule("C26-R3", "the temp->final map is recorded before values are converted; update and "
                "remove translate their row ids before building the action, from the translated "
                "ids; both sides use the same per-table map", floor=9)
  names = w.action_types()
  # --- adds
  fn = H.inlined_fn(w, "useractions.UserActions.doBulkAddOrReplace")
  cfg = fn.cfg
  du = DefUse(fn)
  ps = fn.fi.params()
  ups = [(n, c) for (n, c, nm) in fn.calls() if endswith(nm, "summary.update_new_rows_map")]
  conv = [(n, c) for (n, c, nm) in fn.calls() if endswith(nm, "convert_action_values")]
  if len(ups) != 1 or len(conv) != 1:
    raise AnalysisError("doBulkAddOrReplace: update_new_rows_map / convert_action_values not found")
  un, uc = ups[0]
  cn, cc = conv[0]
  ok = cfg.dominated_by(cn.id, {un.id}) and un.id not in cfg.reach_after({cn.id})
  run.ob(R3, fn.qualname, "update_new_rows_map(...) before convert_action_values(...)",
         "the ids allocated for this add are known to the map before any reference value of the "
         "same action is translated (rows may refer to each other)", ok, fi=fn.fi, node=uc,
         witness=None if ok else cfg.describe_path(cfg.path(cfg.entry.id, {cn.id},
                                                            removed={un.id})))
  rd = H.ReachDefs(fn, du)
  ENTRY = H.ReachDefs.ENTRY
  ufi = w.repo.func("action_summary.ActionSummary.update_new_rows_map")
  try:
    u_table, u_temp, u_final = [H.arg_of(uc, ufi, p) for p in ufi.params()[1:4]]
  except AnalysisError:
    u_table = u_temp = u_final = None
  if u_final is None or not isinstance(u_final, ast.Name):
    raise AnalysisError("doBulkAddOrReplace: cannot bind the arguments of %s" % short(uc))
  filled = u_final.id
  fdefs = rd.reaching(filled, un.id)
  # the filled ids are a copy of the requested ids (made before they are filled in), not the
  # requested list itself
  req = lambda x, d: isinstance(x, str) and x == ps[2] and d == ENTRY
  forig = H.origin_defs(rd, filled, un.id)          # looking through plain copies of the list
  fvals = [(H.def_value(cfg, d) if d != ENTRY else None, d) for d in forig]
  for (v, d) in fvals:
    if isinstance(v, ast.Call) and H.local_callee(w, fn, v) is not None:
      raise AnalysisError("doBulkAddOrReplace: the filled row ids are produced by helper %s, "
                          "which could not be read in place" % short(v, 60))
  copy_ok = bool(fvals) and all(v is not None and not isinstance(v, ast.Name) and
                                H.whole_of(fn, rd, v, d, req) is True
                                for (v, d) in fvals)
  ok = u_table is not None and H.canon(fn, u_table) == ps[1] and \
      isinstance(u_temp, ast.Name) and _is_param_itself(fn, du, rd, u_temp, un.id, ps[2]) and \
      filled != ps[2] and copy_ok and H.unrebound_at(fn, du, ps[1], un.id)
  run.ob(R3, fn.qualname, short(uc), "the map pairs the ids as requested (temporary ones "
         "included) with the ids filled in for the same positions", ok, fi=fn.fi, node=uc)
  # the fill loop is over before the map is recorded
  fills = set()
  for nm_ in du.group(filled):
    fills |= du.muts.get(nm_, set())
  ok = bool(fills) and not (cfg.reach_after({un.id}) & fills)
  run.ob(R3, fn.qualname, "%s filled before it is recorded" % filled, "the recorded final ids are "
         "final", ok, fi=fn.fi)
  same_filled = lambda x, d: isinstance(x, str) and x == filled and d in fdefs
  ctors = [x for x in _ctor_sites(fn, names, ("BulkAddRecord",)) if x[0].id == cn.id]
  ok = len(ctors) == 1
  if ok:
    k, c = ctors[0][1], ctors[0][2]
    a0, a1 = H.action_arg(c, names, k, 0), H.action_arg(c, names, k, 1)
    ok = H.action_nargs(c) == 3 and a0 is not None and H.canon(fn, a0) == ps[1] and \
        H.unrebound_at(fn, du, ps[1], cn.id) and a1 is not None and \
        H.whole_of(fn, rd, a1, cn.id, same_filled) is True
  run.ob(R3, fn.qualname, "convert_action_values(ActionType(table_id, %s, ...))" % filled,
         "the action that adds the rows uses exactly the ids recorded in the map", ok, fi=fn.fi)
  rets = [n for n in cfg.nodes if n.kind == "return"]
  run.ob(R3, fn.qualname, "return %s" % filled, "the caller is told the final ids",
         bool(rets) and all(n.stmt.value is not None and
                            H.whole_of(fn, rd, n.stmt.value, n.id, same_filled) is True
                            for n in rets), fi=fn.fi, nontrivial=False)
  # --- updates and removes
  for q, kind in (("useractions.UserActions.doBulkUpdateRecord", "BulkUpdateRecord"),
                  ("useractions.UserActions.doBulkRemoveRecord", "BulkRemoveRecord")):
    fn = H.inlined_fn(w, q)
    cfg = fn.cfg
    du = DefUse(fn)
    rd = H.ReachDefs(fn, du)
    ENTRY = H.ReachDefs.ENTRY
    ps = fn.fi.params()
    p_table, p_rows = ps[1], ps[2]
    tfi = w.repo.func("action_summary.ActionSummary.translate_new_row_ids")
    tr = []            # (node, call made in this function, table argument, rows argument)
    for (n, c, nm) in fn.calls():
      if endswith(nm, "summary.translate_new_row_ids"):
        try:
          tr.append((n, c, H.arg_of(c, tfi, "table_id"), H.arg_of(c, tfi, "row_ids")))
        except AnalysisError:
          tr.append((n, c, None, None))
        continue
      # a private helper that just returns the translation of its own parameters
      hfi = H.self_method(w, fn, c)
      if hfi is None or hfi.qualname == fn.qualname:
        continue
      h = w.fn_of(hfi)
      hdu = DefUse(h)
      hrets = H.return_values(h, hdu, H.ReachDefs(h, hdu))
      if len(hrets) == 1 and isinstance(hrets[0][1], ast.Call) and \
          endswith(h.name(hrets[0][1]), "summary.translate_new_row_ids"):
        try:
          inner = [H.deref(h, H.arg_of(hrets[0][1], tfi, p)) for p in ("table_id", "row_ids")]
          outer = [H.arg_of(c, hfi, a.id) if isinstance(a, ast.Name) and a.id in hfi.params()
                   and not hdu.rebinders(a.id) else None for a in inner]
        except AnalysisError:
          outer = [None, None]
        tr.append((n, c, outer[0], outer[1]))
    if len(tr) != 1:
      raise AnalysisError("%s: translate_new_row_ids call not found" % q)
    tn, tc, a_table, a_rows = tr[0]
    if a_table is None or a_rows is None:
      raise AnalysisError("%s: cannot bind the arguments of %s" % (q, short(tc)))
    # the translation's result is bound to a local (possibly through list(...))
    resv = None
    if isinstance(tn.stmt, ast.Assign) and len(tn.stmt.targets) == 1 and \
        isinstance(tn.stmt.targets[0], ast.Name) and \
        H.strip_wrappers(tn.stmt.value, ("list", "tuple")) is tc:
      resv = tn.stmt.targets[0].id
    if resv is None:
      raise AnalysisError("%s: the result of %s is not bound to a local" % (q, short(tc)))
    is_table = lambda e, at: isinstance(H.deref(fn, e), ast.Name) and \
        H.deref(fn, e).id == p_table and rd.reaching(p_table, at) == {ENTRY}
    raw_base = lambda x, d: isinstance(x, str) and x == p_rows and d == ENTRY
    whole = H.whole_of(fn, rd, a_rows, tn.id, raw_base)
    if whole is None:
      raise AnalysisError("%s: cannot relate %s to the requested row ids" % (q, short(a_rows)))
    run.ob(R3, q, short(tn.stmt), "all requested row ids are translated with the map of the "
           "action's own table", is_table(a_table, tn.id) and whole, fi=fn.fi, node=tn.stmt)
    sites = [(n, k, c) for (n, k, c) in _ctor_sites(fn, names, (kind,))
             if H.action_arg(c, names, k, 0) is not None and
             H.action_arg(c, names, k, 1) is not None and
             is_table(H.action_arg(c, names, k, 0), n.id)]
    # the construction for the action's own table (others, e.g. back-reference clean-up, name
    # other tables)
    if not sites:
      raise AnalysisError("%s: construction of %s(table_id, ...) not found" % (q, kind))
    tr_base = lambda x, d: isinstance(x, str) and x == resv and d == tn.id
    for (n, k, c) in sites:
      v = H.whole_of(fn, rd, H.action_arg(c, names, k, 1), n.id, tr_base)
      run.ob(R3, q, short(c), "the action is built from the translated ids: the translation "
             "dominates the construction and is the last binding of the ids that reaches it",
             v is True, fi=fn.fi, node=c,
             witness=None if v else "a value other than the result of the translation reaches "
                                    "the constructor's row ids")
    # nothing computed from the untranslated ids is used once they have been translated
    raw = H.taint(fn, du, rd, {(p_rows, ENTRY)}, stop={tn.id})
    after = cfg.reach_after({tn.id})
    stale = []
    for n in cfg.nodes:
      if n.id not in after or n.stmt is None or n.kind == "assert":
        continue
      for e in n.exprs:
        for x in (ast.walk(e) if e is not None else ()):
          if isinstance(x, ast.Name) and isinstance(x.ctx, ast.Load) and \
              any((x.id, d) in raw for d in rd.reaching(x.id, n.id)):
            stale.append((n, x.id))
    run.ob(R3, q, "no use of the untranslated ids after %s" % short(tn.stmt, 60),
           "whatever the action does with its rows after the translation (the doc action, the "
           "clean-up of references to removed rows, raw-section checks) is done for the rows the "
           "temporary ids stand for", not stale, fi=fn.fi,
           node=stale[0][0].stmt if stale else None,
           witness=("%s, computed from the ids as requested, is read at line %d"
                    % (stale[0][1], stale[0][0].lineno)) if stale else None)
  # --- the map itself
  up = w.fn("action_summary.ActionSummary.update_new_rows_map")
  tr = w.fn("action_summary.ActionSummary.translate_new_row_ids")
  accessors = set()       # qualnames of the per-table accessor(s) used (must be one)
  def per_table(callee):
    """callee (a method of the summary, or a module-level function) returns the summary's
    per-table object for its table-id parameter: every return value is built from look-ups /
    setdefault in a container keyed by that parameter. The accessor is found by this role (its
    name, _forTable today, is not relied upon)."""
    ps_ = [p_ for p_ in callee.params() if p_ not in ("self", "cls")]
    rets = [r.value for r in ast.walk(callee.node) if isinstance(r, ast.Return)]
    if not ps_ or not rets or any(r is None for r in rets):
      return False
    def keyed(e):
      for y in ast.walk(e):
        if isinstance(y, ast.Call) and isinstance(y.func, ast.Attribute) and \
            y.func.attr in ("get", "setdefault") and y.args and \
            isinstance(y.args[0], ast.Name) and y.args[0].id in ps_:
          return True
        if isinstance(y, ast.Subscript) and isinstance(y.slice, ast.Name) and y.slice.id in ps_:
          return True
      return False
    cf = w.fn_of(callee)
    return all(keyed(H.expand(cf, r, pure_only=False)) for r in rets)
  def map_attr(fn, e):
    """Attribute name when e denotes <per-table object of the table_id parameter>.<attr> (written
    inline or through locals), else None."""
    p = fn.fi.params()[1]
    x = H.expand(fn, e, pure_only=False)
    if isinstance(x, ast.Attribute) and isinstance(x.value, ast.Call):
      callee = H.local_callee(w, fn, x.value)
      if callee is not None and per_table(callee):
        args = [a_ for a_ in H.norm(w, fn, x.value).args if text(a_) != "self"]
        if len(args) == 1 and text(args[0]) == p and not DefUse(fn).rebinders(p):
          accessors.add(callee.qualname)
          return x.attr
    return None
  # update: pairs (temp, final) positionally, keeps negatives
  ps = up.fi.params()
  udu = DefUse(up)
  urd = H.ReachDefs(up, udu)
  upd = []
  for (n, c, nm) in up.calls():
    if isinstance(c.func, ast.Attribute) and c.func.attr == "update" and \
        map_attr(up, c.func.value) and len(c.args) == 1 and not c.keywords:
      arg, at = H.resolve(up, udu, urd, c.args[0], n.id)
      upd.append((c, arg, map_attr(up, c.func.value)))
  if len(upd) != 1 or not isinstance(upd[0][1], (ast.GeneratorExp, ast.ListComp, ast.DictComp)) \
      or len(upd[0][1].generators) != 1:
    raise AnalysisError("update_new_rows_map: <per-table map>.update(<pairs of zip(temp, final)>) "
                        "not recognised")
  uc, g, a = upd[0]
  gen = g.generators[0]
  pair = [g.key, g.value] if isinstance(g, ast.DictComp) else \
      (list(g.elt.elts) if isinstance(g.elt, ast.Tuple) and len(g.elt.elts) == 2 else None)
  it = H.expand(up, gen.iter)
  zipped = isinstance(it, ast.Call) and dotted(it.func) == "zip" and \
      [text(x) for x in it.args] == [ps[2], ps[3]] and not udu.rebinders(ps[2]) and \
      not udu.rebinders(ps[3])
  ok = zipped and pair is not None and isinstance(gen.target, ast.Tuple) and \
      len(gen.target.elts) == 2 and [text(x) for x in pair] == [text(x) for x in gen.target.elts]
  if ok:
    k = text(gen.target.elts[0])
    def negative(e):
      """truth of atom e for a temporary (negative, hence truthy) id."""
      if isinstance(e, ast.Name) and e.id == k:
        return True
      if isinstance(e, ast.Compare) and len(e.ops) == 1:
        l, r, op = e.left, e.comparators[0], e.ops[0]
        if text(r) == k and H.const_value(l) == (True, 0):
          l, r = r, l
          op = {ast.Lt: ast.Gt, ast.Gt: ast.Lt, ast.LtE: ast.GtE, ast.GtE: ast.LtE}.get(
            type(op), type(op))()
        if text(l) == k and H.const_value(r) == (True, 0):
          return isinstance(op, (ast.Lt, ast.LtE, ast.NotEq))
        if text(l) == k and H.const_value(r) == (True, None):
          return isinstance(op, (ast.IsNot, ast.NotEq))
      if isinstance(e, ast.Call) and dotted(e.func) == "isinstance" and len(e.args) == 2 and \
          text(e.args[0]) == k and text(e.args[1]) in ("int", "six.integer_types"):
        return True
      return None
    kept = [H.eval3(t, negative) for t in gen.ifs]
    if any(v is None for v in kept):
      raise AnalysisError("update_new_rows_map: cannot tell whether the filter %s keeps negative "
                          "ids" % short(gen.ifs[kept.index(None)]))
    ok = all(kept)
  run.ob(R3, up.qualname, "map.update((t, f) for (t, f) in zip(temp_row_ids, final_row_ids) if t "
         "and t < 0)", "every negative requested id is mapped to the id filled in at the same "
         "position", ok, fi=up.fi)
  ps = tr.fi.params()
  tdu = DefUse(tr)
  rets = H.return_values(tr, tdu, H.ReachDefs(tr, tdu))
  if not (len(rets) == 1 and isinstance(rets[0][1], (ast.ListComp, ast.GeneratorExp)) and
          len(rets[0][1].generators) == 1) and \
      not (len(rets) == 1 and isinstance(rets[0][1], ast.Call) and
           dotted(rets[0][1].func) in ("list", "tuple") and len(rets[0][1].args) == 1 and
           isinstance(rets[0][1].args[0], (ast.ListComp, ast.GeneratorExp))):
    raise AnalysisError("translate_new_row_ids: returned value is not a per-id comprehension "
                        "(or loop) over the row ids")
  lc = rets[0][1] if not isinstance(rets[0][1], ast.Call) else rets[0][1].args[0]
  gen = lc.generators[0]
  v = text(gen.target)
  e = lc.elt
  b = None
  elt_ok = False
  if isinstance(e, ast.Call) and isinstance(e.func, ast.Attribute) and e.func.attr == "get":
    b = map_attr(tr, e.func.value)
    elt_ok = [text(x) for x in e.args] == [v, v] and not e.keywords
  elif isinstance(e, ast.IfExp) and isinstance(e.test, ast.Compare) and len(e.test.ops) == 1 and \
      isinstance(e.test.ops[0], (ast.In, ast.NotIn)) and text(e.test.left) == v:
    b = map_attr(tr, e.test.comparators[0])
    hit, miss = (e.body, e.orelse) if isinstance(e.test.ops[0], ast.In) else (e.orelse, e.body)
    elt_ok = isinstance(hit, ast.Subscript) and map_attr(tr, hit.value) == b and \
        text(hit.slice) == v and text(miss) == v
  if b is None:
    raise AnalysisError("translate_new_row_ids: element %s is not a lookup in the per-table map"
                        % short(e))
  ok = H.canon(tr, gen.iter) == ps[2] and not tdu.rebinders(ps[2]) and not gen.ifs and elt_ok
  run.ob(R3, tr.qualname, "[map.get(r, r) for r in row_ids]", "translation keeps positions, maps "
         "known temporary ids and leaves every other id unchanged", ok, fi=tr.fi)
  run.ob(R3, "action_summary.ActionSummary", "update_new_rows_map / translate_new_row_ids share "
         "<per-table object of table_id>.%s" % a, "ids recorded for a table are "
         "looked up in the same table's map", a == b and len(accessors) == 1, nontrivial=True)


# ------------------------------------------------------------------------------------------ R4
def r4_map_follows_rename(run, w):
  """The temp-id map is kept per table id in some dict of the ActionSummary (today: inside the
  TableDelta objects of self._tables). A table renamed inside the bundle must take its map along:
  rename_table has to re-key that very dict."""
  R4 = run.rule("C26-R4", "the per-table container of the temporary-id map is re-keyed by "
                "ActionSummary.rename_table", floor=1)
  up = w.fn("action_summary.ActionSummary.update_new_rows_map")
  rn = w.fn("action_summary.ActionSummary.rename_table")
  p = up.fi.params()[1]
  def keyed_dicts(f, e, pname, depth=0):
    """attributes D of self such that e is reached through self.D[<pname>] / .get / .setdefault,
    directly or through a per-table accessor method"""
    out = set()
    for x in ast.walk(e):
      key = None
      base = None
      if isinstance(x, ast.Subscript):
        key, base = x.slice, x.value
      elif isinstance(x, ast.Call) and isinstance(x.func, ast.Attribute) and \
          x.func.attr in ("get", "setdefault", "pop") and x.args:
        key, base = x.args[0], x.func.value
      if key is not None and isinstance(key, ast.Name) and key.id == pname and \
          isinstance(base, ast.Attribute) and isinstance(base.value, ast.Name) and \
          base.value.id == "self":
        out.add(base.attr)
      if isinstance(x, ast.Call) and depth < 2:
        callee = H.self_method(w, f, x)
        args = H.norm(w, f, x).args
        if callee is not None and len(args) == 1 and isinstance(args[0], ast.Name) and \
            args[0].id == pname and len(callee.params()) == 2:
          cf = w.fn_of(callee)
          for r in ast.walk(callee.node):
            if isinstance(r, ast.Return) and r.value is not None:
              out |= keyed_dicts(cf, H.expand(cf, r.value, pure_only=False),
                                 callee.params()[1], depth + 1)
    return out
  recv = [c.func.value for (n, c, nm) in up.calls()
          if isinstance(c.func, ast.Attribute) and c.func.attr == "update"]
  if len(recv) != 1:
    raise AnalysisError("update_new_rows_map: <map>.update(...) not found")
  dicts = keyed_dicts(up, H.expand(up, recv[0], pure_only=False), p)
  if len(dicts) != 1:
    raise AnalysisError("update_new_rows_map: cannot tell which dict of the summary, keyed by "
                        "table id, holds the map (%s)" % sorted(dicts))
  d = next(iter(dicts))
  touched = any(isinstance(x, ast.Attribute) and x.attr == d and isinstance(x.value, ast.Name)
                and x.value.id == "self" for x in ast.walk(rn.node))
  if not touched and H.mentions_in_reach(
      w, rn, lambda x: isinstance(x, ast.Attribute) and x.attr == d, depth=2):
    touched = True
  run.ob(R4, rn.qualname, "rename_table re-keys self.%s" % d, "temporary ids recorded for a "
         "table keep resolving after the table is renamed in the same bundle: the dict keyed by "
         "table id that holds them is re-keyed by rename_table", touched, fi=rn.fi)


U = "sandbox/grist/useractions.py"
CO = "sandbox/grist/column.py"
EN = "sandbox/grist/engine.py"
AS = "sandbox/grist/action_summary.py"
VARIANTS = [
  # R1
  ("reflist-unresolved-temp-ids-accepted", CO,
   "      self._reject_unresolved_temp_ids(values)\n    return super(ReferenceListColumn, self)",
   "    return super(ReferenceListColumn, self)", "C26-R1"),
  ("ref-translates-in-own-table", CO,
   "      values = action_summary.translate_new_row_ids(self._target_table.table_id, values)",
   "      values = action_summary.translate_new_row_ids(self.table_id, values)", "C26-R1"),
  ("ref-delegates-untranslated-values", CO,
   "      values = action_summary.translate_new_row_ids(self._target_table.table_id, values)\n      self._reject_unresolved_temp_ids(values)\n    return super(ReferenceColumn, self).prepare_new_values(row_ids, values,",
   "      new_values = action_summary.translate_new_row_ids(self._target_table.table_id, values)\n      self._reject_unresolved_temp_ids(new_values)\n    return super(ReferenceColumn, self).prepare_new_values(row_ids, values,",
   "C26-R1"),
  ("ref-rejects-before-translating", CO,
   "      values = action_summary.translate_new_row_ids(self._target_table.table_id, values)\n      self._reject_unresolved_temp_ids(values)\n    return super(ReferenceColumn",
   "      self._reject_unresolved_temp_ids(values)\n      values = action_summary.translate_new_row_ids(self._target_table.table_id, values)\n    return super(ReferenceColumn",
   "C26-R1"),
  ("ref-early-return-also-for-formula-columns", CO,
   "    if action_summary and values:\n      values = action_summary.translate_new_row_ids(self._target_table.table_id, values)\n      self._reject_unresolved_temp_ids(values)\n    return super(ReferenceColumn, self).prepare_new_values(row_ids, values,\n        ignore_data=ignore_data, action_summary=action_summary)",
   "    if not (action_summary and values) or self.is_formula():\n      return super(ReferenceColumn, self).prepare_new_values(row_ids, values,\n          ignore_data=ignore_data, action_summary=action_summary)\n    values = action_summary.translate_new_row_ids(self._target_table.table_id, values)\n    self._reject_unresolved_temp_ids(values)\n    return super(ReferenceColumn, self).prepare_new_values(row_ids, values,\n        ignore_data=ignore_data, action_summary=action_summary)",
   "C26-R1"),
  ("reject-only-single-references", CO,
   "      for r in (value if isinstance(value, list) else (value,)):\n        if isinstance(r, int) and r < 0:",
   "      for r in (value,):\n        if isinstance(r, int) and r < 0:", "C26-R1"),
  ("reflist-translation-only-for-data-columns", CO,
   "    # through.\n    if action_summary:\n      values = [",
   "    # through.\n    if action_summary and not self.is_formula():\n      values = [", "C26-R1"),
  # R2
  ("defaults-prepared-without-summary", EN,
   "            ignore_data=ignore_data,\n            action_summary=self.out_actions.summary)",
   "            ignore_data=ignore_data)", "C26-R2"),
  ("explicit-values-prepared-without-summary", EN,
   "      nvalues, adjustments = col_obj.prepare_new_values(row_ids, values,\n          action_summary=self.out_actions.summary)",
   "      nvalues, adjustments = col_obj.prepare_new_values(row_ids, values)", "C26-R2"),
  # R3
  ("map-recorded-after-conversion", U,
   """    self._engine.out_actions.summary.update_new_rows_map(table_id, row_ids, filled_row_ids)

    # Convert entered values to the correct types.
    ActionType = actions.ReplaceTableData if replace else actions.BulkAddRecord
    action, extra_actions = self._engine.convert_action_values(
      ActionType(table_id, filled_row_ids, column_values))
""",
   """    # Convert entered values to the correct types.
    ActionType = actions.ReplaceTableData if replace else actions.BulkAddRecord
    action, extra_actions = self._engine.convert_action_values(
      ActionType(table_id, filled_row_ids, column_values))
    self._engine.out_actions.summary.update_new_rows_map(table_id, row_ids, filled_row_ids)
""", "C26-R3"),
  ("map-records-final-against-final", U,
   "update_new_rows_map(table_id, row_ids, filled_row_ids)",
   "update_new_rows_map(table_id, filled_row_ids, filled_row_ids)", "C26-R3"),
  ("update-builds-action-before-translating", U,
   """    row_ids = self._engine.out_actions.summary.translate_new_row_ids(table_id, row_ids)

    # Convert passed-in values to the column's correct types (or alttext, or errors) and trim any
    # unchanged values.
    action, extra_actions = self._engine.convert_action_values(
      actions.BulkUpdateRecord(table_id, row_ids, columns))
""",
   """    # Convert passed-in values to the column's correct types (or alttext, or errors) and trim any
    # unchanged values.
    action, extra_actions = self._engine.convert_action_values(
      actions.BulkUpdateRecord(table_id, row_ids, columns))
    row_ids = self._engine.out_actions.summary.translate_new_row_ids(table_id, row_ids)
""", "C26-R3"),
  ("remove-uses-untranslated-ids", U,
   "    row_ids = self._engine.out_actions.summary.translate_new_row_ids(table_id, row_ids)\n\n    self._do_doc_action(actions.BulkRemoveRecord(table_id, row_ids))",
   "    new_row_ids = self._engine.out_actions.summary.translate_new_row_ids(table_id, row_ids)\n\n    self._do_doc_action(actions.BulkRemoveRecord(table_id, row_ids))",
   "C26-R3"),
  ("remove-cleans-up-untranslated-ids", U,
   """    row_ids = [int(r) for r in row_ids_or_records]

    # Replace negative ids that may refer to rows just added to this table in this bundle.
    row_ids = self._engine.out_actions.summary.translate_new_row_ids(table_id, row_ids)

    self._do_doc_action(actions.BulkRemoveRecord(table_id, row_ids))

    # Also remove any references to this row from other tables.
    row_id_set = set(row_ids)
""",
   """    row_ids = [int(r) for r in row_ids_or_records]
    row_id_set = set(row_ids)

    # Replace negative ids that may refer to rows just added to this table in this bundle.
    row_ids = self._engine.out_actions.summary.translate_new_row_ids(table_id, row_ids)
    self._do_doc_action(actions.BulkRemoveRecord(table_id, row_ids))

    # Also remove any references to these rows from other tables.
""", "C26-R3"),
  ("update-checks-raw-sections-by-requested-ids", U,
   "    row_ids = self._engine.out_actions.summary.translate_new_row_ids(table_id, row_ids)\n\n    # Convert passed-in values",
   "    requested_ids = row_ids\n    row_ids = self._engine.out_actions.summary.translate_new_row_ids(table_id, row_ids)\n    self._engine.invalidate_records(table_id, requested_ids)\n\n    # Convert passed-in values",
   "C26-R3"),
  ("temp-id-map-not-renamed-with-table", AS,
   "    t = self._forTable(table_id)\n    t.temp_row_ids.update((a, b) for (a, b) in zip(temp_row_ids, final_row_ids) if a and a < 0)",
   "    t = self.__dict__.setdefault('_temp_maps', {})\n    self._temp_maps.setdefault(table_id, {}).update((a, b) for (a, b) in zip(temp_row_ids, final_row_ids) if a and a < 0)",
   "C26-R4"),
  ("translate-drops-unknown-ids", AS,
   "    return [t.temp_row_ids.get(r, r) for r in row_ids]",
   "    return [t.temp_row_ids.get(r, r) for r in row_ids if r > 0 or r in t.temp_row_ids]",
   "C26-R3"),
  ("map-keeps-positive-ids-only", AS,
   "zip(temp_row_ids, final_row_ids) if a and a < 0)",
   "zip(temp_row_ids, final_row_ids) if a and a > 0)", "C26-R3"),
]
