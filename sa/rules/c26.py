"""C26 Temporary row ids resolve consistently within a bundle -- structural clauses (DESIGN.md
section 4, C26)."""
import ast
from ..fn import World
from ..index import AnalysisError, dotted
from ..astutil import text, short, endswith, calls_in, walk_no_nested
from ..dataflow import DefUse
from .. import events as E
from .. import types as T
from . import _h_B as H

EXPLANATION = (
  "Decides the plumbing of temporary (negative) row ids. R1 (siblings): every concrete reference "
  "column class has a prepare_new_values of its own that, whenever an action summary is given, "
  "translates the incoming values through action_summary.translate_new_row_ids(<target table>, "
  "...), rejects ids that stay negative (_reject_unresolved_temp_ids, which raises for every "
  "negative id in a value or a list value) and only then delegates the translated values, with "
  "the summary, to the base class. R2: every prepare_new_values call of convert_action_values "
  "passes action_summary=self.out_actions.summary, and nobody else calls it. R3: in "
  "doBulkAddOrReplace the temp->final map is recorded (requested ids against filled ids) before "
  "values are converted and the action is built from the filled ids; in doBulkUpdateRecord and "
  "doBulkRemoveRecord the row ids are translated before the action is built and the action is "
  "built from the translated ids; recording and translating use the same per-table map. Not "
  "decided: the ids allocated (C27) and the values the translated references end up with.")


def check(run, repo, tier):
  w = World(repo)
  r1_siblings(run, w)
  r2_call_sites(run, w)
  r3_row_ids(run, w)


# ------------------------------------------------------------------------------------------ R1
def r1_siblings(run, w):
  R1 = run.rule("C26-R1", "every concrete reference column translates new values through the "
                "action summary for its target table, rejects unresolved temporary ids, then "
                "delegates the translated values to the base class", floor=9)
  base = w.repo.cls("column.BaseReferenceColumn")
  subs = w.repo.subclasses(base, strict=True)
  if len(subs) < 2:
    raise AnalysisError("fewer than two reference column classes found")
  for ci in sorted(subs, key=lambda c: c.qualname):
    own = None
    for c in w.repo.mro(ci):
      if c is base:
        break
      if "prepare_new_values" in c.methods:
        own = c.methods["prepare_new_values"]
        break
    if own is None:
      run.ob(R1, ci.qualname, "prepare_new_values", "the class (or a reference-column ancestor "
             "below BaseReferenceColumn) defines its own prepare_new_values with temp-id "
             "translation", False, nontrivial=False)
      continue
    _r1_one(run, R1, w, own)
  # the rejecting helper
  rj = w.fn("column.BaseReferenceColumn._reject_unresolved_temp_ids")
  p = rj.fi.params()[1]
  cfg = rj.cfg
  raises = [n for n in cfg.nodes if n.kind == "raise_stmt"]
  ok = False
  wit = None
  if len(raises) == 1:
    chain = H.guards_of(rj.node, raises[0].stmt)
    loops = [s for (s, f) in chain if isinstance(s, ast.For)]
    ifs = [s for (s, f) in chain if isinstance(s, ast.If)]
    if not (len(loops) == 2 and len(ifs) == 1):
      raise AnalysisError("_reject_unresolved_temp_ids: unrecognised shape (expected two nested "
                          "loops and one test around the raise)")
    if text(loops[0].iter) == p and not loops[0].orelse:
      outer, inner = text(loops[0].target), text(loops[1].target)
      it = loops[1].iter
      covers = isinstance(it, ast.IfExp) and text(it.body) == outer and \
          isinstance(it.test, ast.Call) and dotted(it.test.func) == "isinstance" and \
          text(it.test.args[0]) == outer and isinstance(it.orelse, ast.Tuple) and \
          [text(e) for e in it.orelse.elts] == [outer]
      t = ifs[0].test
      parts = t.values if isinstance(t, ast.BoolOp) and isinstance(t.op, ast.And) else [t]
      neg = any(isinstance(x, ast.Compare) and text(x.left) == inner and len(x.ops) == 1 and
                isinstance(x.ops[0], ast.Lt) and H.const_value(x.comparators[0]) == (True, 0)
                for x in parts)
      only_type = all((isinstance(x, ast.Compare) and text(x.left) == inner) or
                      (isinstance(x, ast.Call) and dotted(x.func) == "isinstance" and
                       text(x.args[0]) == inner and text(x.args[1]) == "int") for x in parts)
      exc = raises[0].stmt.exc
      is_value_error = isinstance(exc, ast.Call) and dotted(exc.func) == "ValueError"
      ok = covers and neg and only_type and is_value_error
      wit = "covers=%s neg=%s only_type=%s ValueError=%s" % (covers, neg, only_type, is_value_error)
  run.ob(R1, rj.qualname, "for v in values: for r in (v if list else (v,)): if int and r < 0: "
         "raise ValueError", "every id of every value (single or list) that is still negative "
         "raises, so the bundle is rejected", ok, witness=wit, fi=rj.fi)


def _r1_one(run, R1, w, fi):
  fn = w.fn_of(fi)
  cfg = fn.cfg
  ps = fi.params()
  if len(ps) < 3 or "action_summary" not in [a.arg for a in fi.node.args.args]:
    run.ob(R1, fi.qualname, "signature", "prepare_new_values takes (row_ids, values, ..., "
           "action_summary)", False, fi=fi, nontrivial=False)
    return
  p_rows, p_vals, p_sum = ps[1], ps[2], "action_summary"
  trans = [(n, c) for (n, c, nm) in fn.calls() if nm == p_sum + ".translate_new_row_ids"]
  if not trans:
    run.ob(R1, fi.qualname, "%s.translate_new_row_ids(...)" % p_sum, "temporary ids in the new "
           "values are translated", False, fi=fi)
    return
  tn, tc = trans[0]
  # the result variable: values = <expr containing the translation>
  tst = tn.stmt
  resv = tst.targets[0].id if isinstance(tst, ast.Assign) and len(tst.targets) == 1 and \
      isinstance(tst.targets[0], ast.Name) else None
  ok = len(trans) == 1 and len(tc.args) == 2 and text(tc.args[0]) == "self._target_table.table_id"
  run.ob(R1, fi.qualname, short(tc), "ids are looked up in the map of the table this column "
         "refers to", ok, fi=fi, node=tc)
  # what is translated comes from the values parameter: the parameter itself, or each element of a
  # comprehension over it
  a1 = tc.args[1] if len(tc.args) == 2 else None
  src_ok = False
  if isinstance(a1, ast.Name):
    if a1.id == p_vals:
      src_ok = True
    elif isinstance(tst, ast.Assign):
      for comp in ast.walk(tst.value):
        if isinstance(comp, (ast.ListComp, ast.GeneratorExp)) and len(comp.generators) == 1 and \
            text(comp.generators[0].target) == a1.id and \
            text(comp.generators[0].iter) == p_vals and not comp.generators[0].ifs:
          # the untranslated alternative must be the element itself
          e = comp.elt
          src_ok = (e is tc) or (isinstance(e, ast.IfExp) and e.body is tc and
                                 text(e.orelse) == a1.id)
  run.ob(R1, fi.qualname, "translate(%s)" % (text(a1) if a1 is not None else "?"),
         "what is translated is the incoming values (each of them), and an untranslated value is "
         "passed through unchanged", src_ok and resv is not None, fi=fi, node=tc)
  if resv is None:
    return
  # guards: only `if action_summary [and values]` (possibly nested)
  chain = H.guards_of(fi.node, tst)
  g_ok = bool(chain) and all(isinstance(s, ast.If) and f == "body" and not s.orelse
                             for (s, f) in chain)
  if g_ok:
    parts = []
    for (s, f) in chain:
      t = s.test
      parts += t.values if isinstance(t, ast.BoolOp) and isinstance(t.op, ast.And) else [t]
    g_ok = all(isinstance(x, ast.Name) and x.id in (p_sum, p_vals) for x in parts) and \
        any(isinstance(x, ast.Name) and x.id == p_sum for x in parts)
  run.ob(R1, fi.qualname, "if %s: translate" % p_sum, "translation is skipped only when no action "
         "summary is given (or there are no values)", g_ok, fi=fi)
  rej = {n.id for (n, c, nm) in fn.calls() if nm == "self._reject_unresolved_temp_ids" and
         [text(a) for a in c.args] == [resv]}
  dele = [(n, c) for (n, c, nm) in fn.calls() if isinstance(c.func, ast.Attribute) and
          c.func.attr == "prepare_new_values" and isinstance(c.func.value, ast.Call) and
          dotted(c.func.value.func) == "super"]
  ok = len(dele) == 1
  if ok:
    dn, dc = dele[0]
    ok = len(dc.args) >= 2 and text(dc.args[0]) == p_rows and text(dc.args[1]) == resv and \
        H.kwarg(dc, "action_summary") is not None and \
        text(H.kwarg(dc, "action_summary")) == p_sum and dn.kind == "return" and \
        dn.stmt.value is dc and cfg.dominated_by(cfg.exit.id, {dn.id})
  run.ob(R1, fi.qualname, "return super().prepare_new_values(row_ids, %s, ..., action_summary="
         "action_summary)" % resv, "the base class (reverse-reference adjustments) works on the "
         "translated values and the result is what the caller gets", ok, fi=fi)
  if not (ok and g_ok):
    return
  dn = dele[0][0]
  first = H.nodes_of_stmts(cfg, chain[-1][0].body[:1])
  ok_t = dn.id not in cfg.reach(first, removed={tn.id})
  ok_r = bool(rej) and dn.id not in cfg.reach(first, removed=rej) and \
      all(r in cfg.reach_after({tn.id}) and tn.id not in cfg.reach_after({r}) for r in rej)
  run.ob(R1, fi.qualname, "translate -> self._reject_unresolved_temp_ids(%s) -> delegate" % resv,
         "with an action summary, every path to the delegation translates first and then rejects "
         "ids that stayed negative", ok_t and ok_r, fi=fi,
         witness=None if ok_r else "a path from the guarded block reaches the delegation without "
                                   "the rejection of the translated values")


# ------------------------------------------------------------------------------------------ R2
def r2_call_sites(run, w):
  R2 = run.rule("C26-R2", "convert_action_values passes action_summary=self.out_actions.summary to "
                "every prepare_new_values call; it is the only caller outside the column classes",
                floor=2)
  n = 0
  for fi in w.repo.all_functions():
    if not any(isinstance(x, ast.Attribute) and x.attr == "prepare_new_values"
               for x in ast.walk(fi.node)):
      continue
    in_col = fi.cls is not None and w.typer.is_column(fi.cls.qualname)
    for c in calls_in(fi.node.body):
      if not (isinstance(c.func, ast.Attribute) and c.func.attr == "prepare_new_values"):
        continue
      if in_col and isinstance(c.func.value, ast.Call) and dotted(c.func.value.func) == "super":
        continue
      n += 1
      if fi.qualname != "engine.Engine.convert_action_values":
        run.ob(R2, fi.qualname, short(c), "prepare_new_values is called only by "
               "Engine.convert_action_values (which supplies the action summary)", False, fi=fi,
               node=c, nontrivial=False)
        continue
      kw = H.kwarg(c, "action_summary")
      run.ob(R2, fi.qualname, short(c), "the call supplies the bundle's action summary, and the "
             "action's own row ids", kw is not None and text(kw) == "self.out_actions.summary" and
             len(c.args) >= 2 and isinstance(c.args[0], ast.Name), fi=fi, node=c)
  if n == 0:
    raise AnalysisError("no prepare_new_values call site found")
  # both halves of convert_action_values: mentioned columns, and all other data columns on adds
  fn = w.fn("engine.Engine.convert_action_values")
  loops = [s for s in ast.walk(fn.node) if isinstance(s, ast.For) and
           any(isinstance(c.func, ast.Attribute) and c.func.attr == "prepare_new_values"
               for c in calls_in(s.body))]
  run.ob(R2, fn.qualname, "explicit columns and defaulted columns", "values given explicitly and "
         "defaults of the remaining data columns both go through prepare_new_values",
         len(loops) == 2, fi=fn.fi, nontrivial=False)


# ------------------------------------------------------------------------------------------ R3
def _ctor_sites(fn, names, kinds):
  """[(cfg node, kind, ctor Call)] for constructions of the given action kinds (by constructor or
  through a local alias of the class, e.g. ActionType = actions.X if .. else actions.Y)."""
  out = []
  for n in fn.cfg.nodes:
    for c in calls_in(n.exprs):
      r = E.action_ctor(c, names)
      if r and r[1] is c and r[0] in kinds:
        out.append((n, r[0], c))
      elif isinstance(c.func, ast.Name):
        ds = E.local_defs(fn.node, c.func.id)
        ks = set()
        for d in ds:
          ks |= H.action_names_in(d, names)
        if ds and ks and ks <= set(kinds) | {"ReplaceTableData"} and ks & set(kinds):
          out.append((n, "/".join(sorted(ks)), c))
  return out


def r3_row_ids(run, w):
  R3 = run.rule("C26-R3", "the temp->final map is recorded before values are converted; update and "
                "remove translate their row ids before building the action, from the translated "
                "ids; both sides use the same per-table map", floor=9)
  names = w.action_types()
  # --- adds
  fn = w.fn("useractions.UserActions.doBulkAddOrReplace")
  cfg = fn.cfg
  du = DefUse(fn)
  ps = fn.fi.params()
  ups = [(n, c) for (n, c, nm) in fn.calls() if endswith(nm, "summary.update_new_rows_map")]
  conv = [(n, c) for (n, c, nm) in fn.calls() if endswith(nm, "convert_action_values")]
  if len(ups) != 1 or len(conv) != 1:
    raise AnalysisError("doBulkAddOrReplace: update_new_rows_map / convert_action_values not found")
  un, uc = ups[0]
  cn, cc = conv[0]
  ok = cfg.dominated_by(cn.id, {un.id}) and un.id not in cfg.reach_after({cn.id})
  run.ob(R3, fn.qualname, "update_new_rows_map(...) before convert_action_values(...)",
         "the ids allocated for this add are known to the map before any reference value of the "
         "same action is translated (rows may refer to each other)", ok, fi=fn.fi, node=uc,
         witness=None if ok else cfg.describe_path(cfg.path(cfg.entry.id, {cn.id},
                                                            removed={un.id})))
  filled = text(uc.args[2]) if len(uc.args) == 3 else None
  fd = H.single_def(fn, filled) if filled else None
  copy_ok = fd is not None and (text(fd) in ("%s[:]" % ps[2], "list(%s)" % ps[2],
                                             "%s.copy()" % ps[2]))
  ok = len(uc.args) == 3 and text(uc.args[0]) == ps[1] and text(uc.args[1]) == ps[2] and \
      filled != ps[2] and copy_ok and H.unrebound_at(fn, du, ps[2], un.id) and \
      H.unrebound_at(fn, du, ps[1], un.id)
  run.ob(R3, fn.qualname, short(uc), "the map pairs the ids as requested (temporary ones "
         "included) with the ids filled in for the same positions", ok, fi=fn.fi, node=uc)
  # the fill loop is over before the map is recorded
  fills = du.muts.get(filled, set()) if filled else set()
  ok = bool(fills) and not (cfg.reach_after({un.id}) & fills)
  run.ob(R3, fn.qualname, "%s filled before it is recorded" % filled, "the recorded final ids are "
         "final", ok, fi=fn.fi)
  ctors = [x for x in _ctor_sites(fn, names, ("BulkAddRecord",)) if x[0].id == cn.id]
  ok = len(ctors) == 1 and len(ctors[0][2].args) == 3 and text(ctors[0][2].args[0]) == ps[1] and \
      text(ctors[0][2].args[1]) == filled
  run.ob(R3, fn.qualname, "convert_action_values(ActionType(table_id, %s, ...))" % filled,
         "the action that adds the rows uses exactly the ids recorded in the map", ok, fi=fn.fi)
  rets = [n for n in cfg.nodes if n.kind == "return"]
  run.ob(R3, fn.qualname, "return %s" % filled, "the caller is told the final ids",
         bool(rets) and all(n.stmt.value is not None and text(n.stmt.value) == filled
                            for n in rets), fi=fn.fi, nontrivial=False)
  # --- updates and removes
  for q, kind in (("useractions.UserActions.doBulkUpdateRecord", "BulkUpdateRecord"),
                  ("useractions.UserActions.doBulkRemoveRecord", "BulkRemoveRecord")):
    fn = w.fn(q)
    cfg = fn.cfg
    du = DefUse(fn)
    rd = H.ReachDefs(fn, du)
    ENTRY = H.ReachDefs.ENTRY
    ps = fn.fi.params()
    p_table, p_rows = ps[1], ps[2]
    tr = [(n, c) for (n, c, nm) in fn.calls() if endswith(nm, "summary.translate_new_row_ids")]
    if len(tr) != 1:
      raise AnalysisError("%s: translate_new_row_ids call not found" % q)
    tn, tc = tr[0]
    try:
      a_table = H.arg_of(tc, w.repo.func("action_summary.ActionSummary.translate_new_row_ids"),
                         "table_id")
      a_rows = H.arg_of(tc, w.repo.func("action_summary.ActionSummary.translate_new_row_ids"),
                        "row_ids")
    except AnalysisError:
      a_table = a_rows = None
    if a_table is None or a_rows is None:
      raise AnalysisError("%s: cannot bind the arguments of %s" % (q, short(tc)))
    # the translation's result is bound to a local (possibly through list(...))
    resv = None
    if isinstance(tn.stmt, ast.Assign) and len(tn.stmt.targets) == 1 and \
        isinstance(tn.stmt.targets[0], ast.Name) and \
        H.strip_wrappers(tn.stmt.value, ("list", "tuple")) is tc:
      resv = tn.stmt.targets[0].id
    if resv is None:
      raise AnalysisError("%s: the result of %s is not bound to a local" % (q, short(tc)))
    is_table = lambda e, at: isinstance(H.deref(fn, e), ast.Name) and \
        H.deref(fn, e).id == p_table and rd.reaching(p_table, at) == {ENTRY}
    raw_base = lambda x, d: isinstance(x, str) and x == p_rows and d == ENTRY
    whole = H.whole_of(fn, rd, a_rows, tn.id, raw_base)
    if whole is None:
      raise AnalysisError("%s: cannot relate %s to the requested row ids" % (q, short(a_rows)))
    run.ob(R3, q, short(tn.stmt), "all requested row ids are translated with the map of the "
           "action's own table", is_table(a_table, tn.id) and whole, fi=fn.fi, node=tn.stmt)
    sites = [(n, k, c) for (n, k, c) in _ctor_sites(fn, names, (kind,))
             if H.action_arg(c, names, k, 0) is not None and
             H.action_arg(c, names, k, 1) is not None and
             is_table(H.action_arg(c, names, k, 0), n.id)]
    # the construction for the action's own table (others, e.g. back-reference clean-up, name
    # other tables)
    if not sites:
      raise AnalysisError("%s: construction of %s(table_id, ...) not found" % (q, kind))
    tr_base = lambda x, d: isinstance(x, str) and x == resv and d == tn.id
    for (n, k, c) in sites:
      v = H.whole_of(fn, rd, H.action_arg(c, names, k, 1), n.id, tr_base)
      run.ob(R3, q, short(c), "the action is built from the translated ids: the translation "
             "dominates the construction and is the last binding of the ids that reaches it",
             v is True, fi=fn.fi, node=c,
             witness=None if v else "a value other than the result of the translation reaches "
                                    "the constructor's row ids")
    # nothing computed from the untranslated ids is used once they have been translated
    raw = H.taint(fn, du, rd, {(p_rows, ENTRY)}, stop={tn.id})
    after = cfg.reach_after({tn.id})
    stale = []
    for n in cfg.nodes:
      if n.id not in after or n.stmt is None or n.kind == "assert":
        continue
      for e in n.exprs:
        for x in (ast.walk(e) if e is not None else ()):
          if isinstance(x, ast.Name) and isinstance(x.ctx, ast.Load) and \
              any((x.id, d) in raw for d in rd.reaching(x.id, n.id)):
            stale.append((n, x.id))
    run.ob(R3, q, "no use of the untranslated ids after %s" % short(tn.stmt, 60),
           "whatever the action does with its rows after the translation (the doc action, the "
           "clean-up of references to removed rows, raw-section checks) is done for the rows the "
           "temporary ids stand for", not stale, fi=fn.fi,
           node=stale[0][0].stmt if stale else None,
           witness=("%s, computed from the ids as requested, is read at line %d"
                    % (stale[0][1], stale[0][0].lineno)) if stale else None)
  # --- the map itself
  up = w.fn("action_summary.ActionSummary.update_new_rows_map")
  tr = w.fn("action_summary.ActionSummary.translate_new_row_ids")
  def table_map(fn):
    p = fn.fi.params()[1]
    tv = [s.targets[0].id for s in ast.walk(fn.node) if isinstance(s, ast.Assign) and
          isinstance(s.value, ast.Call) and fn.name(s.value) == "self._forTable" and
          [text(a) for a in s.value.args] == [p] and isinstance(s.targets[0], ast.Name)]
    attrs = {x.attr for x in ast.walk(fn.node) if isinstance(x, ast.Attribute) and
             isinstance(x.value, ast.Name) and tv and x.value.id == tv[0]}
    return attrs
  a, b = table_map(up), table_map(tr)
  run.ob(R3, "action_summary.ActionSummary", "update_new_rows_map / translate_new_row_ids share "
         "self._forTable(table_id).%s" % "/".join(sorted(a)), "ids recorded for a table are "
         "looked up in the same table's map", len(a) == 1 and a == b, nontrivial=True)
  # update: pairs (temp, final) positionally, keeps negatives
  ps = up.fi.params()
  upd = [c for c in calls_in(up.node.body) if isinstance(c.func, ast.Attribute) and
         c.func.attr == "update" and c.args and isinstance(c.args[0], ast.GeneratorExp)]
  ok = False
  if len(upd) == 1:
    g = upd[0].args[0]
    gen = g.generators[0]
    ok = text(gen.iter) == "zip(%s, %s)" % (ps[2], ps[3]) and isinstance(gen.target, ast.Tuple) and \
        text(g.elt) == text(gen.target) and len(gen.ifs) == 1
    if ok:
      t = gen.ifs[0]
      parts = t.values if isinstance(t, ast.BoolOp) and isinstance(t.op, ast.And) else [t]
      k = text(gen.target.elts[0])
      ok = any(isinstance(x, ast.Compare) and text(x.left) == k and isinstance(x.ops[0], ast.Lt)
               and H.const_value(x.comparators[0]) == (True, 0) for x in parts) and \
          all((isinstance(x, ast.Name) and x.id == k) or
              (isinstance(x, ast.Compare) and text(x.left) == k) for x in parts)
  run.ob(R3, up.qualname, "map.update((t, f) for (t, f) in zip(temp_row_ids, final_row_ids) if t "
         "and t < 0)", "every negative requested id is mapped to the id filled in at the same "
         "position", ok, fi=up.fi)
  ps = tr.fi.params()
  rets = [s for s in ast.walk(tr.node) if isinstance(s, ast.Return)]
  ok = False
  if len(rets) == 1 and isinstance(rets[0].value, ast.ListComp):
    lc = rets[0].value
    gen = lc.generators[0]
    v = text(gen.target)
    ok = text(gen.iter) == ps[2] and not gen.ifs and isinstance(lc.elt, ast.Call) and \
        isinstance(lc.elt.func, ast.Attribute) and lc.elt.func.attr == "get" and \
        [text(x) for x in lc.elt.args] == [v, v]
  run.ob(R3, tr.qualname, "[map.get(r, r) for r in row_ids]", "translation keeps positions, maps "
         "known temporary ids and leaves every other id unchanged", ok, fi=tr.fi)


U = "sandbox/grist/useractions.py"
CO = "sandbox/grist/column.py"
EN = "sandbox/grist/engine.py"
AS = "sandbox/grist/action_summary.py"
VARIANTS = [
  # R1
  ("reflist-unresolved-temp-ids-accepted", CO,
   "      self._reject_unresolved_temp_ids(values)\n    return super(ReferenceListColumn, self)",
   "    return super(ReferenceListColumn, self)", "C26-R1"),
  ("ref-translates-in-own-table", CO,
   "      values = action_summary.translate_new_row_ids(self._target_table.table_id, values)",
   "      values = action_summary.translate_new_row_ids(self.table_id, values)", "C26-R1"),
  ("ref-delegates-untranslated-values", CO,
   "      values = action_summary.translate_new_row_ids(self._target_table.table_id, values)\n      self._reject_unresolved_temp_ids(values)\n    return super(ReferenceColumn, self).prepare_new_values(row_ids, values,",
   "      new_values = action_summary.translate_new_row_ids(self._target_table.table_id, values)\n      self._reject_unresolved_temp_ids(new_values)\n    return super(ReferenceColumn, self).prepare_new_values(row_ids, values,",
   "C26-R1"),
  ("ref-rejects-before-translating", CO,
   "      values = action_summary.translate_new_row_ids(self._target_table.table_id, values)\n      self._reject_unresolved_temp_ids(values)\n    return super(ReferenceColumn",
   "      self._reject_unresolved_temp_ids(values)\n      values = action_summary.translate_new_row_ids(self._target_table.table_id, values)\n    return super(ReferenceColumn",
   "C26-R1"),
  ("reject-only-single-references", CO,
   "      for r in (value if isinstance(value, list) else (value,)):\n        if isinstance(r, int) and r < 0:",
   "      for r in (value,):\n        if isinstance(r, int) and r < 0:", "C26-R1"),
  ("reflist-translation-only-for-data-columns", CO,
   "    # through.\n    if action_summary:\n      values = [",
   "    # through.\n    if action_summary and not self.is_formula():\n      values = [", "C26-R1"),
  # R2
  ("defaults-prepared-without-summary", EN,
   "            ignore_data=ignore_data,\n            action_summary=self.out_actions.summary)",
   "            ignore_data=ignore_data)", "C26-R2"),
  ("explicit-values-prepared-without-summary", EN,
   "      nvalues, adjustments = col_obj.prepare_new_values(row_ids, values,\n          action_summary=self.out_actions.summary)",
   "      nvalues, adjustments = col_obj.prepare_new_values(row_ids, values)", "C26-R2"),
  # R3
  ("map-recorded-after-conversion", U,
   """    self._engine.out_actions.summary.update_new_rows_map(table_id, row_ids, filled_row_ids)

    # Convert entered values to the correct types.
    ActionType = actions.ReplaceTableData if replace else actions.BulkAddRecord
    action, extra_actions = self._engine.convert_action_values(
      ActionType(table_id, filled_row_ids, column_values))
""",
   """    # Convert entered values to the correct types.
    ActionType = actions.ReplaceTableData if replace else actions.BulkAddRecord
    action, extra_actions = self._engine.convert_action_values(
      ActionType(table_id, filled_row_ids, column_values))
    self._engine.out_actions.summary.update_new_rows_map(table_id, row_ids, filled_row_ids)
""", "C26-R3"),
  ("map-records-final-against-final", U,
   "update_new_rows_map(table_id, row_ids, filled_row_ids)",
   "update_new_rows_map(table_id, filled_row_ids, filled_row_ids)", "C26-R3"),
  ("update-builds-action-before-translating", U,
   """    row_ids = self._engine.out_actions.summary.translate_new_row_ids(table_id, row_ids)

    # Convert passed-in values to the column's correct types (or alttext, or errors) and trim any
    # unchanged values.
    action, extra_actions = self._engine.convert_action_values(
      actions.BulkUpdateRecord(table_id, row_ids, columns))
""",
   """    # Convert passed-in values to the column's correct types (or alttext, or errors) and trim any
    # unchanged values.
    action, extra_actions = self._engine.convert_action_values(
      actions.BulkUpdateRecord(table_id, row_ids, columns))
    row_ids = self._engine.out_actions.summary.translate_new_row_ids(table_id, row_ids)
""", "C26-R3"),
  ("remove-uses-untranslated-ids", U,
   "    row_ids = self._engine.out_actions.summary.translate_new_row_ids(table_id, row_ids)\n\n    self._do_doc_action(actions.BulkRemoveRecord(table_id, row_ids))",
   "    new_row_ids = self._engine.out_actions.summary.translate_new_row_ids(table_id, row_ids)\n\n    self._do_doc_action(actions.BulkRemoveRecord(table_id, row_ids))",
   "C26-R3"),
  ("remove-cleans-up-untranslated-ids", U,
   """    row_ids = [int(r) for r in row_ids_or_records]

    # Replace negative ids that may refer to rows just added to this table in this bundle.
    row_ids = self._engine.out_actions.summary.translate_new_row_ids(table_id, row_ids)

    self._do_doc_action(actions.BulkRemoveRecord(table_id, row_ids))

    # Also remove any references to this row from other tables.
    row_id_set = set(row_ids)
""",
   """    row_ids = [int(r) for r in row_ids_or_records]
    row_id_set = set(row_ids)

    # Replace negative ids that may refer to rows just added to this table in this bundle.
    row_ids = self._engine.out_actions.summary.translate_new_row_ids(table_id, row_ids)
    self._do_doc_action(actions.BulkRemoveRecord(table_id, row_ids))

    # Also remove any references to these rows from other tables.
""", "C26-R3"),
  ("update-checks-raw-sections-by-requested-ids", U,
   "    row_ids = self._engine.out_actions.summary.translate_new_row_ids(table_id, row_ids)\n\n    # Convert passed-in values",
   "    requested_ids = row_ids\n    row_ids = self._engine.out_actions.summary.translate_new_row_ids(table_id, row_ids)\n    self._engine.invalidate_records(table_id, requested_ids)\n\n    # Convert passed-in values",
   "C26-R3"),
  ("translate-drops-unknown-ids", AS,
   "    return [t.temp_row_ids.get(r, r) for r in row_ids]",
   "    return [t.temp_row_ids.get(r, r) for r in row_ids if r > 0 or r in t.temp_row_ids]",
   "C26-R3"),
  ("map-keeps-positive-ids-only", AS,
   "zip(temp_row_ids, final_row_ids) if a and a < 0)",
   "zip(temp_row_ids, final_row_ids) if a and a > 0)", "C26-R3"),
]
