"""
Shared helpers of the C03 / C06 / C18 / C29 rule modules.

* branch_succ      which successor of an `if`/`while` CFG node is the true branch
* FactReach        reachability in the product (CFG node x known truth of a few boolean names):
                   a small path-sensitive query ("under required == True, can a `return` be reached?")
* attr_sites       every syntactic use of one attribute name (`x._locked_cells`), classified
* loop_breaks      `break` statements that leave one given loop
Spelling-independent layer (second half of the file):
* Expander         what a single-assignment local stands for (tuple unpacking -> e[i]); norm(e)
* bind_call        arguments of a call matched against the callee's signature (positional/keyword)
* Inliner / IFn    small same-class / same-module helpers dissolved into the caller (KEEP_A: the
                   role-bearing functions that are never dissolved); synthetic `while True` wrappers
                   (marked _inl) stand for helpers with early returns
* Facts            FactReach over normalised atoms with case splitting on and/or, both polarities,
                   `is None` read as falsy, facts established by assignments
* Owners/followed  code found in a helper is attributed to its callers; the position-sensitive
                   clauses then require the helper to be dissolved in the owner's inlined body
* obj_sites        attr_sites following local aliases of the attribute
* reaching_defs / value_at / values_at / derefs_at / returns_of   flow-sensitive "what does this
                   name hold here" (every reaching binding is followed)
* built_list       `x = []; for t in it: x.append(e)` read as the comprehension [e for t in it]
Nothing here executes repository code.
"""
import ast
from ..index import AnalysisError, dotted
from ..astutil import text, short, walk_no_nested, calls_in, stmt_defs


# ------------------------------------------------------------------------------------------
def first_stmt(stmts):
  """The statement whose CFG node is entered first when `stmts` starts executing (a `try` has no
  node of its own: its first body statement is entered)."""
  s = stmts[0]
  while isinstance(s, ast.Try):
    s = s.body[0]
  return s


def branch_succ(cfg, nid):
  """(true successors, false successors) of an if/while node, normal edges only."""
  n = cfg.nodes[nid]
  if n.kind not in ("if", "while"):
    raise AnalysisError("branch_succ: node is not a test")
  norm = set(cfg.normal_succ(nid))
  if n.kind == "if" and nid in getattr(cfg, "if_true", {}):
    t = set(cfg.if_true[nid]) & norm
    return t, norm - t
  tfirst = first_stmt(n.stmt.body)
  t = {m for m in norm if cfg.nodes[m].stmt is tfirst}
  f = norm - t
  if len(t) > 1 or (not t and not isinstance(n.stmt.test, ast.Constant)):
    raise AnalysisError("cannot tell the branches of `%s` apart" % text(n.stmt.test))
  return t, f


def key_of(e):
  """Fact key of a boolean-valued expression: a bare name or a dotted attribute chain."""
  if isinstance(e, ast.Name):
    return e.id
  if isinstance(e, ast.Attribute):
    return dotted(e)
  return None


def cond_value(test, facts, keyf=None):
  """Three-valued evaluation of `test` under `facts` ({key: bool}); None = unknown."""
  keyf = keyf or key_of
  k = keyf(test)
  if k is not None:
    return facts.get(k)
  if isinstance(test, ast.Constant):
    return bool(test.value)
  if isinstance(test, ast.UnaryOp) and isinstance(test.op, ast.Not):
    v = cond_value(test.operand, facts, keyf)
    return None if v is None else (not v)
  if isinstance(test, ast.BoolOp):
    vs = [cond_value(v, facts, keyf) for v in test.values]
    if isinstance(test.op, ast.And):
      if any(v is False for v in vs):
        return False
      return True if all(v is True for v in vs) else None
    if any(v is True for v in vs):
      return True
    return False if all(v is False for v in vs) else None
  return None


def cond_facts(test, truth, keyf=None):
  """Facts implied by `test` evaluating to `truth`."""
  keyf = keyf or key_of
  k = keyf(test)
  if k is not None:
    return {k: truth}
  if isinstance(test, ast.UnaryOp) and isinstance(test.op, ast.Not):
    return cond_facts(test.operand, not truth, keyf)
  if isinstance(test, ast.BoolOp):
    if (isinstance(test.op, ast.And) and truth) or (isinstance(test.op, ast.Or) and not truth):
      out = {}
      for v in test.values:
        out.update(cond_facts(v, truth, keyf))
      return out
  return {}


class FactReach(object):
  """
  Path-sensitive reachability over (cfg node, facts). `tracked` is the set of fact keys followed;
  a fact is dropped where its name is rebound (to a constant: replaced by the constant's truth),
  and attribute facts listed in `call_kills` are dropped at every node that evaluates a call.
  `call_keys`: texts of pure predicate calls (`col.is_formula()`) that may serve as fact keys; such
  a fact is dropped where the receiver variable is rebound.
  """
  def __init__(self, cfg, tracked, call_kills=(), call_keys=(), noreturn=None):
    self.cfg = cfg
    self.tracked = set(tracked) | set(call_keys)
    self.call_kills = set(call_kills)
    self.call_keys = set(call_keys)
    self.noreturn = noreturn      # predicate(node): the statement is a call that always raises
    self.noreturn_seen = set()

  def keyf(self, e):
    if isinstance(e, ast.Call) and self.call_keys and text(e) in self.call_keys:
      return text(e)
    return key_of(e)

  def _transfer(self, n, facts):
    s = n.stmt
    if s is None or n.kind in ("handler", "def"):
      return facts
    f = dict(facts)
    if n.kind in ("stmt", "for", "with"):
      bound = set(stmt_defs(s))
      if isinstance(s, ast.Assign):
        for t in s.targets:
          k = key_of(t)
          if k is not None:
            bound.add(k)
      elif isinstance(s, (ast.AugAssign, ast.AnnAssign)):
        k = key_of(s.target)
        if k is not None:
          bound.add(k)
      for k in bound & self.tracked:
        f.pop(k, None)
        if isinstance(s, ast.Assign) and isinstance(s.value, ast.Constant):
          f[k] = bool(s.value.value)
      for k in self.call_keys:
        if k.split(".")[0].split("(")[0] in bound:
          f.pop(k, None)
    if self.call_kills and any(True for _ in calls_in(n.exprs)):
      for k in self.call_kills:
        f.pop(k, None)
    return f

  def run(self, starts, stop=()):
    """starts: iterable of (node id, facts dict). Nodes in `stop` are recorded but not left.
    Returns {node id: [facts dict on entry, ...]}."""
    cfg = self.cfg
    stop = set(stop)
    seen = set()
    out = {}
    work = [(nid, frozenset((k, v) for k, v in f.items() if k in self.tracked))
            for (nid, f) in starts]
    while work:
      st = work.pop()
      if st in seen:
        continue
      seen.add(st)
      nid, ff = st
      out.setdefault(nid, []).append(dict(ff))
      if nid in stop:
        continue
      n = cfg.nodes[nid]
      f = self._transfer(n, dict(ff))
      if self.noreturn is not None and n.kind == "stmt" and self.noreturn(n):
        self.noreturn_seen.add(nid)
        for m in cfg.succ[nid]:
          if (nid, m) in cfg.exc_edges:
            work.append((m, frozenset(f.items())))
        continue
      if n.kind in ("if", "while") and not isinstance(n.stmt.test, ast.Constant):
        t, fl = branch_succ(cfg, nid)
        v = cond_value(n.stmt.test, f, self.keyf)
        nxt = []
        if v is not False:
          g = dict(f)
          g.update({k: b for k, b in cond_facts(n.stmt.test, True, self.keyf).items()
                    if k in self.tracked})
          nxt += [(m, g) for m in t]
        if v is not True:
          g = dict(f)
          g.update({k: b for k, b in cond_facts(n.stmt.test, False, self.keyf).items()
                    if k in self.tracked})
          nxt += [(m, g) for m in fl]
        for m in cfg.succ[nid] - t - fl:        # exceptional edges of the test itself
          nxt.append((m, f))
      else:
        nxt = [(m, f) for m in cfg.succ[nid]]
      for (m, g) in nxt:
        work.append((m, frozenset(g.items())))
    return out


def never_returns(world, fn, node):
  """True when CFG node `node` is an expression statement calling a method of the same class
  (`self.m(...)`) none of whose paths returns normally (a raise extracted into a helper)."""
  s = node.stmt
  if not (isinstance(s, ast.Expr) and isinstance(s.value, ast.Call)):
    return False
  f = s.value.func
  if not (isinstance(f, ast.Attribute) and isinstance(f.value, ast.Name) and f.value.id == "self"):
    return False
  if fn.fi.cls is None:
    return False
  callee = world.repo.find_method(fn.fi.cls, f.attr)
  if callee is None:
    return False
  ccfg = world.fn_of(callee).cfg
  return ccfg.exit.id not in ccfg.reach({ccfg.entry.id})


# ------------------------------------------------------------------------------------------
def loop_breaks(loop):
  """`break` statements that leave exactly this loop (not those of loops nested in it)."""
  out = []
  def go(stmts):
    for s in stmts:
      if isinstance(s, ast.Break):
        out.append(s)
      if isinstance(s, (ast.For, ast.While, ast.AsyncFor)):
        go(s.orelse)            # a break in the else clause of an inner loop leaves *this* loop
        continue
      if isinstance(s, (ast.FunctionDef, ast.AsyncFunctionDef, ast.ClassDef)):
        continue
      for fld in ("body", "orelse", "finalbody"):
        b = getattr(s, fld, None)
        if isinstance(b, list) and b and isinstance(b[0], ast.stmt):
          go(b)
      for h in getattr(s, "handlers", []) or []:
        go(h.body)
  go(loop.body)
  return out


def stmts_in(stmts, types, into_loops=True):
  """Statements of the given types anywhere under `stmts` (not inside nested defs)."""
  out = []
  for s in stmts:
    if isinstance(s, (ast.FunctionDef, ast.AsyncFunctionDef, ast.ClassDef)):
      continue          # a nested definition's body does not run here
    for n in walk_no_nested(s):
      if isinstance(n, types):
        out.append(n)
  return out


def nodes_of_stmts(cfg, stmts):
  """ids of CFG nodes whose statement lies (at any depth) under the given statements."""
  inside = set()
  for s in stmts:
    for x in ast.walk(s):
      inside.add(id(x))
  return {n.id for n in cfg.nodes if n.stmt is not None and id(n.stmt) in inside}


def nodes_for(cfg, stmt):
  """ids of the CFG nodes built for exactly this statement (several when inside a finally)."""
  return {n.id for n in cfg.nodes if n.stmt is stmt}


# ------------------------------------------------------------------------------------------
MUTATING = ("pop", "popitem", "clear", "update", "setdefault", "add", "discard", "remove",
            "difference_update", "intersection_update", "symmetric_difference_update",
            "append", "extend", "insert", "__setitem__", "__delitem__", "sort", "reverse")


def attr_sites(fi, attr, aliases=()):
  """
  Every syntactic use of `<expr>.<attr>` (or of a local alias of it, see obj_sites) in function
  fi, classified:
    ("rebind", node)            target of an assignment / augmented assignment / del
    ("call", method, callnode)  <expr>.<attr>.method(...)
    ("store-item", node)        <expr>.<attr>[k] = v / del <expr>.<attr>[k] / <expr>.<attr>[k] += v
    ("read", node)              membership test, subscript load, truth test, len(...), iteration
    ("escape", node)            any other load (aliasing, passing as an argument, returning)
  """
  parents = {}
  for s in fi.node.body:
    for n in walk_no_nested(s, into_lambda=True):
      for ch in ast.iter_child_nodes(n):
        parents[id(ch)] = n
  out = []
  for s in fi.node.body:
    for n in walk_no_nested(s, into_lambda=True):
      if not ((isinstance(n, ast.Attribute) and n.attr == attr) or
              (isinstance(n, ast.Name) and n.id in aliases)):
        continue
      p = parents.get(id(n))
      if isinstance(n, ast.Name) and isinstance(n.ctx, ast.Store):
        continue            # the binding of the alias itself
      if isinstance(n, ast.Attribute) and isinstance(p, ast.Assign) and p.value is n and \
          len(p.targets) == 1 and isinstance(p.targets[0], ast.Name) and p.targets[0].id in aliases:
        continue            # `alias = <expr>.<attr>`: the uses of the alias are classified instead
      if isinstance(n.ctx, (ast.Store, ast.Del)):
        out.append(("rebind", n))
        continue
      if isinstance(p, ast.AugAssign) and p.target is n:
        out.append(("rebind", n))
        continue
      if isinstance(p, ast.Attribute) and p.value is n:
        pp = parents.get(id(p))
        if isinstance(pp, ast.Call) and pp.func is p:
          out.append(("call", p.attr, pp))
          continue
        out.append(("escape", n))
        continue
      if isinstance(p, ast.Subscript) and p.value is n:
        if isinstance(p.ctx, (ast.Store, ast.Del)):
          out.append(("store-item", p))
        else:
          pp = parents.get(id(p))
          if isinstance(pp, ast.AugAssign) and pp.target is p:
            out.append(("store-item", p))
          else:
            out.append(("read", n))
        continue
      if isinstance(p, ast.Compare) and any(c is n for c in p.comparators) and \
          all(isinstance(o, (ast.In, ast.NotIn)) for o in p.ops):
        out.append(("read", n))
        continue
      if isinstance(p, (ast.If, ast.While, ast.IfExp)) and p.test is n:
        out.append(("read", n))
        continue
      if isinstance(p, ast.UnaryOp) and isinstance(p.op, ast.Not):
        out.append(("read", n))
        continue
      if isinstance(p, ast.BoolOp):
        out.append(("read", n))
        continue
      if isinstance(p, ast.Call) and dotted(p.func) in ("len", "bool", "sorted") and n in p.args:
        out.append(("read", n))
        continue
      if isinstance(p, (ast.For, ast.comprehension)) and p.iter is n:
        out.append(("read", n))
        continue
      out.append(("escape", n))
  return out


def kwarg(call, name, pos=None):
  """Argument `name` of a call (keyword, or positional index `pos`), else None."""
  for k in call.keywords:
    if k.arg == name:
      return k.value
  if pos is not None and pos < len(call.args):
    return call.args[pos]
  return None


def is_const(e, value):
  return isinstance(e, ast.Constant) and e.value is value


# ==========================================================================================
# Spelling-independent helpers (roles, not spellings)
# ==========================================================================================
import copy as _copy
from ..astutil import func_body_walk, assigned_names
from ..index import FuncInfo
from ..fn import Fn


def _all_params(fnode):
  a = fnode.args
  out = [x.arg for x in a.posonlyargs + a.args + a.kwonlyargs]
  if a.vararg:
    out.append(a.vararg.arg)
  if a.kwarg:
    out.append(a.kwarg.arg)
  return out


def _sub(value, i):
  return ast.Subscript(value=value, slice=ast.Constant(value=i), ctx=ast.Load())


class Expander(object):
  """
  What a local *stands for*: a name bound exactly once in the function by a plain assignment
  (`x = e`, element-wise `a, b = e1, e2`, or positionally `a, b = e` -> `e[0]`, `e[1]`) is replaced
  by its defining expression, recursively. `norm(e)` is the normalised text of the result, so
  `n = d[0]; f(n)` and `f(d[0])` compare equal, and `(a, b, c) = cp; u[b:]` equals `u[cp[1]:]`.
  Used only to compare *roles*; nothing is moved or evaluated.
  """
  def __init__(self, fnode):
    self.fnode = fnode
    self.params = set(_all_params(fnode))
    counts = {}
    vals = {}
    def bind(t, v):
      if isinstance(t, ast.Name):
        counts[t.id] = counts.get(t.id, 0) + 1
        if v is not None:
          vals[t.id] = v
      elif isinstance(t, (ast.Tuple, ast.List)):
        if any(isinstance(e, ast.Starred) for e in t.elts):
          for nm in assigned_names(t):
            counts[nm] = counts.get(nm, 0) + 2
          return
        if isinstance(v, (ast.Tuple, ast.List)) and len(v.elts) == len(t.elts) and \
            not any(isinstance(e, ast.Starred) for e in v.elts):
          for a, b in zip(t.elts, v.elts):
            bind(a, b)
        else:
          for i, a in enumerate(t.elts):
            bind(a, _sub(v, i) if v is not None else None)
    for n in func_body_walk(fnode):
      if isinstance(n, ast.Assign):
        for t in n.targets:
          bind(t, n.value)
      elif isinstance(n, ast.AnnAssign) and n.value is not None:
        bind(n.target, n.value)
      elif isinstance(n, (ast.AugAssign, ast.For, ast.AsyncFor, ast.NamedExpr)):
        for nm in assigned_names(n.target):
          counts[nm] = counts.get(nm, 0) + 2
      elif isinstance(n, (ast.With, ast.AsyncWith)):
        for it in n.items:
          if it.optional_vars is not None:
            for nm in assigned_names(it.optional_vars):
              counts[nm] = counts.get(nm, 0) + 2
      elif isinstance(n, ast.ExceptHandler) and n.name:
        counts[n.name] = counts.get(n.name, 0) + 2
      elif isinstance(n, ast.Delete):
        for t in n.targets:
          for nm in assigned_names(t):
            counts[nm] = counts.get(nm, 0) + 2
      elif isinstance(n, (ast.Global, ast.Nonlocal)):
        for nm in n.names:
          counts[nm] = counts.get(nm, 0) + 2
      elif isinstance(n, (ast.Import, ast.ImportFrom)):
        for a in n.names:
          nm = (a.asname or a.name).split(".")[0]
          counts[nm] = counts.get(nm, 0) + 2
    for s in ast.walk(fnode):
      if isinstance(s, (ast.FunctionDef, ast.AsyncFunctionDef, ast.ClassDef)) and s is not fnode:
        counts[s.name] = counts.get(s.name, 0) + 2
    self.vals = {nm: v for nm, v in vals.items()
                 if counts.get(nm) == 1 and nm not in self.params}

  def value(self, name):
    """Defining expression of a single-assignment local (unexpanded), else None."""
    return self.vals.get(name)

  def expand(self, e, _stack=()):
    if e is None:
      return None
    ex = self
    class Tr(ast.NodeTransformer):
      def __init__(self):
        self.shadow = []
      def _shadowed(self, nm):
        return any(nm in s for s in self.shadow)
      def visit_Name(self, node):
        if isinstance(node.ctx, ast.Load) and node.id in ex.vals and \
            not self._shadowed(node.id) and node.id not in _stack and len(_stack) < 8:
          return ex.expand(ex.vals[node.id], _stack + (node.id,))
        return node
      def visit_Lambda(self, node):
        self.shadow.append(set(_all_params(node)))
        node.body = self.visit(node.body)
        self.shadow.pop()
        return node
      def _comp(self, node):
        bound = set()
        for g in node.generators:
          bound |= assigned_names(g.target)
        # the first iterable is evaluated in the enclosing scope
        first = node.generators[0]
        first.iter = self.visit(first.iter)
        self.shadow.append(bound)
        for i, g in enumerate(node.generators):
          if i:
            g.iter = self.visit(g.iter)
          g.ifs = [self.visit(x) for x in g.ifs]
        for fld in ("elt", "key", "value"):
          if hasattr(node, fld):
            setattr(node, fld, self.visit(getattr(node, fld)))
        self.shadow.pop()
        return node
      visit_ListComp = visit_SetComp = visit_GeneratorExp = visit_DictComp = _comp
    return Tr().visit(_copy.deepcopy(e))

  def norm(self, e):
    return text(self.expand(e)) if e is not None else None

  def deref(self, e):
    """Follow a bare Name to the (expanded) expression it stands for; other nodes: expanded."""
    return self.expand(e)


def expander(fn):
  """Cached Expander of an Fn."""
  ex = getattr(fn, "_expander", None)
  if ex is None:
    ex = fn._expander = Expander(fn.node)
  return ex


def strip_wrappers(e, names=("list", "tuple", "sorted", "iter")):
  """Peel order/content-preserving wrappers: list(x) -> x."""
  while isinstance(e, ast.Call) and dotted(e.func) in names and len(e.args) == 1 and not e.keywords:
    e = e.args[0]
  return e


# ------------------------------------------------------------------------------------------
def bind_call(call, fi, bound=None):
  """{parameter name: argument expression} of `call` against the signature of fi (defaults filled
  in for omitted parameters); None when it cannot be matched statically (*args / **kwargs)."""
  a = fi.node.args
  allpos = [x.arg for x in a.posonlyargs + a.args]
  names = list(allpos)
  if bound is None:
    bound = fi.cls is not None and fi.parent is None and names[:1] in (["self"], ["cls"]) and \
        not any(dotted(d) == "staticmethod" for d in fi.decorators())
  if bound:
    names = names[1:]
  if any(isinstance(x, ast.Starred) for x in call.args) or any(k.arg is None for k in call.keywords):
    return None
  if len(call.args) > len(names):
    return None
  out = {}
  for n, v in zip(names, call.args):
    out[n] = v
  kwonly = [x.arg for x in a.kwonlyargs]
  for k in call.keywords:
    if k.arg in out or not (k.arg in names or k.arg in kwonly):
      return None
    out[k.arg] = k.value
  off = len(allpos) - len(a.defaults)
  for i, n in enumerate(allpos):
    if n in names and n not in out and i >= off:
      out[n] = a.defaults[i - off]
  for x, d in zip(a.kwonlyargs, a.kw_defaults):
    if x.arg not in out and d is not None:
      out[x.arg] = d
  for n in names + kwonly:
    if n not in out:
      return None
  return out


def call_arg(call, fi, pname, bound=None):
  """Argument passed for parameter `pname` (positionally, by keyword, or its default), else None."""
  m = bind_call(call, fi, bound)
  return None if m is None else m.get(pname)


# ------------------------------------------------------------------------------------------
class _Subst(ast.NodeTransformer):
  """Rename locals / substitute parameters in a copied helper body."""
  def __init__(self, ren, sub):
    self.ren = ren      # old local name -> new local name
    self.sub = sub      # parameter name -> expression (Load sites only)

  def visit_Name(self, node):
    if node.id in self.sub and isinstance(node.ctx, ast.Load):
      return _copy.deepcopy(self.sub[node.id])
    if node.id in self.ren:
      return ast.copy_location(ast.Name(id=self.ren[node.id], ctx=node.ctx), node)
    return node

  def visit_ExceptHandler(self, node):
    if node.name in self.ren:
      node.name = self.ren[node.name]
    self.generic_visit(node)
    return node

  def visit_arg(self, node):
    if node.arg in self.ren:
      node.arg = self.ren[node.arg]
    return node


def _simple_arg(e):
  if isinstance(e, (ast.Name, ast.Constant)):
    return True
  if isinstance(e, ast.Attribute):
    return _simple_arg(e.value)
  return False


def _count_stmts(stmts):
  n = 0
  for s in stmts:
    for x in ast.walk(s):
      if isinstance(x, ast.stmt):
        n += 1
  return n


def _returns_in_loops(stmts, in_loop=False):
  """Does a `return` occur inside a loop of these statements (not in nested defs)?"""
  for s in stmts:
    if isinstance(s, (ast.FunctionDef, ast.AsyncFunctionDef, ast.ClassDef)):
      continue
    if isinstance(s, ast.Return) and in_loop:
      return True
    inner = in_loop or isinstance(s, (ast.For, ast.While, ast.AsyncFor))
    for fld in ("body", "orelse", "finalbody"):
      b = getattr(s, fld, None)
      if isinstance(b, list) and b and isinstance(b[0], ast.stmt):
        if _returns_in_loops(b, inner):
          return True
    for h in getattr(s, "handlers", []) or []:
      if _returns_in_loops(h.body, inner):
        return True
  return False


def _falls_through(stmts):
  """Can control run off the end of this statement list (conservatively True when unsure)?"""
  if not stmts:
    return True
  s = stmts[-1]
  if isinstance(s, (ast.Return, ast.Raise, ast.Continue, ast.Break)):
    return False
  if isinstance(s, ast.If):
    return _falls_through(s.body) or _falls_through(s.orelse)
  if isinstance(s, (ast.With, ast.AsyncWith)):
    return _falls_through(s.body)
  if isinstance(s, ast.Try):
    if s.finalbody and not _falls_through(s.finalbody):
      return False
    main = _falls_through(s.orelse) if s.orelse else _falls_through(s.body)
    return main or any(_falls_through(h.body) for h in s.handlers)
  if isinstance(s, ast.While) and isinstance(s.test, ast.Constant) and s.test.value and \
      not any(isinstance(x, ast.Break) for x in ast.walk(s)):
    return False
  return True


def _strip_doc(body):
  if body and isinstance(body[0], ast.Expr) and isinstance(body[0].value, ast.Constant) and \
      isinstance(body[0].value.value, str):
    return body[1:]
  return body


class Inliner(object):
  """
  Undo "a few statements extracted into a helper": builds, for a function, a copy of its AST in
  which calls of small same-class methods (`self.h(...)`) and same-module functions (`h(...)`) whose
  names are not in `keep` (the role-bearing functions the rules anchor on) are replaced by the
  helper's body, parameters substituted, locals renamed apart, followed `depth` levels. A helper
  with early returns is wrapped in a synthetic `while True: ...; break` (marked `_inl`), its
  returns becoming breaks. Calls that cannot be inlined (varargs, recursion, returns inside
  loops, generators, decorated or large helpers) are left alone. Nothing is executed.
  """
  def __init__(self, world, keep=(), max_stmts=30, max_public=10, depth=2):
    self.w = world
    self.keep = set(keep)
    self.max_stmts = max_stmts
    self.max_public = max_public
    self.depth = depth
    self._cache = {}
    self._n = 0

  # ---- resolution
  def _callee(self, fi, call, caller_names):
    f = call.func
    repo = self.w.repo
    if isinstance(f, ast.Attribute) and isinstance(f.value, ast.Name) and f.value.id == "self" \
        and fi.cls is not None:
      if len(repo.subclasses(fi.cls, strict=True)) and any(
          f.attr in c.methods for c in repo.subclasses(fi.cls, strict=True)):
        return None
      c = repo.find_method(fi.cls, f.attr)
      return (c, True) if c is not None else None
    if isinstance(f, ast.Name) and f.id not in caller_names:
      c = fi.module.functions.get(f.id)
      return (c, False) if c is not None else None
    return None

  def _inlinable(self, callee, stack):
    if callee.name in self.keep or callee.qualname in self.keep or callee.qualname in stack:
      return False
    if callee.decorators():
      return False
    node = callee.node
    if node.args.vararg or node.args.kwarg:
      return False
    body = _strip_doc(node.body)
    limit = self.max_stmts if callee.name.startswith("_") and not callee.name.startswith("__") \
        else self.max_public
    if not body or _count_stmts(body) > limit:
      return False
    for x in ast.walk(node):
      if isinstance(x, (ast.Yield, ast.YieldFrom, ast.Global, ast.Nonlocal, ast.Await)):
        return False
      if isinstance(x, (ast.FunctionDef, ast.AsyncFunctionDef, ast.ClassDef)) and x is not node:
        return False
    return True

  # ---- one call
  def _expand_call(self, fi, stmt, call, mode, target, names, stack, depth):
    """Statements replacing `stmt` (a statement whose value is `call`), or None."""
    r = self._callee(fi, call, names)
    if r is None:
      return None
    callee, bound = r
    if not self._inlinable(callee, stack):
      return None
    args = bind_call(call, callee, bound=bound)
    if args is None:
      return None
    body = _copy.deepcopy(_strip_doc(callee.node.body))
    if mode != "return" and _returns_in_loops(body):
      return None
    self._n += 1
    tag = "__h%d" % self._n
    # locals of the helper, renamed apart from the caller's names
    params = [p for p in _all_params(callee.node) if not (bound and p in ("self", "cls"))]
    stored = set()
    for s in body:
      for x in ast.walk(s):
        if isinstance(x, ast.Name) and isinstance(x.ctx, (ast.Store, ast.Del)):
          stored.add(x.id)
        elif isinstance(x, ast.ExceptHandler) and x.name:
          stored.add(x.name)
        elif isinstance(x, ast.Lambda):
          stored |= set(_all_params(x))
    ren, sub, pre = {}, {}, []
    for p in params:
      a = args[p]
      if p not in stored and _simple_arg(a):
        sub[p] = a
      else:
        newp = p + tag if p in names else p
        ren[p] = newp
        asg = ast.Assign(targets=[ast.Name(id=newp, ctx=ast.Store())], value=_copy.deepcopy(a))
        pre.append(ast.copy_location(asg, stmt))
    for nm in stored:
      if nm not in ren and nm not in sub and nm in names:
        ren[nm] = nm + tag
    tr = _Subst(ren, sub)
    body = [tr.visit(s) for s in body]
    names |= set(ren.values()) | stored
    # returns
    rets = [x for s in body for x in walk_no_nested(s) if isinstance(x, ast.Return)]
    def loc(n):
      return ast.copy_location(n, stmt)
    if mode == "return":
      out = pre + body
      if _falls_through(body):
        out.append(loc(ast.Return(value=None)))
    else:
      tail_only = all(x is body[-1] for x in rets)
      def conv(x):
        """statements replacing `return v`"""
        o = []
        if mode == "assign":
          v = x.value if x.value is not None else ast.Constant(value=None)
          o.append(ast.copy_location(ast.Assign(targets=[_copy.deepcopy(target)], value=v), x))
        elif x.value is not None and not isinstance(x.value, (ast.Constant, ast.Name)):
          o.append(ast.copy_location(ast.Expr(value=x.value), x))
        return o
      falls_off = _falls_through(body)
      if tail_only:
        out = pre + body[:-1] + conv(body[-1]) if rets else pre + body
        if falls_off and mode == "assign":
          out.append(loc(ast.Assign(targets=[_copy.deepcopy(target)],
                                    value=ast.Constant(value=None))))
      else:
        class R(ast.NodeTransformer):
          def visit_FunctionDef(self, n): return n
          def visit_Lambda(self, n): return n
          def visit_Return(self, n):
            return conv(n) + [ast.copy_location(ast.Break(), n)]
        nb = []
        for s in body:
          r2 = R().visit(s)
          nb.extend(r2 if isinstance(r2, list) else [r2])
        if falls_off and mode == "assign":
          nb.append(loc(ast.Assign(targets=[_copy.deepcopy(target)],
                                   value=ast.Constant(value=None))))
        nb.append(loc(ast.Break()))
        wh = loc(ast.While(test=ast.Constant(value=True), body=nb, orelse=[]))
        wh._inl = True
        out = pre + [wh]
      if not out:
        out = [loc(ast.Pass())]
    for s in out:
      ast.fix_missing_locations(s)
    if depth > 1:
      out = self._block(fi, out, names, stack + (callee.qualname,), depth - 1)
    return out

  def _expr_helper(self, fi, call, names, stack):
    """`return <expr>`-only helper called inside an expression: the substituted expression."""
    r = self._callee(fi, call, names)
    if r is None:
      return None
    callee, bound = r
    if not self._inlinable(callee, stack):
      return None
    body = _strip_doc(callee.node.body)
    # one returned expression, possibly computed through plain single-assignment locals
    if not body or not isinstance(body[-1], ast.Return) or body[-1].value is None or \
        not all(isinstance(b, ast.Assign) and len(b.targets) == 1 and
                isinstance(b.targets[0], ast.Name) for b in body[:-1]):
      return None
    args = bind_call(call, callee, bound=bound)
    if args is None:
      return None
    if len(body) > 1:
      hx = Expander(callee.node)
      if not all(b.targets[0].id in hx.vals for b in body[:-1]):
        return None
      e = hx.expand(body[-1].value)
    else:
      e = _copy.deepcopy(body[-1].value)
    inner = set()
    for x in ast.walk(e):
      if isinstance(x, ast.Name) and isinstance(x.ctx, ast.Store):
        inner.add(x.id)
      if isinstance(x, ast.Lambda):
        inner |= set(_all_params(x))
    if inner & (set(args) | names):
      return None
    sub = {p: a for p, a in args.items()}
    return _Subst({}, sub).visit(e)

  def _exprs(self, fi, node, names, stack):
    """Replace expression-helper calls inside the expressions of one statement header."""
    inl = self
    class T(ast.NodeTransformer):
      def visit_FunctionDef(self, n): return n
      def visit_AsyncFunctionDef(self, n): return n
      def visit_ClassDef(self, n): return n
      def visit_Call(self, n):
        self.generic_visit(n)
        r = inl._expr_helper(fi, n, names, stack)
        if r is not None:
          return ast.copy_location(r, n)
        return n
    t = T()
    for fld, val in ast.iter_fields(node):
      if fld in ("body", "orelse", "finalbody", "handlers"):
        continue
      if isinstance(val, ast.AST):
        setattr(node, fld, t.visit(val))
      elif isinstance(val, list):
        setattr(node, fld, [t.visit(v) if isinstance(v, ast.AST) else v for v in val])
    return node

  def _block(self, fi, stmts, names, stack, depth):
    out = []
    for s in stmts:
      if isinstance(s, (ast.FunctionDef, ast.AsyncFunctionDef, ast.ClassDef)):
        out.append(s)
        continue
      rep = None
      if depth > 0:
        if isinstance(s, ast.Expr) and isinstance(s.value, ast.Call):
          rep = self._expand_call(fi, s, s.value, "expr", None, names, stack, depth)
        elif isinstance(s, ast.Assign) and isinstance(s.value, ast.Call) and len(s.targets) == 1 \
            and isinstance(s.targets[0], (ast.Name, ast.Attribute, ast.Tuple)):
          rep = self._expand_call(fi, s, s.value, "assign", s.targets[0], names, stack, depth)
        elif isinstance(s, ast.Return) and isinstance(s.value, ast.Call):
          rep = self._expand_call(fi, s, s.value, "return", None, names, stack, depth)
      if rep is not None:
        out.extend(rep)
        continue
      if depth > 0:
        self._exprs(fi, s, names, stack)
      for fld in ("body", "orelse", "finalbody"):
        b = getattr(s, fld, None)
        if isinstance(b, list) and b and isinstance(b[0], ast.stmt):
          setattr(s, fld, self._block(fi, b, names, stack, depth))
      for h in getattr(s, "handlers", []) or []:
        h.body = self._block(fi, h.body, names, stack, depth)
      out.append(s)
    return out

  # ---- entry point
  def fn(self, qualname):
    """Fn over the inlined copy of the function (same qualname, same FuncInfo identity data)."""
    if qualname in self._cache:
      return self._cache[qualname]
    fi = self.w.repo.func(qualname)
    node = _copy.deepcopy(fi.node)
    names = set(_all_params(node))
    for x in ast.walk(node):
      if isinstance(x, ast.Name):
        names.add(x.id)
    node.body = self._block(fi, node.body, names, (fi.qualname,), self.depth)
    ast.fix_missing_locations(node)
    f = IFn(self.w, fi, node)
    self._cache[qualname] = f
    return f

  def fn_of(self, fi):
    return self.fn(fi.qualname)


class IFn(Fn):
  """Fn over a rewritten copy of a function's AST (see Inliner)."""
  def __init__(self, world, fi, node):
    fi2 = FuncInfo(fi.module, fi.cls, node, fi.qualname, fi.parent)
    Fn.__init__(self, world, fi2)
    self.orig = fi
    self._tfi = FuncInfo(fi.module, fi.cls, node, fi.qualname + "@inl", fi.parent)

  @property
  def env(self):
    if self._env is None:
      self._env = self.world.typer.env(self._tfi)
    return self._env

  @property
  def inlined(self):
    return text(self.node) != text(self.orig.node)


def real_loops(stmts, types=(ast.For, ast.While)):
  """Loops of the code under `stmts`, the Inliner's synthetic wrappers excluded."""
  return [s for s in stmts_in(stmts, types) if not getattr(s, "_inl", False)]


# ------------------------------------------------------------------------------------------
# Atoms: boolean-valued expressions compared modulo negation spelling
_NEG_OPS = {ast.IsNot: ast.Is, ast.NotIn: ast.In, ast.NotEq: ast.Eq}


def atom_of(e):
  """(positive-form text, polarity): `x is not None` -> ("x is None", False); `not a` -> (a, False);
  other expressions -> (text, True)."""
  pol = True
  while isinstance(e, ast.UnaryOp) and isinstance(e.op, ast.Not):
    e = e.operand
    pol = not pol
  if isinstance(e, ast.Compare) and len(e.ops) == 1 and type(e.ops[0]) in _NEG_OPS:
    e2 = ast.Compare(left=e.left, ops=[_NEG_OPS[type(e.ops[0])]()], comparators=e.comparators)
    return text(e2), not pol
  return text(e), pol


class Facts(FactReach):
  """
  FactReach over *atoms*: any sub-expression of a test whose normalised positive form (locals
  expanded through `ex`; `is not` / `not in` / `!=` turned into their negations; `X is None` read
  as `not X`) is one of `atoms` is a tracked fact. Disjunctions split the path (`if a or b:` is
  entered with a true, or with a false and b true). A fact is dropped where a name occurring in it
  is rebound, or its attribute is assigned (a constant assigned to a tracked name/attribute sets
  it; `on_assign(stmt)` may supply facts established by other assignments), and -- for atoms
  listed in `call_kills` -- at every node evaluating a call.
  """
  def __init__(self, cfg, atoms, ex=None, call_kills=(), noreturn=None, on_assign=None):
    FactReach.__init__(self, cfg, atoms, call_kills=call_kills, noreturn=noreturn)
    self.ex = ex
    self.on_assign = on_assign
    self._names = {}
    self._canon = {}      # expanded spelling of an atom -> the caller's spelling
    for a in atoms:
      try:
        tree = ast.parse(a, mode="eval").body
      except SyntaxError:
        self._names[a] = set()
        self._canon[a] = a
        continue
      self._names[a] = {n.id for n in ast.walk(tree) if isinstance(n, ast.Name)}
      self._canon[a] = a
      if ex is not None:
        self._canon[ex.norm(tree)] = a

  def akey(self, e):
    e2 = self.ex.expand(e) if self.ex is not None else e
    k, pol = atom_of(e2)
    if k in self._canon:
      return self._canon[k], pol
    if k.endswith(" is None") and k[:-len(" is None")] in self._canon:
      return self._canon[k[:-len(" is None")]], not pol
    return None, True

  def value(self, test, facts):
    k, pol = self.akey(test)
    if k is not None:
      v = facts.get(k)
      return None if v is None else (v == pol)
    if isinstance(test, ast.Constant):
      return bool(test.value)
    if isinstance(test, ast.UnaryOp) and isinstance(test.op, ast.Not):
      v = self.value(test.operand, facts)
      return None if v is None else (not v)
    if isinstance(test, ast.BoolOp):
      vs = [self.value(v, facts) for v in test.values]
      if isinstance(test.op, ast.And):
        if any(v is False for v in vs):
          return False
        return True if all(v is True for v in vs) else None
      if any(v is True for v in vs):
        return True
      return False if all(v is False for v in vs) else None
    return None

  def cases(self, test, truth):
    """Fact dicts (a disjunction) describing how `test` can evaluate to `truth`."""
    k, pol = self.akey(test)
    if k is not None:
      return [{k: truth == pol}]
    if isinstance(test, ast.UnaryOp) and isinstance(test.op, ast.Not):
      return self.cases(test.operand, not truth)
    if isinstance(test, ast.BoolOp):
      conj = (isinstance(test.op, ast.And) and truth) or (isinstance(test.op, ast.Or) and not truth)
      if conj:
        out = [{}]
        for v in test.values:
          nxt = []
          for a in out:
            for b in self.cases(v, truth):
              if all(a.get(x, y) == y for x, y in b.items()):
                c = dict(a)
                c.update(b)
                nxt.append(c)
          out = nxt[:64]
        return out
      out = []
      prefix = {}
      for v in test.values:
        for b in self.cases(v, truth):
          if all(prefix.get(x, y) == y for x, y in b.items()):
            c = dict(prefix)
            c.update(b)
            out.append(c)
        # later operands are only evaluated when this one did not decide
        pc = self.cases(v, not truth)
        if len(pc) == 1:
          prefix.update(pc[0])
      return out[:64] or [{}]
    return [{}]

  def learn(self, test, truth):
    cs = self.cases(test, truth)
    return cs[0] if len(cs) == 1 else {}

  def _transfer(self, n, facts):
    s = n.stmt
    if s is None or n.kind in ("handler", "def"):
      return facts
    f = dict(facts)
    if n.kind in ("stmt", "for", "with"):
      bound = set(stmt_defs(s))
      for k in list(f):
        if self._names.get(k, set()) & bound:
          f.pop(k, None)
      tg = s.targets if isinstance(s, ast.Assign) else \
          ([s.target] if isinstance(s, (ast.AugAssign, ast.AnnAssign)) else [])
      for t in tg:
        for el in (t.elts if isinstance(t, (ast.Tuple, ast.List)) else [t]):
          k = key_of(el)
          if k is not None and k in self.tracked:
            f.pop(k, None)
            if isinstance(s, ast.Assign) and isinstance(s.value, ast.Constant) and el is t:
              f[k] = bool(s.value.value)
      if self.on_assign is not None and isinstance(s, (ast.Assign, ast.AugAssign, ast.AnnAssign)):
        f.update({k: v for k, v in (self.on_assign(s) or {}).items() if k in self.tracked})
    if self.call_kills and any(True for _ in calls_in(n.exprs)):
      for k in self.call_kills:
        f.pop(k, None)
    return f

  def run(self, starts, stop=()):
    cfg = self.cfg
    stop = set(stop)
    seen = set()
    out = {}
    work = [(nid, frozenset((k, v) for k, v in f.items() if k in self.tracked))
            for (nid, f) in starts]
    while work:
      st = work.pop()
      if st in seen:
        continue
      seen.add(st)
      nid, ff = st
      out.setdefault(nid, []).append(dict(ff))
      if nid in stop:
        continue
      n = cfg.nodes[nid]
      f = self._transfer(n, dict(ff))
      if self.noreturn is not None and n.kind == "stmt" and self.noreturn(n):
        self.noreturn_seen.add(nid)
        for m in cfg.succ[nid]:
          if (nid, m) in cfg.exc_edges:
            work.append((m, frozenset(f.items())))
        continue
      if n.kind in ("if", "while") and not isinstance(n.stmt.test, ast.Constant):
        t, fl = branch_succ(cfg, nid)
        v = self.value(n.stmt.test, f)
        nxt = []
        for (truth, dests) in ((True, t), (False, fl)):
          if v is (not truth):
            continue
          for c in self.cases(n.stmt.test, truth):
            if any(f.get(x, y) != y for x, y in c.items()):
              continue            # contradicts what is known on this path
            g = dict(f)
            g.update(c)
            nxt += [(m, g) for m in dests]
        for m in cfg.succ[nid] - t - fl:
          nxt.append((m, f))
      else:
        nxt = [(m, f) for m in cfg.succ[nid]]
      ign = getattr(self, "ignore_edges", None)
      for (m, g) in nxt:
        if ign and (nid, m) in ign:
          continue
        work.append((m, frozenset(g.items())))
    return out


# ------------------------------------------------------------------------------------------
class Owners(object):
  """
  Who a piece of code *belongs to* when it was moved into a helper: a function that is not one of
  the rule's named owners is attributed to the functions calling it (by name, anywhere in the
  repository), transitively; it stays its own owner when it has no callers, its name is also used
  as a value (callback), or several functions share the name.
  """
  def __init__(self, world):
    self.w = world
    self.calls = {}       # callee name -> set(caller qualname)
    self.values = set()   # names used other than as the callee of a call
    self.defs = {}        # name -> [FuncInfo]
    for fi in world.repo.all_functions():
      self.defs.setdefault(fi.name, []).append(fi)
    names = set(self.defs)
    for fi in world.repo.all_functions():
      callee_nodes = set()
      for s in fi.node.body:
        for x in walk_no_nested(s, into_lambda=True):
          if isinstance(x, ast.Call):
            f = x.func
            nm = f.attr if isinstance(f, ast.Attribute) else (f.id if isinstance(f, ast.Name) else None)
            if nm in names:
              self.calls.setdefault(nm, set()).add(fi.qualname)
              callee_nodes.add(id(f))
      for s in fi.node.body:
        for x in walk_no_nested(s, into_lambda=True):
          if id(x) in callee_nodes:
            continue
          if isinstance(x, ast.Attribute) and x.attr in names and isinstance(x.ctx, ast.Load):
            self.values.add(x.attr)
          elif isinstance(x, ast.Name) and x.id in names and isinstance(x.ctx, ast.Load):
            self.values.add(x.id)

  def of(self, fi, named, _depth=0, _seen=None):
    """Set of qualnames the code of fi is attributed to; `named`: qualnames that own themselves."""
    _seen = _seen if _seen is not None else set()
    if fi.qualname in named or fi.qualname in _seen or _depth > 3:
      return {fi.qualname}
    _seen.add(fi.qualname)
    if fi.parent is not None:          # closure: runs on behalf of the enclosing function
      return self.of(fi.parent, named, _depth + 1, _seen)
    callers = self.calls.get(fi.name, set()) - {fi.qualname}
    if not callers or fi.name in self.values or len(self.defs.get(fi.name, [])) != 1 or \
        (fi.name.startswith("__") and fi.name.endswith("__")):
      return {fi.qualname}
    out = set()
    for q in callers:
      c = self.w.repo.funcs.get(q)
      out |= self.of(c, named, _depth + 1, _seen) if c is not None else {q}
    return out


# ------------------------------------------------------------------------------------------
def obj_sites(fi, attr):
  """attr_sites, following local aliases: `m = self.<attr>` (m bound once) makes every use of `m`
  a use of the attribute instead of an escape."""
  ex = Expander(fi.node)
  aliases = set()
  for nm, v in ex.vals.items():
    if isinstance(v, ast.Attribute) and v.attr == attr:
      aliases.add(nm)
  if not aliases:
    return attr_sites(fi, attr)
  return attr_sites(fi, attr, aliases=aliases)


# ------------------------------------------------------------------------------------------
# Role-bearing functions of the scheduler / action log that the C03/C06/C18/C29 rules anchor on by
# name: never dissolved by the Inliner (everything else small and local is).
KEEP_A = {
  "_recompute_step", "_update_loop", "_recompute", "_recompute_one_cell", "_use_node",
  "_make_sorted_work_items", "_bring_all_up_to_date", "_bring_mlookups_up_to_date",
  "_get_undo_checkpoint", "_undo_to_checkpoint", "_apply_one_user_action", "apply_user_actions",
  "apply_doc_action", "_do_doc_action", "_do_extra_doc_action", "prevent_recalc", "_pre_update",
  "_post_update", "_flush_changes", "get_formula_value", "get_formula_error", "action_from_repr",
  "get_action_repr", "encode_objects", "decode_objects", "convert_recursive_in_action",
  "convert_recursive_helper", "convert_action_values", "invalidate_records", "invalidate_column",
  "invalidate_deps", "add_records", "load_table", "rebuild_usercode", "remove",
  "apply_auto_removes", "ApplyUndoActions", "ApplyDocActions", "_requesting", "set_requirer",
  "raw_get", "get_cell_value", "delete_column", "assert_schema_consistent", "update_current_time",
  "use_current_time", "fetch_table", "fetch_meta_tables", "find_col_from_values", "autocomplete",
  "_maybe_update_trigger_dependencies", "reset_dependencies", "remove_node_if_unused",
  "flush_calc_changes", "check_sanity", "BulkUpdateRecord",
}


def inliner(w):
  """The world's shared Inliner for the group-A rules."""
  inl = getattr(w, "_inliner_A", None)
  if inl is None:
    inl = w._inliner_A = Inliner(w, keep=KEEP_A)
  return inl


def reaching_defs(cfg, du, nid, name):
  """Ids of the nodes whose binding of `name` may be the one seen on entry to node nid."""
  defs = du.defs.get(name, set())
  live = getattr(cfg, "_live_nodes", None)
  if live is None:
    live = cfg._live_nodes = cfg.reach({cfg.entry.id})
  out, seen, work = set(), set(), list(cfg.pred[nid])
  while work:
    x = work.pop()
    if x in seen or x not in live:
      continue
    seen.add(x)
    if x in defs:
      out.add(x)
      continue
    work.extend(cfg.pred[x])
  return out


def value_at(fn, cfg, du, nid, e, depth=0):
  """Expression `e` evaluated at node nid with locals resolved: a bare name bound several times is
  followed to its single reaching definition (`ret = E; return ret` in each branch), everything
  else goes through the function's Expander."""
  ex = expander(fn)
  while isinstance(e, ast.Name) and depth < 6 and e.id not in ex.vals:
    rd = reaching_defs(cfg, du, nid, e.id)
    if len(rd) != 1:
      break
    d = cfg.nodes[next(iter(rd))]
    s = d.stmt
    if not (d.kind == "stmt" and isinstance(s, ast.Assign) and len(s.targets) == 1 and
            isinstance(s.targets[0], ast.Name)):
      break
    e, nid, depth = s.value, d.id, depth + 1
  return ex.expand(e)


def derefs_at(fn, cfg, du, nid, e, depth=0, _seen=None):
  """All expressions a bare name may stand for at node nid: every reaching binding is followed
  (`if c: r = A else: r = B; return r` gives A and B). [(expr, node id where it is evaluated)];
  a binding that is not a plain `name = expr` yields the name itself (unresolved)."""
  _seen = _seen if _seen is not None else set()
  if not isinstance(e, ast.Name) or depth > 6:
    return [(e, nid)]
  rd = reaching_defs(cfg, du, nid, e.id)
  if not rd:
    return [(e, nid)]
  out = []
  for d_ in sorted(rd):
    if (d_, e.id) in _seen:
      continue
    _seen.add((d_, e.id))
    d = cfg.nodes[d_]
    s = d.stmt
    if d.kind == "stmt" and isinstance(s, ast.Assign) and len(s.targets) == 1 and \
        isinstance(s.targets[0], ast.Name):
      out += derefs_at(fn, cfg, du, d.id, s.value, depth + 1, _seen)
    else:
      out.append((e, nid))
  return out or [(e, nid)]


def values_at(fn, cfg, du, nid, e):
  """All values expression e may have at node nid (see derefs_at), locals expanded."""
  ex = expander(fn)
  if isinstance(e, ast.Name) and e.id in ex.vals:
    return [ex.expand(e)]
  return [ex.expand(v) for (v, at) in derefs_at(fn, cfg, du, nid, e)]


def returns_of(fn, cfg=None):
  """[(cfg node, Return stmt, resolved value expr or None)] for every return of the function; a
  returned local bound on several paths gives one entry per binding."""
  from ..dataflow import DefUse
  cfg = cfg or fn.cfg
  du = DefUse(fn, cfg)
  out = []
  for n in cfg.nodes:
    if n.kind == "return":
      v = n.stmt.value
      if v is None:
        out.append((n, n.stmt, None))
      else:
        for x in values_at(fn, cfg, du, n.id, v):
          out.append((n, n.stmt, x))
  return out


def followed(inl, fi, owners):
  """When code of helper fi is attributed to `owners`, the position-sensitive rules look at the
  owners' inlined bodies: make sure the helper really was dissolved there (no call of it is left).
  Raises AnalysisError otherwise (the helper is too large / too dynamic to follow)."""
  for q in owners:
    if q == fi.qualname:
      continue
    f = inl.fn(q)
    for c in calls_in(f.node.body, into_lambda=True):
      nm = c.func.attr if isinstance(c.func, ast.Attribute) else \
          (c.func.id if isinstance(c.func, ast.Name) else None)
      if nm == fi.name:
        raise AnalysisError("%s: its effect belongs to %s, but the call cannot be followed "
                            "(helper too large or not a plain local call)" % (fi.qualname, q))
  return True


def deref_at(fn, cfg, du, nid, e, depth=0):
  """Follow a bare name at node nid to the expression of its (single reaching) binding, without
  expanding anything inside that expression. Returns (expr, node id where it is evaluated)."""
  ex = expander(fn)
  while isinstance(e, ast.Name) and depth < 6:
    rd = reaching_defs(cfg, du, nid, e.id)
    if len(rd) != 1:
      break
    d = cfg.nodes[next(iter(rd))]
    s = d.stmt
    if not (d.kind == "stmt" and isinstance(s, ast.Assign) and len(s.targets) == 1 and
            isinstance(s.targets[0], ast.Name)):
      break
    e, nid, depth = s.value, d.id, depth + 1
  return e, nid


def innermost_loop(fnode, stmt):
  """Innermost real (non-synthetic) loop lexically enclosing `stmt`, else None."""
  from ..astutil import enclosing_chain
  loops = [x for (x, fld) in enclosing_chain(fnode, stmt)
           if isinstance(x, (ast.For, ast.While)) and not getattr(x, "_inl", False) and fld == "body"]
  return loops[-1] if loops else None


def enclosing_loops(fnode, stmt):
  """Real (non-synthetic) loops whose body lexically encloses `stmt`, outermost first."""
  from ..astutil import enclosing_chain
  return [x for (x, fld) in enclosing_chain(fnode, stmt)
          if isinstance(x, (ast.For, ast.While)) and not getattr(x, "_inl", False) and fld == "body"]


def built_list(fn, cfg, du, nid, name):
  """Loop <-> comprehension: if the local `name` is, on entry to node nid, a list built by
  `name = []` and exactly one unconditional `name.append(ELT)` per iteration of one loop
  `for T in IT:` (nothing else binds or mutates it, no break/continue/if in the loop), return the
  equivalent comprehension pieces (ELT, T, IT, loop statement); else None."""
  defs = du.defs.get(name, set())
  muts = du.muts.get(name, set())
  if len(defs) != 1 or len(muts) != 1:
    return None
  d = cfg.nodes[next(iter(defs))]
  m = cfg.nodes[next(iter(muts))]
  if not (d.kind == "stmt" and isinstance(d.stmt, ast.Assign) and len(d.stmt.targets) == 1 and
          isinstance(d.stmt.targets[0], ast.Name)):
    return None
  v = d.stmt.value
  if not ((isinstance(v, ast.List) and not v.elts) or
          (isinstance(v, ast.Call) and dotted(v.func) == "list" and not v.args and not v.keywords)):
    return None
  s = m.stmt
  if not (m.kind == "stmt" and isinstance(s, ast.Expr) and isinstance(s.value, ast.Call) and
          isinstance(s.value.func, ast.Attribute) and s.value.func.attr == "append" and
          isinstance(s.value.func.value, ast.Name) and s.value.func.value.id == name and
          len(s.value.args) == 1 and not s.value.keywords):
    return None
  lp = innermost_loop(fn.node, s)
  if lp is None or not isinstance(lp, ast.For) or lp.orelse:
    return None
  if not any(x is s for x in lp.body):
    return None
  if stmts_in(lp.body, (ast.If, ast.Continue, ast.Break, ast.Return, ast.Try, ast.While, ast.For)):
    return None
  heads = nodes_for(cfg, lp)
  if not all(cfg.dominated_by(h, {d.id}) for h in heads) or \
      not cfg.dominated_by(nid, heads) or innermost_loop(fn.node, d.stmt) is not \
      innermost_loop(fn.node, lp):
    return None
  return s.value.args[0], lp.target, lp.iter, lp


def need(found, msg):
  """A violation is reported only for a mechanism that was positively identified and seen broken;
  when the mechanism itself cannot be found / followed, the rule cannot decide."""
  if not found:
    raise AnalysisError(msg)


BUILTIN_CALLS = {"list", "tuple", "set", "frozenset", "dict", "sorted", "reversed", "enumerate",
                 "zip", "map", "filter", "iter", "len", "bool", "type", "isinstance", "range",
                 "min", "max", "sum", "any", "all", "str", "int", "repr", "getattr", "next"}


def opaque_parts(w, fi, e, known=()):
  """Sub-expressions of e (locals already expanded) that the rules cannot see through: calls of
  something that is neither a builtin, nor a function/class of the repository named in `known` or
  resolvable in fi's module, and bare names that are neither parameters nor module-level names.
  An expression without opaque parts is fully understood: a mismatch is then a real mismatch."""
  out = []
  params = set(_all_params(fi.node))
  mod = fi.module
  bound = set()
  for x in ast.walk(e):
    if isinstance(x, ast.comprehension):
      bound |= assigned_names(x.target)
    elif isinstance(x, ast.Lambda):
      bound |= set(_all_params(x))
  callee_ids = set()
  for x in ast.walk(e):
    if isinstance(x, ast.Call):
      callee_ids.add(id(x.func))
      d = dotted(x.func)
      if d is None:
        if isinstance(x.func, ast.Attribute):
          continue              # method of a computed value (d.get(k)(...)): judged by its receiver
        if isinstance(x.func, (ast.Call, ast.Subscript)):
          continue
        out.append(x)
        continue
      last = d.split(".")[-1]
      head = d.split(".")[0]
      if d in BUILTIN_CALLS or last in known:
        continue
      if "." in d and head in params | bound | {"self"}:
        # method call on a parameter / self: opaque unless named in `known`
        if head == "self" and fi.cls is not None and w.repo.find_method(fi.cls, last) is not None:
          out.append(x)         # a same-class helper that was not dissolved
        continue
      if d in mod.functions or d in mod.classes or head in mod.imports or head in mod.assigns \
          or head in mod.classes:
        continue
      out.append(x)
  for x in ast.walk(e):
    if isinstance(x, ast.Name) and isinstance(x.ctx, ast.Load) and id(x) not in callee_ids:
      if x.id in params or x.id in bound or x.id in mod.functions or x.id in mod.classes or \
          x.id in mod.imports or x.id in mod.assigns or x.id in BUILTIN_CALLS or \
          x.id in ("self", "True", "False", "None"):
        continue
      out.append(x)
  return out


def opaque_calls(w, fi, e):
  """Calls inside e that the rules cannot see through (same-class helpers that were not dissolved,
  unresolvable plain calls); names are not judged (see opaque_parts)."""
  return [x for x in opaque_parts(w, fi, e) if isinstance(x, ast.Call)]


def same_or_opaque(w, fn, e, want, what):
  """Does expression e (an argument, an operand) denote `want` (normalised text)? A mismatch counts
  only when e is fully visible; otherwise the rule cannot decide."""
  if e is None:
    return False
  ex = expander(fn)
  got = ex.norm(e)
  if got == want:
    return True
  need(not opaque_parts(w, fn.fi, ex.expand(e)),
       "%s: cannot follow `%s` (%s)" % (fn.qualname, short(e), what))
  return False


def opaque_tests(w, fn, cfg=None, within=None):
  """Branch tests of fn containing calls that cannot be seen through: a path-sensitive verdict that
  depends on what such a test establishes cannot be trusted."""
  cfg = cfg or fn.cfg
  ex = expander(fn)
  out = []
  for n in cfg.nodes:
    if n.kind in ("if", "while") and (within is None or n.id in within):
      if opaque_calls(w, fn.fi, ex.expand(n.stmt.test)):
        out.append(n)
  return out


def undissolved(w, fn, cfg=None, within=None):
  """Calls (anywhere in the nodes `within`, default: all) of same-class / same-module helpers that
  the Inliner left in place although they are not role-bearing: code the rules cannot see, which may
  contain the very step a rule is looking for."""
  cfg = cfg or fn.cfg
  out = []
  fi = fn.fi
  for n in cfg.nodes:
    if within is not None and n.id not in within:
      continue
    for c in calls_in(n.exprs, into_lambda=True):
      f = c.func
      callee = None
      if isinstance(f, ast.Attribute) and isinstance(f.value, ast.Name) and f.value.id == "self" \
          and fi.cls is not None:
        callee = w.repo.find_method(fi.cls, f.attr)
      elif isinstance(f, ast.Name):
        callee = fi.module.functions.get(f.id)
      if callee is not None and callee.name not in KEEP_A and callee.qualname != fi.qualname:
        out.append(c)
  return out


def is_empty_value(e):
  """None, an empty display, or a constructor call without arguments (set(), OrderedDict(), ...)."""
  if isinstance(e, ast.Constant) and e.value is None:
    return True
  if isinstance(e, (ast.List, ast.Tuple, ast.Set)) and not e.elts:
    return True
  if isinstance(e, ast.Dict) and not e.keys:
    return True
  return isinstance(e, ast.Call) and not e.args and not e.keywords and \
      dotted(e.func) in ("set", "dict", "list", "OrderedDict", "collections.OrderedDict", "frozenset")


def is_frame_reset(w, fi, target):
  """The per-frame reset written in place (helper inlined into its caller): `target` (an attribute
  store in function fi) is assigned an empty value, outside any loop, in a function that itself runs
  update loops, and strictly before all of them or after all of them -- never between or inside."""
  fn = w.fn_of(fi)
  cfg = fn.cfg
  stmts = [s for s in stmts_in(fi.node.body, ast.Assign) if any(t is target for t in s.targets)]
  if len(stmts) != 1 or not is_empty_value(stmts[0].value):
    return False
  if innermost_loop(fi.node, stmts[0]) is not None:
    return False
  loops = fn.nodes_calling(lambda c, nm, f: nm == "self._update_loop")
  if not loops:
    return False
  rs = nodes_for(cfg, stmts[0])
  before = all(cfg.dominated_by(u, rs) for u in loops)
  after = all(all(cfg.dominated_by(r, {u}) for u in loops) or
              not (cfg.reach({r}) & loops) for r in rs) and \
      not any(cfg.reach({r}) & loops for r in rs)
  return before or after


def typed_handler_noise(cfg, try_stmt, raisers):
  """Exceptional edges into the *typed* handlers of `try_stmt` from nodes other than `raisers`: the
  exceptions those handlers name (OrderError, RequestingError) are raised by the evaluation only,
  so such edges are artefacts of "any call may raise"."""
  hs = {n.id for n in cfg.nodes if n.kind == "handler" and
        any(n.stmt is h and h.type is not None for h in try_stmt.handlers)}
  return {(a, b) for (a, b) in cfg.exc_edges if b in hs and a not in raisers}


def reach_pruned(cfg, starts, removed=(), ignore_edges=()):
  """cfg.reach with some edges ignored."""
  removed = set(removed)
  seen = set()
  stack = [s_ for s_ in starts if s_ not in removed]
  while stack:
    x = stack.pop()
    if x in seen:
      continue
    seen.add(x)
    for y in cfg.succ[x]:
      if y not in removed and y not in seen and (x, y) not in ignore_edges:
        stack.append(y)
  return seen


# ==========================================================================================
# Private anchors by ROLE. The rules name the engine's private helpers (`_recompute_step`, ...). When
# one of them was renamed, or a self-less one was moved to module level, the function playing the
# role is looked up by what it does, and the parsed tree of this run is normalised so that it bears
# the canonical name again (definition and call sites): every rule then works unchanged. Only the
# in-memory index of this run is touched; nothing is executed or written.
def _has_call(fnode, pred):
  return any(isinstance(x, ast.Call) and pred(x) for x in ast.walk(fnode))


def _attr_stores(fnode):
  return {x.attr for x in ast.walk(fnode)
          if isinstance(x, ast.Attribute) and isinstance(x.ctx, ast.Store)}


def _attr_loads(fnode):
  return {x.attr for x in ast.walk(fnode)
          if isinstance(x, ast.Attribute) and isinstance(x.ctx, ast.Load)}


def _calls_named(fnode, *names):
  return _has_call(fnode, lambda c: (dotted(c.func) or "").split(".")[-1] in names or
                   (isinstance(c.func, ast.Attribute) and c.func.attr in names))


ROLE_FINDERS = {
  # canonical name -> predicate over a FunctionDef of module `engine` (role, in one sentence)
  "_maybe_update_trigger_dependencies":   # tests and resets the "trigger columns changed" flag
    lambda f: "_have_trigger_columns_changed" in _attr_loads(f) and
    "_have_trigger_columns_changed" in _attr_stores(f) and _calls_named(f, "clear_dependencies"),
  "_make_sorted_work_items":     # builds the WorkItems of a sorted sequence of nodes
    lambda f: _calls_named(f, "WorkItem") and _calls_named(f, "sorted", "sort") and
    not _calls_named(f, "pop"),
  "_update_loop":                # pops work items and re-orders on OrderError
    lambda f: _calls_named(f, "pop") and _calls_named(f, "WorkItem") and
    any(isinstance(x, ast.ExceptHandler) and x.type is not None and
        (dotted(x.type) or "").endswith("OrderError") for x in ast.walk(f)),
  "_recompute_step":             # scans chain(required, dirty) rows of one node
    lambda f: _calls_named(f, "chain") and _calls_named(f, "OrderError"),
  "_recompute_one_cell":         # runs the user code of one cell inside a bare except
    lambda f: _calls_named(f, "method") and
    any(isinstance(x, ast.ExceptHandler) and x.type is None for x in ast.walk(f)),
  "_recompute":                  # dispatches a dirty read on _in_update_loop
    lambda f: "_in_update_loop" in _attr_loads(f) and "_in_update_loop" not in _attr_stores(f)
    and _calls_named(f, "WorkItem") and not _calls_named(f, "pop", "sorted", "sort"),
  "_pre_update":                 # resets the per-frame state
    lambda f: {"_locked_cells", "_recompute_done_map", "_changes_map"} <= _attr_stores(f)
    and f.name != "__init__",
  "_flush_changes":              # turns accumulated cell changes into summary changes
    lambda f: _calls_named(f, "add_changes") and "_changes_map" in _attr_loads(f),
  "_undo_to_checkpoint":         # replays the undo actions recorded since a checkpoint
    lambda f: _calls_named(f, "ApplyUndoActions"),
  "_get_undo_checkpoint":        # the lengths of the action lists
    lambda f: any(isinstance(x, ast.Return) and isinstance(x.value, ast.Tuple) and
                  len([e for e in x.value.elts if isinstance(e, ast.Call) and
                       dotted(e.func) == "len"]) >= 3 for x in ast.walk(f)),
  "_bring_all_up_to_date":       # the full recalculation: frame around an unrestricted loop
    lambda f: "_unused_lookups" in _attr_loads(f) and _calls_named(f, "remove_node_if_unused"),
}


def canonicalise(repo):
  """Give the engine's private role-bearing functions their canonical names back in this run's index
  (see above). Idempotent."""
  if getattr(repo, "_canon_A", False):
    return
  repo._canon_A = True
  mod = repo.modules.get("engine")
  eng = repo.classes.get("engine.Engine")
  if mod is None or eng is None:
    return
  renames = {}          # actual name -> (canonical name, was module-level)
  for canon, pred in ROLE_FINDERS.items():
    if canon in eng.methods:
      continue
    cands = [fi for fi in list(eng.methods.values()) + list(mod.functions.values())
             if not (fi.name in ROLE_FINDERS and fi.name in eng.methods) and pred(fi.node)]
    if len(cands) != 1:
      continue          # not found / ambiguous: the rules will say which anchor vanished
    fi = cands[0]
    renames[fi.name] = (canon, fi.cls is None, fi)
  if not renames:
    return
  for actual, (canon, was_func, fi) in renames.items():
    old_q = fi.qualname
    new_q = "engine.Engine.%s" % canon
    if was_func:
      mod.functions.pop(actual, None)
      fi.node.args.args.insert(0, ast.arg(arg="self"))
      fi.cls = eng
    else:
      eng.methods.pop(actual, None)
    fi.node.name = canon
    fi.name = canon
    eng.methods[canon] = fi
    for q in [q for q in repo.funcs if q == old_q or q.startswith(old_q + ".")]:
      f2 = repo.funcs.pop(q)
      f2.qualname = new_q + q[len(old_q):]
      if was_func:
        f2.cls = eng
      repo.funcs[f2.qualname] = f2
  # call sites (module engine only: these helpers are private to it)
  for x in ast.walk(mod.tree):
    if isinstance(x, ast.Call):
      f = x.func
      if isinstance(f, ast.Attribute) and f.attr in renames and not renames[f.attr][1]:
        f.attr = renames[f.attr][0]
      elif isinstance(f, ast.Name) and f.id in renames and renames[f.id][1]:
        x.func = ast.copy_location(
          ast.Attribute(value=ast.copy_location(ast.Name(id="self", ctx=ast.Load()), f),
                        attr=renames[f.id][0], ctx=ast.Load()), f)
    elif isinstance(x, ast.Attribute) and isinstance(x.ctx, ast.Load) and x.attr in renames and \
        not renames[x.attr][1]:
      x.attr = renames[x.attr][0]       # bound method taken as a value
