"""
Shared helpers of the C03 / C06 / C18 / C29 rule modules.

* branch_succ      which successor of an `if`/`while` CFG node is the true branch
* FactReach        reachability in the product (CFG node x known truth of a few boolean names):
                   a small path-sensitive query ("under required == True, can a `return` be reached?")
* attr_sites       every syntactic use of one attribute name (`x._locked_cells`), classified
* loop_breaks      `break` statements that leave one given loop
Nothing here executes repository code.
"""
import ast
from ..index import AnalysisError, dotted
from ..astutil import text, walk_no_nested, calls_in, stmt_defs


# ------------------------------------------------------------------------------------------
def first_stmt(stmts):
  """The statement whose CFG node is entered first when `stmts` starts executing (a `try` has no
  node of its own: its first body statement is entered)."""
  s = stmts[0]
  while isinstance(s, ast.Try):
    s = s.body[0]
  return s


def branch_succ(cfg, nid):
  """(true successors, false successors) of an if/while node, normal edges only."""
  n = cfg.nodes[nid]
  if n.kind not in ("if", "while"):
    raise AnalysisError("branch_succ: node is not a test")
  norm = set(cfg.normal_succ(nid))
  tfirst = first_stmt(n.stmt.body)
  t = {m for m in norm if cfg.nodes[m].stmt is tfirst}
  f = norm - t
  if len(t) > 1 or (not t and not isinstance(n.stmt.test, ast.Constant)):
    raise AnalysisError("cannot tell the branches of `%s` apart" % text(n.stmt.test))
  return t, f


def key_of(e):
  """Fact key of a boolean-valued expression: a bare name or a dotted attribute chain."""
  if isinstance(e, ast.Name):
    return e.id
  if isinstance(e, ast.Attribute):
    return dotted(e)
  return None


def cond_value(test, facts, keyf=None):
  """Three-valued evaluation of `test` under `facts` ({key: bool}); None = unknown."""
  keyf = keyf or key_of
  k = keyf(test)
  if k is not None:
    return facts.get(k)
  if isinstance(test, ast.Constant):
    return bool(test.value)
  if isinstance(test, ast.UnaryOp) and isinstance(test.op, ast.Not):
    v = cond_value(test.operand, facts, keyf)
    return None if v is None else (not v)
  if isinstance(test, ast.BoolOp):
    vs = [cond_value(v, facts, keyf) for v in test.values]
    if isinstance(test.op, ast.And):
      if any(v is False for v in vs):
        return False
      return True if all(v is True for v in vs) else None
    if any(v is True for v in vs):
      return True
    return False if all(v is False for v in vs) else None
  return None


def cond_facts(test, truth, keyf=None):
  """Facts implied by `test` evaluating to `truth`."""
  keyf = keyf or key_of
  k = keyf(test)
  if k is not None:
    return {k: truth}
  if isinstance(test, ast.UnaryOp) and isinstance(test.op, ast.Not):
    return cond_facts(test.operand, not truth, keyf)
  if isinstance(test, ast.BoolOp):
    if (isinstance(test.op, ast.And) and truth) or (isinstance(test.op, ast.Or) and not truth):
      out = {}
      for v in test.values:
        out.update(cond_facts(v, truth, keyf))
      return out
  return {}


class FactReach(object):
  """
  Path-sensitive reachability over (cfg node, facts). `tracked` is the set of fact keys followed;
  a fact is dropped where its name is rebound (to a constant: replaced by the constant's truth),
  and attribute facts listed in `call_kills` are dropped at every node that evaluates a call.
  `call_keys`: texts of pure predicate calls (`col.is_formula()`) that may serve as fact keys; such
  a fact is dropped where the receiver variable is rebound.
  """
  def __init__(self, cfg, tracked, call_kills=(), call_keys=(), noreturn=None):
    self.cfg = cfg
    self.tracked = set(tracked) | set(call_keys)
    self.call_kills = set(call_kills)
    self.call_keys = set(call_keys)
    self.noreturn = noreturn      # predicate(node): the statement is a call that always raises
    self.noreturn_seen = set()

  def keyf(self, e):
    if isinstance(e, ast.Call) and self.call_keys and text(e) in self.call_keys:
      return text(e)
    return key_of(e)

  def _transfer(self, n, facts):
    s = n.stmt
    if s is None or n.kind in ("handler", "def"):
      return facts
    f = dict(facts)
    if n.kind in ("stmt", "for", "with"):
      bound = set(stmt_defs(s))
      if isinstance(s, ast.Assign):
        for t in s.targets:
          k = key_of(t)
          if k is not None:
            bound.add(k)
      elif isinstance(s, (ast.AugAssign, ast.AnnAssign)):
        k = key_of(s.target)
        if k is not None:
          bound.add(k)
      for k in bound & self.tracked:
        f.pop(k, None)
        if isinstance(s, ast.Assign) and isinstance(s.value, ast.Constant):
          f[k] = bool(s.value.value)
      for k in self.call_keys:
        if k.split(".")[0].split("(")[0] in bound:
          f.pop(k, None)
    if self.call_kills and any(True for _ in calls_in(n.exprs)):
      for k in self.call_kills:
        f.pop(k, None)
    return f

  def run(self, starts, stop=()):
    """starts: iterable of (node id, facts dict). Nodes in `stop` are recorded but not left.
    Returns {node id: [facts dict on entry, ...]}."""
    cfg = self.cfg
    stop = set(stop)
    seen = set()
    out = {}
    work = [(nid, frozenset((k, v) for k, v in f.items() if k in self.tracked))
            for (nid, f) in starts]
    while work:
      st = work.pop()
      if st in seen:
        continue
      seen.add(st)
      nid, ff = st
      out.setdefault(nid, []).append(dict(ff))
      if nid in stop:
        continue
      n = cfg.nodes[nid]
      f = self._transfer(n, dict(ff))
      if self.noreturn is not None and n.kind == "stmt" and self.noreturn(n):
        self.noreturn_seen.add(nid)
        for m in cfg.succ[nid]:
          if (nid, m) in cfg.exc_edges:
            work.append((m, frozenset(f.items())))
        continue
      if n.kind in ("if", "while") and not isinstance(n.stmt.test, ast.Constant):
        t, fl = branch_succ(cfg, nid)
        v = cond_value(n.stmt.test, f, self.keyf)
        nxt = []
        if v is not False:
          g = dict(f)
          g.update({k: b for k, b in cond_facts(n.stmt.test, True, self.keyf).items()
                    if k in self.tracked})
          nxt += [(m, g) for m in t]
        if v is not True:
          g = dict(f)
          g.update({k: b for k, b in cond_facts(n.stmt.test, False, self.keyf).items()
                    if k in self.tracked})
          nxt += [(m, g) for m in fl]
        for m in cfg.succ[nid] - t - fl:        # exceptional edges of the test itself
          nxt.append((m, f))
      else:
        nxt = [(m, f) for m in cfg.succ[nid]]
      for (m, g) in nxt:
        work.append((m, frozenset(g.items())))
    return out


def never_returns(world, fn, node):
  """True when CFG node `node` is an expression statement calling a method of the same class
  (`self.m(...)`) none of whose paths returns normally (a raise extracted into a helper)."""
  s = node.stmt
  if not (isinstance(s, ast.Expr) and isinstance(s.value, ast.Call)):
    return False
  f = s.value.func
  if not (isinstance(f, ast.Attribute) and isinstance(f.value, ast.Name) and f.value.id == "self"):
    return False
  if fn.fi.cls is None:
    return False
  callee = world.repo.find_method(fn.fi.cls, f.attr)
  if callee is None:
    return False
  ccfg = world.fn_of(callee).cfg
  return ccfg.exit.id not in ccfg.reach({ccfg.entry.id})


# ------------------------------------------------------------------------------------------
def loop_breaks(loop):
  """`break` statements that leave exactly this loop (not those of loops nested in it)."""
  out = []
  def go(stmts):
    for s in stmts:
      if isinstance(s, ast.Break):
        out.append(s)
      if isinstance(s, (ast.For, ast.While, ast.AsyncFor)):
        go(s.orelse)            # a break in the else clause of an inner loop leaves *this* loop
        continue
      if isinstance(s, (ast.FunctionDef, ast.AsyncFunctionDef, ast.ClassDef)):
        continue
      for fld in ("body", "orelse", "finalbody"):
        b = getattr(s, fld, None)
        if isinstance(b, list) and b and isinstance(b[0], ast.stmt):
          go(b)
      for h in getattr(s, "handlers", []) or []:
        go(h.body)
  go(loop.body)
  return out


def stmts_in(stmts, types, into_loops=True):
  """Statements of the given types anywhere under `stmts` (not inside nested defs)."""
  out = []
  for s in stmts:
    for n in walk_no_nested(s):
      if isinstance(n, types):
        out.append(n)
  return out


def nodes_of_stmts(cfg, stmts):
  """ids of CFG nodes whose statement lies (at any depth) under the given statements."""
  inside = set()
  for s in stmts:
    for x in ast.walk(s):
      inside.add(id(x))
  return {n.id for n in cfg.nodes if n.stmt is not None and id(n.stmt) in inside}


def nodes_for(cfg, stmt):
  """ids of the CFG nodes built for exactly this statement (several when inside a finally)."""
  return {n.id for n in cfg.nodes if n.stmt is stmt}


# ------------------------------------------------------------------------------------------
MUTATING = ("pop", "popitem", "clear", "update", "setdefault", "add", "discard", "remove",
            "difference_update", "intersection_update", "symmetric_difference_update",
            "append", "extend", "insert", "__setitem__", "__delitem__", "sort", "reverse")


def attr_sites(fi, attr):
  """
  Every syntactic use of `<expr>.<attr>` in function fi, classified:
    ("rebind", node)            target of an assignment / augmented assignment / del
    ("call", method, callnode)  <expr>.<attr>.method(...)
    ("store-item", node)        <expr>.<attr>[k] = v / del <expr>.<attr>[k] / <expr>.<attr>[k] += v
    ("read", node)              membership test, subscript load, truth test, len(...), iteration
    ("escape", node)            any other load (aliasing, passing as an argument, returning)
  """
  parents = {}
  for s in fi.node.body:
    for n in walk_no_nested(s, into_lambda=True):
      for ch in ast.iter_child_nodes(n):
        parents[id(ch)] = n
  out = []
  for s in fi.node.body:
    for n in walk_no_nested(s, into_lambda=True):
      if not (isinstance(n, ast.Attribute) and n.attr == attr):
        continue
      p = parents.get(id(n))
      if isinstance(n.ctx, (ast.Store, ast.Del)):
        out.append(("rebind", n))
        continue
      if isinstance(p, ast.AugAssign) and p.target is n:
        out.append(("rebind", n))
        continue
      if isinstance(p, ast.Attribute) and p.value is n:
        pp = parents.get(id(p))
        if isinstance(pp, ast.Call) and pp.func is p:
          out.append(("call", p.attr, pp))
          continue
        out.append(("escape", n))
        continue
      if isinstance(p, ast.Subscript) and p.value is n:
        if isinstance(p.ctx, (ast.Store, ast.Del)):
          out.append(("store-item", p))
        else:
          pp = parents.get(id(p))
          if isinstance(pp, ast.AugAssign) and pp.target is p:
            out.append(("store-item", p))
          else:
            out.append(("read", n))
        continue
      if isinstance(p, ast.Compare) and any(c is n for c in p.comparators) and \
          all(isinstance(o, (ast.In, ast.NotIn)) for o in p.ops):
        out.append(("read", n))
        continue
      if isinstance(p, (ast.If, ast.While, ast.IfExp)) and p.test is n:
        out.append(("read", n))
        continue
      if isinstance(p, ast.UnaryOp) and isinstance(p.op, ast.Not):
        out.append(("read", n))
        continue
      if isinstance(p, ast.BoolOp):
        out.append(("read", n))
        continue
      if isinstance(p, ast.Call) and dotted(p.func) in ("len", "bool", "sorted") and n in p.args:
        out.append(("read", n))
        continue
      if isinstance(p, (ast.For, ast.comprehension)) and p.iter is n:
        out.append(("read", n))
        continue
      out.append(("escape", n))
  return out


def kwarg(call, name, pos=None):
  """Argument `name` of a call (keyword, or positional index `pos`), else None."""
  for k in call.keywords:
    if k.arg == name:
      return k.value
  if pos is not None and pos < len(call.args):
    return call.args[pos]
  return None


def is_const(e, value):
  return isinstance(e, ast.Constant) and e.value is value
