"""C07 Reopening a saved document changes nothing -- the structural legs only."""
import ast
from ..fn import World
from ..index import AnalysisError, dotted
from ..astutil import text, short, endswith, calls_in, walk_no_nested
from .. import events as E
from ._h_E import decide, anchors_of, cname, calls_E, nodes_calling_E, Flow, arg, argn, nargs, return_cases, leaf_polarity, own_helper

EXPLANATION = (
  "Decides only the structural legs of the reopen fixed point: (R1) loading writes cells through "
  "the same writer as doc actions (load_table -> add_records -> column.set after clearing every "
  "column), so loaded values are normalised exactly like applied ones; (R2) the change pipeline "
  "compares twice -- strict_equal against the stored value in _recompute_step, then "
  "equal_encoding on (before, after) in _changes_to_actions -- so a recomputed value that "
  "differs only in Python type from its decoded stored form (tuple vs list, int vs float) is not "
  "emitted; (R3) database values are decoded by unmarshalling exactly bytes and delegating to "
  "decode_object, all other values passing through; equal_encoding counts two NaN floats as equal "
  "on every path they can take (part of R2); a data column's set() stores the value it is given "
  "on every path -- it may skip the store only on a type-distinguishing comparison (strict_equal "
  "/ equal_encoding), never on a plain == with the stored value (R4). Codec agreement is C24's. Not decided: the "
  "fixed point itself (that Calculate emits nothing after a reload).")


def _attr_call(e, attr):
  return isinstance(e, ast.Call) and isinstance(e.func, ast.Attribute) and e.func.attr == attr


def check(run, repo, tier):
  # each rule is decided on the code as written; when it is not satisfied there, it is asked again
  # on the view with private helpers inlined (see _h_E.decide), so statements moved into a new
  # helper keep their place
  import os
  _HERE = os.path.dirname(os.path.abspath(__file__))
  decide(run, repo, [r1_loader, r2_compare_twice, r3_decode, r4_set_stores],
         anchors_of(os.path.join(_HERE, "c07.py"), os.path.join(_HERE, "_h_E.py"), os.path.join(_HERE, "../events.py")))


def r1_loader(run, w):
  R1 = run.rule("C07-R1", "loading goes through the same writer as doc actions", floor=4)
  lt = w.fn("engine.Engine.load_table")
  cfg = lt.cfg
  flow = Flow(lt)
  p = lt.fi.params()[1]
  def column_clears(f):
    return [(n, c) for (n, c, nm) in calls_E(f) if isinstance(c.func, ast.Attribute) and
            c.func.attr == "clear" and
            (f.world.typer.is_column(f.type_of(c.func.value)) or f.type_of(c.func.value) is None)]
  def clears_every_column(f, fl, n, c):
    """the cleared object is the variable of a loop over every column of a table, and nothing
    decides per column whether to clear it"""
    src = fl.loop_source(c.func.value, n.id)
    if src is None or fl.required_facts(n.id):
      return None
    it = fl.resolve(src[0], src[1])[0]
    return src[1] if text(it).endswith("all_columns.values()") else None
  clears = [(n, c) for (n, c) in column_clears(lt)
            if lt.world.typer.is_column(lt.type_of(c.func.value))]
  clear_nodes = set()     # nodes of load_table after which every column is empty
  loop_nodes = set()
  ok = len(clears) == 1
  for (n, c) in clears:
    ln = clears_every_column(lt, flow, n, c)
    ok = ok and ln is not None
    if ln is not None:
      loop_nodes.add(ln)
    clear_nodes.add(n.id)
  if not clears:
    # the clearing loop may have been extracted into a helper of the engine
    for (n, c, nm) in calls_E(lt):
      hlp = own_helper(w, lt, c)
      if hlp is None:
        continue
      hfn = w.fn_of(hlp)
      hflow = Flow(hfn)
      hc = [(hn, hcall) for (hn, hcall) in column_clears(hfn)
            if clears_every_column(hfn, hflow, hn, hcall) is not None]
      if len(hc) == 1 and not flow.required_facts(n.id) and \
          hfn.cfg.dominated_by(hfn.cfg.exit.id, {clears_every_column(hfn, hflow, *hc[0])}):
        ok = True
        loop_nodes.add(n.id)
        clear_nodes.add(n.id)
    if not clear_nodes:
      raise AnalysisError("load_table: no column.clear() call found (clearing moved?)")
  run.ob(R1, lt.qualname, "for column in table.all_columns.values(): column.clear()",
         "every column is emptied before loading, whether or not the data mentions it", ok,
         fi=lt.fi)
  adds = [(n, c) for (n, c, nm) in calls_E(lt) if nm == "self.add_records"]
  ok = len(adds) == 1
  if ok:
    an, ac = adds[0]
    a0, a1 = argn(w, lt, ac, 0), argn(w, lt, ac, 1)
    ok = a0 is not None and a1 is not None and \
        flow.itext(a0, an.id, stop=(p,)) == p + ".table_id" and \
        flow.itext(a1, an.id, stop=(p,)) == p + ".row_ids" and \
        not (cfg.reach_after({an.id}) & clear_nodes) and \
        bool(loop_nodes) and cfg.dominated_by(an.id, loop_nodes) and \
        not flow.required_facts(an.id)
  run.ob(R1, lt.qualname, "self.add_records(data.table_id, data.row_ids, columns)",
         "loaded rows are added by the function BulkAddRecord uses", ok, fi=lt.fi)
  ar = w.fn("engine.Engine.add_records")
  aflow = Flow(ar)
  sets = [(n, c) for (n, c, nm) in calls_E(ar) if E.is_column_mutation(c, nm, ar) and
          c.func.attr == "set"]
  def from_zip(n, c):
    """(row, value) of the write are bound together by a `for ... in zip(...)`."""
    a0, a1 = argn(w, ar, c, 0), argn(w, ar, c, 1)
    if not (isinstance(a0, ast.Name) and isinstance(a1, ast.Name)):
      return False
    b0, b1 = aflow.binder(a0.id, n.id), aflow.binder(a1.id, n.id)
    if not (b0 is not None and b0 is b1 and b0.kind == "for"):
      return False
    it = aflow.resolve(b0.stmt.iter, b0.id)[0]
    return isinstance(it, ast.Call) and dotted(it.func) == "zip"
  def same_args(n, c):
    a0, a1 = argn(w, ar, c, 0), argn(w, ar, c, 1)
    return a0 is not None and a1 is not None and aflow.same_value(a0, n.id, a1, n.id)
  ok = len(sets) == 2 and any(same_args(n, c) for (n, c) in sets) and \
      any(from_zip(n, c) for (n, c) in sets)
  run.ob(R1, ar.qualname, "id_column.set(row_id, row_id); column.set(row_id, value) for zip(...)",
         "every loaded cell passes through Column.set (type-specific normalisation)", ok, fi=ar.fi)
  # only columns known to the table are loaded; unknown ones are dropped, not an error
  ok = any(_attr_call(n, "has_column") for n in ast.walk(lt.node))
  run.ob(R1, lt.qualname, "columns = {... if table.has_column(col_id)}",
         "stored columns the schema does not know are ignored", ok, fi=lt.fi, nontrivial=False)


def r2_compare_twice(run, w):
  R2 = run.rule("C07-R2", "change emission compares twice: strict_equal on the stored value, "
                "equal_encoding on the (before, after) delta", floor=2)
  rs = w.fn("engine.Engine._recompute_step")
  cfg = rs.cfg
  flow = Flow(rs)
  sets = [(n, c) for (n, c, nm) in calls_E(rs) if E.is_column_mutation(c, nm, rs)]
  if not sets:
    raise AnalysisError("_recompute_step: column write not found")
  ok = True
  ok_conv = True
  for (n, c) in sets:
    val = argn(w, rs, c, 1)
    found = {"conv": False}
    def unchanged(e, i):
      """not strict_equal(<the value written>, <the stored value read by raw_get>)"""
      if not (isinstance(e, ast.Call) and dotted(e.func) == "strict_equal" and len(e.args) == 2) \
          or val is None:
        return False
      for (x, y) in ((e.args[0], e.args[1]), (e.args[1], e.args[0])):
        if flow.same_value(x, i, val, n.id) and \
            flow.denotes(y, i, lambda v, k: _attr_call(v, "raw_get")):
          if flow.denotes(x, i, lambda v, k: _attr_call(v, "convert")):
            found["conv"] = True
          return True
      return False
    ok = ok and flow.guarded(n.id, unchanged, False)
    ok_conv = ok_conv and found["conv"]
  run.ob(R2, rs.qualname, "if not strict_equal(value, previous): record + set",
         "a recomputed value equal (with type) to the stored one causes no change", ok,
         fi=rs.fi)
  # the value compared is the converted value
  run.ob(R2, rs.qualname, "value = col.convert(value) before the comparison",
         "values are compared after conversion to the column type", ok and ok_conv, fi=rs.fi)
  ca = w.fn("action_summary.ActionSummary._changes_to_actions")
  run.ob(R2, ca.qualname, "full_row_ids = sorted(r for r, (before, after) in deltas if not "
         "equal_encoding(before, after))", "rows whose before and after encode identically are "
         "not emitted", _emitted_rows_filtered(w, ca), fi=ca.fi)
  ee = w.fn("objtypes.equal_encoding")
  eflow = Flow(ee)
  ps = ee.fi.params()
  want = {"encode_object(%s)" % ps[0], "encode_object(%s)" % ps[1]} if len(ps) == 2 else None
  ok = False
  for (rn, l) in return_cases(eflow):
    e = l.expr
    if isinstance(e, ast.Compare) and len(e.ops) == 1 and isinstance(e.ops[0], ast.Eq):
      ok = ok or {eflow.itext(e.left, l.nid, stop=ps),
                  eflow.itext(e.comparators[0], l.nid, stop=ps)} == want
  run.ob(R2, ee.qualname, "encode_object(a) == encode_object(b)", "equality is equality of what "
         "would be sent and stored", ok, fi=ee.fi)
  # NaN is stored and reloaded as NaN, and a recomputed NaN never equals the stored one under
  # strict_equal: equal_encoding is the only thing that keeps a NaN cell from being re-emitted on
  # every reopen. Decide it by walking the function for a = b = float('nan'): every return that
  # can be reached then must be one that counts two NaNs as equal.
  bad = _nan_intolerant_returns(w, ee, eflow)
  run.ob(R2, ee.qualname, "equal_encoding(nan, nan) is True",
         "two NaN floats compare as the same encoding on every path they can take (no raw a == b "
         "on the unencoded values before the NaN test)", not bad,
         witness="for two NaN floats the result is `%s`" % short(bad[0]) if bad else None,
         fi=ee.fi, node=bad[0] if bad else None)


def _nan_intolerant_returns(w, ee, flow):
  """Return values of equal_encoding reachable when both arguments are float NaN that do not
  make two NaNs equal. Tests on the arguments' types are evaluated for a float; anything else is
  explored both ways."""
  cfg = ee.cfg
  ps = ee.fi.params()
  if len(ps) != 2 or any(flow.du.defs.get(p_) for p_ in ps):
    raise AnalysisError("equal_encoding: parameters are rebound; cannot evaluate the NaN case")
  mod = ee.fi.module
  FLOATISH = {"float", "object"}
  NOT_FLOAT = {"bool", "int", "str", "bytes", "list", "tuple", "dict", "set", "complex",
               "type(None)", "NoneType", "six.string_types", "six.integer_types", "basestring",
               "unicode", "long", "datetime", "date", "datetime.datetime", "datetime.date"}
  def is_param(e, k):
    return flow.itext(e, k, stop=ps) in ps
  def types_of(e, k):
    """The set of type names a class-or-tuple expression denotes, or None."""
    e = flow.resolve(e, k)[0]
    if isinstance(e, ast.Name) and e.id in mod.assigns and not flow.du.defs.get(e.id):
      e = mod.assigns[e.id]
    if isinstance(e, (ast.Tuple, ast.List, ast.Set)):
      out = set()
      for x in e.elts:
        t = types_of(x, k)
        if t is None:
          return None
        out |= t
      return out
    t = text(e)
    return {t} if (t in FLOATISH or t in NOT_FLOAT) else None
  def float_in(ts):
    """Is a float an instance of one of these types? True / False / None."""
    if ts is None:
      return None
    return bool(ts & FLOATISH)
  def is_type_of_param(e, k):
    e = flow.resolve(e, k)[0]
    return isinstance(e, ast.Call) and dotted(e.func) == "type" and len(e.args) == 1 and \
        is_param(e.args[0], k)
  def ev(e, k):
    """Truth value of test e at node k for two NaN floats: True / False / None (unknown)."""
    r, rk = flow.resolve(e, k)
    if r is not e:
      return ev(r, rk)
    if isinstance(e, ast.Constant):
      return bool(e.value)
    if isinstance(e, ast.UnaryOp) and isinstance(e.op, ast.Not):
      v = ev(e.operand, k)
      return None if v is None else not v
    if isinstance(e, ast.BoolOp):
      vals = [ev(v, k) for v in e.values]
      if isinstance(e.op, ast.And):
        return False if False in vals else (None if None in vals else True)
      return True if True in vals else (None if None in vals else False)
    if isinstance(e, ast.Call) and dotted(e.func) == "isinstance" and len(e.args) == 2 and \
        is_param(e.args[0], k):
      return float_in(types_of(e.args[1], k))
    if isinstance(e, ast.Call) and dotted(e.func) in ("isnan", "math.isnan") and \
        len(e.args) == 1 and is_param(e.args[0], k):
      return True
    if isinstance(e, ast.Compare) and len(e.ops) == 1:
      l, r_, op = e.left, e.comparators[0], e.ops[0]
      if is_type_of_param(l, k) and is_type_of_param(r_, k) and \
          isinstance(op, (ast.Eq, ast.Is)):
        return True      # both are floats
      if is_type_of_param(l, k) and isinstance(op, (ast.In, ast.NotIn, ast.Is, ast.IsNot, ast.Eq,
                                                     ast.NotEq)):
        v = float_in(types_of(r_, k))
        if v is not None and isinstance(op, (ast.Is, ast.IsNot, ast.Eq, ast.NotEq)):
          v = types_of(r_, k) == {"float"} if v else False
        if v is None:
          return None
        return v if isinstance(op, (ast.In, ast.Is, ast.Eq)) else not v
      if is_param(l, k) and is_param(r_, k) and isinstance(op, (ast.Eq, ast.NotEq)) and \
          flow.itext(l, k, stop=ps) != flow.itext(r_, k, stop=ps):
        return isinstance(op, ast.NotEq)      # nan == nan is False
    return None
  # walk the CFG under that assumption
  seen, todo = set(), [cfg.entry.id]
  reached = []
  while todo:
    x = todo.pop()
    if x in seen:
      continue
    seen.add(x)
    n = cfg.nodes[x]
    if n.kind == "return":
      reached.append(n)
      continue
    succ = set(cfg.succ[x])
    if n.kind == "if" and x in cfg.if_true:
      v = ev(n.stmt.test, x)
      t = set(cfg.if_true[x])
      f = succ - t - cfg.if_exc.get(x, set())
      if v is True:
        succ = t
      elif v is False:
        succ = f
    todo.extend(succ)
  def tolerant(e, k):
    """The value counts two NaNs as equal: it is true for them under the evaluation above."""
    return e is not None and ev(e, k) is True
  bad = []
  for n in reached:
    if n.stmt.value is None:
      bad.append(n.stmt)
      continue
    for l in flow.leaves(n.stmt.value, n.id, split=False):
      if not tolerant(l.expr, l.nid):
        bad.append(l.expr)
  if cfg.exit.id in seen and any(cfg.nodes[p_].kind != "return" and p_ in seen
                                for p_ in cfg.pred[cfg.exit.id]):
    bad.append(ee.node)      # may fall off the end (returns None)
  return bad


def _pair_names(target):
  """For a loop / comprehension target over dict items: (text of the row id, the two texts of the
  halves of the value), in the normal form Flow.itext gives (unpacked names stay names, anything
  else is indexing): `r, (b, a)` -> ('r', {'b','a'}); `r, d` -> ('r', {'d[0]','d[1]'});
  `item` -> ('item[0]', {'item[1][0]','item[1][1]'})."""
  if isinstance(target, ast.Name):
    t = target.id
    return "%s[0]" % t, {"%s[1][0]" % t, "%s[1][1]" % t}, "%s[1]" % t
  if isinstance(target, (ast.Tuple, ast.List)) and len(target.elts) == 2 and \
      isinstance(target.elts[0], ast.Name):
    v = target.elts[1]
    if isinstance(v, (ast.Tuple, ast.List)) and len(v.elts) == 2 and \
        all(isinstance(x, ast.Name) for x in v.elts):
      return target.elts[0].id, {v.elts[0].id, v.elts[1].id}, None
    if isinstance(v, ast.Name):
      return target.elts[0].id, {"%s[0]" % v.id, "%s[1]" % v.id}, v.id
  return None


def _is_pair_test(e, pn, norm):
  """equal_encoding(<before>, <after>) on the two halves of the iterated delta value; `norm`
  gives the normal-form text of an operand."""
  if not (isinstance(e, ast.Call) and dotted(e.func) == "equal_encoding"):
    return False
  if len(e.args) == 1 and isinstance(e.args[0], ast.Starred):
    return pn[2] is not None and norm(e.args[0].value) == pn[2]
  if len(e.args) != 2:
    return False
  return {norm(a) for a in e.args} == pn[1]


def _emitted_rows_filtered(w, ca):
  """The rows every emitted action is built from come from one pass over the column delta that
  keeps a row only when `not equal_encoding(before, after)` (comprehension or loop spelling)."""
  from ._h_E import nfacts as facts
  flow = Flow(ca)
  cfg = ca.cfg
  delta = ca.fi.params()[3]
  filt_nodes = set()
  seen_pass = []
  def over_delta(it, k):
    return _attr_call(it, "items") and flow.itext(it.func.value, k, stop=(delta,)) == delta
  # comprehension spelling
  for n in cfg.nodes:
    for e in n.exprs:
      for x in walk_no_nested(e):
        if isinstance(x, (ast.GeneratorExp, ast.ListComp, ast.SetComp)) and \
            len(x.generators) == 1 and over_delta(x.generators[0].iter, n.id):
          g = x.generators[0]
          seen_pass.append(n.id)
          pn = _pair_names(g.target)
          if pn is None or text(x.elt) != pn[0]:
            continue
          fs = [f for t in g.ifs for f in facts(t, True)]
          if fs and all(pol is False and _is_pair_test(t, pn, text) for (t, pol) in fs):
            filt_nodes.add(n.id)
  # loop spelling: <rows>.append(r) reached only when equal_encoding(before, after) is false
  for n in cfg.nodes:
    if n.kind == "for" and over_delta(n.stmt.iter, n.id):
      seen_pass.append(n.id)
      pn = _pair_names(n.stmt.target)
      if pn is None:
        continue
      for (m, c, nm) in calls_E(ca):
        if _attr_call(c, "append") or _attr_call(c, "add"):
          if len(c.args) == 1 and m.id in flow.loop_body(n.id) and \
              flow.itext(c.args[0], m.id) == pn[0]:
            req = flow.facts_inside(m.id, n.id)
            if req and all(pol is False and
                           _is_pair_test(t, pn, lambda a, i_=i: flow.itext(a, i_))
                           for (t, pol, i) in req):
              filt_nodes.add(m.id)
  if not filt_nodes:
    if not seen_pass:
      raise AnalysisError("_changes_to_actions: no pass over the column delta found "
                          "(row filtering moved?)")
    return False
  # every action written to the out lists is built from rows of that filtered pass
  du = flow.du
  outs = ca.fi.params()[4:6]
  writes = [(n, c) for (n, c, nm) in calls_E(ca)
            if nm in [o + m for o in outs for m in (".append", ".insert", ".extend")]]
  if not writes:
    raise AnalysisError("_changes_to_actions: no write to the out lists found")
  for (n, c) in writes:
    if not (du.backward_slice([c]) & filt_nodes):
      return False
  return True


def r3_decode(run, w):
  R3 = run.rule("C07-R3", "_decode_db_value unmarshals exactly bytes and decodes the result; "
                "other values pass through", floor=2)
  dv = w.fn("main._decode_db_value")
  flow = Flow(dv)
  p = dv.fi.params()[0]
  def is_type_of_p(x, n):
    return isinstance(x, ast.Call) and dotted(x.func) == "type" and len(x.args) == 1 and \
        flow.itext(x.args[0], n, stop=(p,)) == p
  def is_bytes_test(e, i):
    if not (isinstance(e, ast.Compare) and len(e.ops) == 1 and
            isinstance(e.ops[0], (ast.Is, ast.Eq))):
      return False
    a, b = e.left, e.comparators[0]
    for (x, y) in ((a, b), (b, a)):
      if text(y) == "bytes" and flow.denotes(x, i, is_type_of_p):
        return True
    return False
  seen = set()
  ok = True
  for (rn, l) in return_cases(flow):
    t = flow.itext(l.expr, l.nid, stop=(p,)) if l.expr is not None else None
    pol = leaf_polarity(flow, l, is_bytes_test)
    if t == "objtypes.decode_object(marshal.loads(%s))" % p and pol is True:
      seen.add("decode")
    elif t == p and pol is False:
      seen.add("pass")
    else:
      ok = False
  run.ob(R3, dv.qualname, "if type(value) is bytes: decode_object(marshal.loads(value)) else value",
         "exactly the marshalled BLOBs are decoded", ok and seen == {"decode", "pass"}, fi=dv.fi)
  td = w.fn("main.table_data_from_db")
  ok = False
  bulk = [c for c in calls_in(td.node) if endswith(dotted(c.func), "decode_bulk_values")]
  if not bulk:
    raise AnalysisError("table_data_from_db: no decode_bulk_values() call found (decoding moved?)")
  for c in bulk:
    if nargs(c) == 2:
      a1 = argn(w, td, c, 1)
      ok = ok or (a1 is not None and text(a1) == "_decode_db_value")
  run.ob(R3, td.qualname, "actions.decode_bulk_values(parsed, _decode_db_value)",
         "every cell read from the database goes through the decoder", ok, fi=td.fi)
  # tables arriving from Node: whatever is handed to <engine>.load_table() in main.py is the result
  # of table_data_from_db(), directly or through a helper (closure or module-level) returning it
  from ._h_E import callgraph
  cg = callgraph(w)
  main_mod = w.repo.module("main")
  def returns_decoded(fi, depth=2):
    """fi returns what table_data_from_db() returned (possibly through one more helper):
    True / False / None when it cannot be followed."""
    f = w.fn_of(fi)
    fl = Flow(f)
    cases = [l for (rn, l) in return_cases(fl)]
    if not cases:
      return False
    res = True
    for l in cases:
      r = decoded_call(f, l.expr, depth - 1) if isinstance(l.expr, ast.Call) else \
          (None if isinstance(l.expr, ast.Name) else False)
      if r is False:
        return False
      if r is None:
        res = None
    return res
  def decoded_call(f, call, depth):
    if dotted(call.func) == "table_data_from_db":
      return True
    if depth < 0:
      return None
    tg = cg.resolve(f, call)
    if not tg:
      return None
    rs = [returns_decoded(t, depth) for t in tg]
    return False if False in rs else (None if None in rs else True)
  sites = []
  for fi in w.repo.all_functions():
    if fi.module is not main_mod:
      continue
    f = w.fn_of(fi)
    for (n, c, nm) in calls_E(f):
      if isinstance(c.func, ast.Attribute) and c.func.attr == "load_table" and nargs(c) == 1:
        sites.append((f, n, c))
  if not sites:
    raise AnalysisError("main.py: no call of <engine>.load_table() found")
  for (f, n, c) in sites:
    fl = Flow(f)
    a0 = c.args[0] if c.args else c.keywords[0].value
    ls = fl.leaves(a0, n.id)
    rs = [decoded_call(f, l.expr, 2) if isinstance(l.expr, ast.Call) else None for l in ls]
    if not rs or (None in rs and False not in rs):
      raise AnalysisError("%s: cannot follow where the argument of load_table() comes from"
                          % f.qualname)
    ok = False not in rs
    run.ob(R3, f.qualname, "eng.load_table(load_and_record_table_data(...))",
           "tables arriving from Node are decoded before loading", ok, fi=f.fi, node=c)


TYPE_AWARE_EQ = ("strict_equal", "equal_encoding")


def r4_set_stores(run, w):
  R4 = run.rule("C07-R4", "every set() of a data column class stores the value on every normal "
                "path; skipping the store is allowed only on strict_equal / equal_encoding", floor=4)
  col_mod = w.repo.module("column")
  for ci in sorted(col_mod.classes.values(), key=lambda c: c.qualname):
    m = ci.methods.get("set")
    if m is None or not w.typer.is_column(ci.qualname) or len(m.params()) != 3:
      continue
    fn = w.fn_of(m)
    cfg = fn.cfg
    flow = Flow(fn)
    stores = set()
    for n in cfg.nodes:
      if n.kind == "stmt" and isinstance(n.stmt, (ast.Assign, ast.AugAssign)):
        tg = n.stmt.targets if isinstance(n.stmt, ast.Assign) else [n.stmt.target]
        if any(isinstance(t, ast.Subscript) and endswith(cname(fn, t.value) or "", "_data")
               for t in tg):
          stores.add(n.id)
    for (n, c, nm) in calls_E(fn):
      if isinstance(c.func, ast.Attribute) and c.func.attr == "set" and \
          isinstance(c.func.value, ast.Call) and dotted(c.func.value.func) == "super":
        stores.add(n.id)
      elif isinstance(c.func, ast.Attribute) and c.func.attr == "set" and \
          isinstance(c.func.value, ast.Name) and c.func.value.id in \
          [b.split(".")[-1] for b in ci.base_names if b]:
        stores.add(n.id)       # BaseColumn.set(self, ...)
    if not stores:
      raise AnalysisError("%s: no store (self._data[...] = / super().set) recognised" % m.qualname)
    def type_aware(e, i):
      e = flow.resolve(e, i)[0]
      return isinstance(e, ast.Call) and (dotted(e.func) or "").split(".")[-1] in TYPE_AWARE_EQ
    allowed = flow.edges_where(type_aware, True)
    seen, todo = set(), [cfg.entry.id]
    while todo:
      x = todo.pop()
      if x in seen or x in stores:
        continue
      seen.add(x)
      todo.extend(y for y in cfg.succ[x] if (x, y) not in allowed)
    ok = cfg.exit.id not in seen
    wit = None
    if not ok:
      wit = cfg.describe_path(cfg.path(cfg.entry.id, {cfg.exit.id}, removed=stores))
    run.ob(R4, m.qualname, "set(row_id, value): store on every path",
           "a value given to set() reaches the column's storage (so what is saved and reloaded is "
           "what was set); an equal-looking value of another type is not mistaken for the stored one",
           ok, witness=wit, fi=m)


EN = "sandbox/grist/engine.py"
VARIANTS = [
  ("load-skips-clear-for-missing", EN, """    for column in table.all_columns.values():
      column.clear()
""", """    for column in table.all_columns.values():
      if column.col_id in data.columns:
        column.clear()
""", "C07-R1"),
  ("load-raw-assign", EN, """      for row_id, value in zip(row_ids, values):
        column.set(row_id, value)""", """      for row_id, value in zip(row_ids, values):
        column._data[row_id] = value""", "C07-R1"),
  ("recompute-loose-equality", EN, "          if not strict_equal(value, previous):", "          if value != previous:", "C07-R2"),
  ("summary-emits-equal-encodings", "sandbox/grist/action_summary.py",
   """    full_row_ids = sorted(r for r, (before, after) in column_delta.items()
                          if not equal_encoding(before, after))""",
   """    full_row_ids = sorted(r for r, (before, after) in column_delta.items()
                          if before != after)""", "C07-R2"),
  ("decode-str-too", "sandbox/grist/main.py", "  if t is bytes:", "  if t in (bytes, str):", "C07-R3"),
  ("decode-skipped", "sandbox/grist/main.py", "actions.decode_bulk_values(table_data_parsed, _decode_db_value))",
   "actions.decode_bulk_values(table_data_parsed))", "C07-R3"),
  ("equal-encoding-number-shortcut", "sandbox/grist/objtypes.py",
   """def equal_encoding(a, b):
  # Compare NaNs as equal.
""", """def equal_encoding(a, b):
  if type(a) in (int, float) and type(b) in (int, float):
    return a == b
  # Compare NaNs as equal.
""", "C07-R2"),
  ("equal-encoding-nan-unequal", "sandbox/grist/objtypes.py",
   "    return a == b or (isnan(a) and isnan(b))", "    return a == b", "C07-R2"),
  ("ref-set-skips-equal-value", "sandbox/grist/column.py",
   """    old = self.safe_get(row_id)
    super(BaseReferenceColumn, self).set(row_id, self._clean_up_value(value))""",
   """    value = self._clean_up_value(value)
    if value == self.raw_get(row_id):
      return
    old = self.safe_get(row_id)
    super(BaseReferenceColumn, self).set(row_id, value)""", "C07-R4"),
  ("position-set-skips-default", "sandbox/grist/column.py",
   """    self._sorted_rows.discard(row_id)
    super(PositionColumn, self).set(row_id, value)
    if value != self.getdefault():""",
   """    self._sorted_rows.discard(row_id)
    if value == self.getdefault():
      return
    super(PositionColumn, self).set(row_id, value)
    if value != self.getdefault():""", "C07-R4"),
  ("compare-before-convert", EN, """          value = col.convert(value)
          previous = col.raw_get(row_id)
          if not strict_equal(value, previous):""", """          previous = col.raw_get(row_id)
          if not strict_equal(value, previous):
            value = col.convert(value)""", "C07-R2"),
]
