"""C07 Reopening a saved document changes nothing -- the structural legs only."""
import ast
from ..fn import World
from ..index import AnalysisError, dotted
from ..astutil import text, short, endswith, calls_in, walk_no_nested
from .. import events as E

EXPLANATION = (
  "Decides only the structural legs of the reopen fixed point: (R1) loading writes cells through "
  "the same writer as doc actions (load_table -> add_records -> column.set after clearing every "
  "column), so loaded values are normalised exactly like applied ones; (R2) the change pipeline "
  "compares twice -- strict_equal against the stored value in _recompute_step, then "
  "equal_encoding on (before, after) in _changes_to_actions -- so a recomputed value that "
  "differs only in Python type from its decoded stored form (tuple vs list, int vs float) is not "
  "emitted; (R3) database values are decoded by unmarshalling exactly bytes and delegating to "
  "decode_object, all other values passing through. Codec agreement is C24's. Not decided: the "
  "fixed point itself (that Calculate emits nothing after a reload).")


def check(run, repo, tier):
  w = World(repo)
  R1 = run.rule("C07-R1", "loading goes through the same writer as doc actions", floor=4)
  lt = w.fn("engine.Engine.load_table")
  cfg = lt.cfg
  p = lt.fi.params()[1]
  clears = [(n, c) for (n, c, nm) in lt.calls() if isinstance(c.func, ast.Attribute) and
            c.func.attr == "clear" and lt.world.typer.is_column(lt.type_of(c.func.value))]
  loops = [s for s in lt.node.body if isinstance(s, ast.For) and
           text(s.iter).endswith("all_columns.values()")]
  ok = len(clears) == 1 and len(loops) == 1 and not any(isinstance(x, ast.If)
                                                        for x in ast.walk(loops[0]))
  run.ob(R1, lt.qualname, "for column in table.all_columns.values(): column.clear()",
         "every column is emptied before loading, whether or not the data mentions it", ok,
         fi=lt.fi)
  adds = [(n, c) for (n, c, nm) in lt.calls() if nm == "self.add_records"]
  ok = len(adds) == 1 and text(adds[0][1].args[0]) == p + ".table_id" and \
      text(adds[0][1].args[1]) == p + ".row_ids" and \
      not (cfg.reach_after({adds[0][0].id}) & {n.id for (n, c) in clears}) and \
      cfg.dominated_by(adds[0][0].id, {x.id for x in cfg.nodes if x.stmt in loops})
  run.ob(R1, lt.qualname, "self.add_records(data.table_id, data.row_ids, columns)",
         "loaded rows are added by the function BulkAddRecord uses", ok, fi=lt.fi)
  ar = w.fn("engine.Engine.add_records")
  sets = [c for (n, c, nm) in ar.calls() if E.is_column_mutation(c, nm, ar) and
          c.func.attr == "set"]
  ok = len(sets) == 2 and any(text(c.args[0]) == text(c.args[1]) for c in sets) and \
      any(isinstance(s, ast.For) and isinstance(s.iter, ast.Call) and
          dotted(s.iter.func) == "zip" and any(c in list(ast.walk(s)) for c in sets)
          for s in ast.walk(ar.node))
  run.ob(R1, ar.qualname, "id_column.set(row_id, row_id); column.set(row_id, value) for zip(...)",
         "every loaded cell passes through Column.set (type-specific normalisation)", ok, fi=ar.fi)
  # only columns known to the table are loaded; unknown ones are dropped, not an error
  ok = any(isinstance(n, ast.DictComp) and "has_column" in text(n) for n in ast.walk(lt.node))
  run.ob(R1, lt.qualname, "columns = {... if table.has_column(col_id)}",
         "stored columns the schema does not know are ignored", ok, fi=lt.fi, nontrivial=False)

  R2 = run.rule("C07-R2", "change emission compares twice: strict_equal on the stored value, "
                "equal_encoding on the (before, after) delta", floor=2)
  rs = w.fn("engine.Engine._recompute_step")
  cfg = rs.cfg
  sets = [(n, c) for (n, c, nm) in rs.calls() if E.is_column_mutation(c, nm, rs)]
  tests = {n.id for n in cfg.nodes if n.kind == "if" and isinstance(n.stmt.test, ast.UnaryOp) and
           isinstance(n.stmt.test.op, ast.Not) and isinstance(n.stmt.test.operand, ast.Call) and
           dotted(n.stmt.test.operand.func) == "strict_equal"}
  ok = bool(sets) and bool(tests) and all(cfg.dominated_by(n.id, tests) for (n, c) in sets)
  okargs = False
  for t in tests:
    a = cfg.nodes[t].stmt.test.operand.args
    for (n, c) in sets:
      prev = text(a[1]) if text(a[0]) == text(c.args[1]) else text(a[0])
      okargs = okargs or ({text(a[0]), text(a[1])} >= {text(c.args[1])} and any(
        isinstance(v, ast.Call) and isinstance(v.func, ast.Attribute) and v.func.attr == "raw_get"
        for v in E.local_defs(rs.node, prev)))
  run.ob(R2, rs.qualname, "if not strict_equal(value, previous): record + set",
         "a recomputed value equal (with type) to the stored one causes no change", ok and okargs,
         fi=rs.fi)
  # the value compared is the converted value
  conv = [n for n in cfg.nodes if n.kind == "stmt" and isinstance(n.stmt, ast.Assign) and
          isinstance(n.stmt.value, ast.Call) and (rs.name(n.stmt.value) or "").endswith(".convert")]
  ok = bool(conv) and all(cfg.dominated_by(t, {c.id for c in conv}) for t in tests)
  run.ob(R2, rs.qualname, "value = col.convert(value) before the comparison",
         "values are compared after conversion to the column type", ok, fi=rs.fi)
  ca = w.fn("action_summary.ActionSummary._changes_to_actions")
  ok = False
  for n in ast.walk(ca.node):
    if isinstance(n, ast.Assign) and text(n.targets[0]) == "full_row_ids":
      gens = [g for g in ast.walk(n.value) if isinstance(g, ast.comprehension)]
      ok = any(any("equal_encoding(before, after)" in text(c) and text(c).startswith("not ")
                   for c in g.ifs) and "(before, after)" in text(g.target) for g in gens)
  run.ob(R2, ca.qualname, "full_row_ids = sorted(r for r, (before, after) in deltas if not "
         "equal_encoding(before, after))", "rows whose before and after encode identically are "
         "not emitted", ok, fi=ca.fi)
  ee = w.fn("objtypes.equal_encoding")
  rets = [n for n in ast.walk(ee.node) if isinstance(n, ast.Return)]
  ok = any(text(r.value) == "encode_object(a) == encode_object(b)" for r in rets)
  run.ob(R2, ee.qualname, "encode_object(a) == encode_object(b)", "equality is equality of what "
         "would be sent and stored", ok, fi=ee.fi)

  R3 = run.rule("C07-R3", "_decode_db_value unmarshals exactly bytes and decodes the result; "
                "other values pass through", floor=2)
  dv = w.fn("main._decode_db_value")
  p = dv.fi.params()[0]
  ifs = [s for s in dv.node.body if isinstance(s, ast.If)]
  ok = False
  if len(ifs) == 1:
    t = ifs[0].test
    tvar = None
    for v in ast.walk(dv.node):
      if isinstance(v, ast.Assign) and text(v.value) == "type(%s)" % p:
        tvar = text(v.targets[0])
    cond = text(t) in ("%s is bytes" % tvar, "type(%s) is bytes" % p, "%s == bytes" % tvar)
    body = ifs[0].body
    ok = cond and len(body) == 1 and isinstance(body[0], ast.Return) and \
        text(body[0].value) == "objtypes.decode_object(marshal.loads(%s))" % p and \
        len(ifs[0].orelse) == 1 and isinstance(ifs[0].orelse[0], ast.Return) and \
        text(ifs[0].orelse[0].value) == p
  run.ob(R3, dv.qualname, "if type(value) is bytes: decode_object(marshal.loads(value)) else value",
         "exactly the marshalled BLOBs are decoded", ok, fi=dv.fi)
  td = w.fn("main.table_data_from_db")
  ok = any(endswith(dotted(c.func), "decode_bulk_values") and len(c.args) == 2 and
           text(c.args[1]) == "_decode_db_value" for c in calls_in(td.node))
  run.ob(R3, td.qualname, "actions.decode_bulk_values(parsed, _decode_db_value)",
         "every cell read from the database goes through the decoder", ok, fi=td.fi)
  lt2 = w.fn("main.run.load_table")
  ok = any((lt2.name(c) or "").endswith("load_and_record_table_data") for c in calls_in(lt2.node))
  lr = w.fn("main.run.load_and_record_table_data")
  ok = ok and any(dotted(c.func) == "table_data_from_db" for c in calls_in(lr.node))
  run.ob(R3, lt2.qualname, "eng.load_table(load_and_record_table_data(...))",
         "tables arriving from Node are decoded before loading", ok, fi=lt2.fi)


EN = "sandbox/grist/engine.py"
VARIANTS = [
  ("load-skips-clear-for-missing", EN, """    for column in table.all_columns.values():
      column.clear()
""", """    for column in table.all_columns.values():
      if column.col_id in data.columns:
        column.clear()
""", "C07-R1"),
  ("load-raw-assign", EN, """      for row_id, value in zip(row_ids, values):
        column.set(row_id, value)""", """      for row_id, value in zip(row_ids, values):
        column._data[row_id] = value""", "C07-R1"),
  ("recompute-loose-equality", EN, "          if not strict_equal(value, previous):", "          if value != previous:", "C07-R2"),
  ("summary-emits-equal-encodings", "sandbox/grist/action_summary.py",
   """    full_row_ids = sorted(r for r, (before, after) in column_delta.items()
                          if not equal_encoding(before, after))""",
   """    full_row_ids = sorted(r for r, (before, after) in column_delta.items()
                          if before != after)""", "C07-R2"),
  ("decode-str-too", "sandbox/grist/main.py", "  if t is bytes:", "  if t in (bytes, str):", "C07-R3"),
  ("decode-skipped", "sandbox/grist/main.py", "actions.decode_bulk_values(table_data_parsed, _decode_db_value))",
   "actions.decode_bulk_values(table_data_parsed))", "C07-R3"),
  ("compare-before-convert", EN, """          value = col.convert(value)
          previous = col.raw_get(row_id)
          if not strict_equal(value, previous):""", """          previous = col.raw_get(row_id)
          if not strict_equal(value, previous):
            value = col.convert(value)""", "C07-R2"),
]
