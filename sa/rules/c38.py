"""C38 Node and the engine agree on metadata schema and type defaults -- complete static
comparison across the two languages (DESIGN.md 4/C38).

Python side: `ast` of sandbox/grist/schema.py, sandbox/gen_js_schema.py, usertypes.py.
TypeScript side: a small tolerant lexer (strings, comments, regex literals, punctuation, brace
matching) with extractors for one `const` object literal, one `interface` body and one function
body. No TypeScript compiler is available offline; nothing of either side is executed."""
import ast
import os
import re
from ..fn import World
from ..index import AnalysisError, dotted
from ..astutil import text, short, calls_in, walk_no_nested
from . import _h_D as H

LEVEL = "translation_validation"
TECHNIQUE = "static cross-language structural comparison (Python ast vs. TypeScript token stream)"

EXPLANATION = (
  "Translation validation of the generated TypeScript schema against its Python source, without "
  "running the generator: the ordered table / column / type list of schema.schema_create_actions() "
  "(read from the AST, slots filled by role: AddTable field order from actions.py, make_column's "
  "id/type parameters from the dict it returns) and SCHEMA_VERSION are compared with the `schema` "
  "literal, the `SchemaTypes` interface and SCHEMA_VERSION of app/common/schema.ts, the interface "
  "types being derived through gen_js_schema's own _ts_types table, prefix rule and default as "
  "read from its AST (R1-R3); the generator is checked to read exactly those slots (R4); the "
  "Python dict usertypes._type_defaults is compared key by key and value by value "
  "(None~null, False~false, ''~\"\", 0/0.0~0, float('inf')~Number.POSITIVE_INFINITY) with "
  "_defaultValues of app/common/gristTypes.ts, including the fallback for unknown types (R5). "
  "get_type_default, like Node, is a function of the pure type only: its final return is the "
  "table lookup with Node's fallback, and every early return is compared with Node's default for "
  "each pure type its guard admits. "
  "Exhaustive over the current tree. Not decided: byte-for-byte layout of the generated file "
  "(comments, padding), the SQL representations in _defaultValues' second components.")

SCHEMA_TS = "app/common/schema.ts"
TYPES_TS = "app/common/gristTypes.ts"


# ============================================================================ TypeScript lexer

class Tok(object):
  __slots__ = ("kind", "val", "pos")

  def __init__(self, kind, val, pos):
    self.kind = kind      # 'id' | 'str' | 'num' | 'p' (punctuation) | 'regex' | 'tmpl'
    self.val = val
    self.pos = pos

  def __repr__(self):
    return "%s:%r" % (self.kind, self.val)


_PUNCT3 = ("...", "===", "!==", "**=", "<<=", ">>=", "&&=", "||=", "??=")
_PUNCT2 = ("=>", "==", "!=", "<=", ">=", "&&", "||", "??", "?.", "++", "--", "+=", "-=", "*=",
           "/=", "%=", "|=", "&=", "^=", "**", "<<", ">>")
_REGEX_PREV = {"(", ",", "=", ":", "[", "!", "&", "|", "?", "{", "}", ";", "&&", "||", "=>", "==",
               "===", "!=", "!==", "+", "-", "*", "%", "<", ">", "return", "typeof", "case", None}
_ID_START = re.compile(r"[A-Za-z_$\u0080-\uffff]")
_ID_RE = re.compile(r"[A-Za-z_$\u0080-\uffff][\w$\u0080-\uffff]*")
_NUM_RE = re.compile(r"0[xX][0-9a-fA-F_]+|0[bB][01_]+|0[oO][0-7_]+|"
                     r"(?:\d[\d_]*\.?[\d_]*|\.\d[\d_]*)(?:[eE][+-]?\d+)?n?")
_ESC = {"n": "\n", "t": "\t", "r": "\r", "b": "\b", "f": "\f", "v": "\v", "0": "\0"}


def ts_lex(src, path):
  """Token list of a TypeScript source. Comments are dropped. Unterminated strings/comments are
  an analysis error (the file is then not what the extractors think it is)."""
  toks = []
  i, n = 0, len(src)
  prev = None
  while i < n:
    c = src[i]
    if c in " \t\r\n\f\v\ufeff":
      i += 1
      continue
    if c == "/" and i + 1 < n and src[i + 1] == "/":
      j = src.find("\n", i)
      i = n if j < 0 else j
      continue
    if c == "/" and i + 1 < n and src[i + 1] == "*":
      j = src.find("*/", i + 2)
      if j < 0:
        raise AnalysisError("%s: unterminated comment at offset %d" % (path, i))
      i = j + 2
      continue
    if c in "'\"":
      j = i + 1
      out = []
      while True:
        if j >= n or src[j] == "\n":
          raise AnalysisError("%s: unterminated string at offset %d" % (path, i))
        ch = src[j]
        if ch == "\\":
          nx = src[j + 1] if j + 1 < n else ""
          if nx == "u" and src[j + 2:j + 3] == "{":
            k = src.find("}", j)
            out.append(chr(int(src[j + 3:k], 16)))
            j = k + 1
          elif nx == "u":
            out.append(chr(int(src[j + 2:j + 6], 16)))
            j += 6
          elif nx == "x":
            out.append(chr(int(src[j + 2:j + 4], 16)))
            j += 4
          elif nx == "\n":
            j += 2
          else:
            out.append(_ESC.get(nx, nx))
            j += 2
          continue
        if ch == c:
          break
        out.append(ch)
        j += 1
      toks.append(Tok("str", "".join(out), i))
      prev = "str"
      i = j + 1
      continue
    if c == "`":
      j = i + 1
      depth = 0
      while True:
        if j >= n:
          raise AnalysisError("%s: unterminated template at offset %d" % (path, i))
        if src[j] == "\\":
          j += 2
          continue
        if src[j] == "$" and src[j + 1:j + 2] == "{":
          depth += 1
          j += 2
          continue
        if src[j] == "}" and depth:
          depth -= 1
        elif src[j] == "`" and not depth:
          break
        j += 1
      toks.append(Tok("tmpl", src[i + 1:j], i))
      prev = "str"
      i = j + 1
      continue
    if c == "/" and prev in _REGEX_PREV:
      # regex literal: up to the closing unescaped '/' outside a class, on the same line
      j = i + 1
      in_class = False
      ok = False
      while j < n and src[j] != "\n":
        ch = src[j]
        if ch == "\\":
          j += 2
          continue
        if ch == "[":
          in_class = True
        elif ch == "]":
          in_class = False
        elif ch == "/" and not in_class:
          ok = True
          break
        j += 1
      if ok:
        k = j + 1
        while k < n and src[k].isalpha():
          k += 1
        toks.append(Tok("regex", src[i:k], i))
        prev = "regex"
        i = k
        continue
    if c.isdigit() or (c == "." and i + 1 < n and src[i + 1].isdigit()):
      m = _NUM_RE.match(src, i)
      toks.append(Tok("num", m.group(0), i))
      prev = "num"
      i = m.end()
      continue
    if _ID_START.match(c):
      m = _ID_RE.match(src, i)
      toks.append(Tok("id", m.group(0), i))
      prev = m.group(0) if m.group(0) in _REGEX_PREV else "id"
      i = m.end()
      continue
    for table, ln in ((_PUNCT3, 3), (_PUNCT2, 2)):
      if src[i:i + ln] in table:
        toks.append(Tok("p", src[i:i + ln], i))
        prev = src[i:i + ln]
        i += ln
        break
    else:
      toks.append(Tok("p", c, i))
      prev = c if c not in ")]" else "id"
      i += 1
  return toks


_OPEN = {"{": "}", "[": "]", "(": ")"}
_CLOSE = {"}", "]", ")"}


class TsFile(object):
  def __init__(self, root, rel):
    self.rel = rel
    p = os.path.join(root, rel)
    if not os.path.exists(p):
      raise AnalysisError("anchor file vanished: %s" % rel)
    with open(p, encoding="utf-8") as fh:
      self.src = fh.read()
    self.toks = ts_lex(self.src, rel)
    self._check_balance()

  def line(self, tok):
    return self.src.count("\n", 0, tok.pos) + 1

  def _check_balance(self):
    st = []
    for t in self.toks:
      if t.kind == "p" and t.val in _OPEN:
        st.append(t)
      elif t.kind == "p" and t.val in _CLOSE:
        if not st or _OPEN[st[-1].val] != t.val:
          raise AnalysisError("%s: unbalanced %r at line %d" % (self.rel, t.val, self.line(t)))
        st.pop()
    if st:
      raise AnalysisError("%s: unclosed %r at line %d" % (self.rel, st[-1].val,
                                                           self.line(st[-1])))

  def is_p(self, i, v):
    return i < len(self.toks) and self.toks[i].kind == "p" and self.toks[i].val == v

  def is_id(self, i, v=None):
    return i < len(self.toks) and self.toks[i].kind == "id" and (v is None or
                                                                  self.toks[i].val == v)

  def match(self, i):
    """index of the bracket closing the one at i"""
    depth = 0
    for j in range(i, len(self.toks)):
      t = self.toks[j]
      if t.kind == "p" and t.val in _OPEN:
        depth += 1
      elif t.kind == "p" and t.val in _CLOSE:
        depth -= 1
        if depth == 0:
          return j
    raise AnalysisError("%s: no closing bracket" % self.rel)

  # ---- extractors -----------------------------------------------------------------------
  def const_value_index(self, name):
    """Index of the first token of the initialiser of top-level `const <name> [: type] = ...`."""
    hits = []
    depth = 0
    for i, t in enumerate(self.toks):
      if t.kind == "p" and t.val in _OPEN:
        depth += 1
      elif t.kind == "p" and t.val in _CLOSE:
        depth -= 1
      elif depth == 0 and t.kind == "id" and t.val in ("const", "let", "var") and \
          self.is_id(i + 1, name):
        hits.append(i)
    if len(hits) != 1:
      raise AnalysisError("%s: %d top-level declarations of %s (one expected)"
                          % (self.rel, len(hits), name))
    j = hits[0] + 2
    if self.is_p(j, ":"):            # skip the type annotation
      j += 1
      while not self.is_p(j, "="):
        if j >= len(self.toks) or self.is_p(j, ";"):
          raise AnalysisError("%s: declaration of %s has no initialiser" % (self.rel, name))
        j = self.match(j) + 1 if (self.toks[j].kind == "p" and self.toks[j].val in _OPEN) \
            else j + 1
    if not self.is_p(j, "="):
      raise AnalysisError("%s: declaration of %s has no initialiser" % (self.rel, name))
    return j + 1

  def value(self, i):
    """Parse a literal value at token i -> (python value, next index).
    objects -> H.OrderedPairs, arrays -> list, strings -> str, numbers -> float,
    null/true/false -> None/True/False, other identifier chains -> ('ident', 'a.b.c')."""
    t = self.toks[i]
    if t.kind == "str":
      return t.val, i + 1
    if t.kind == "num":
      return float(int(t.val.replace("_", ""), 0)) if re.match(r"0[xXbBoO]", t.val) \
          else float(t.val.replace("_", "").rstrip("n")), i + 1
    if t.kind == "p" and t.val in ("-", "+") and self.toks[i + 1].kind == "num":
      v, j = self.value(i + 1)
      return (-v if t.val == "-" else v), j
    if t.kind == "p" and t.val == "{":
      end = self.match(i)
      out = H.OrderedPairs()
      j = i + 1
      while j < end:
        k = self.toks[j]
        if k.kind not in ("str", "id", "num"):
          raise AnalysisError("%s:%d: object key expected, got %r" % (self.rel, self.line(k),
                                                                      k.val))
        if not self.is_p(j + 1, ":"):
          raise AnalysisError("%s:%d: ':' expected after key %r (shorthand/methods are outside "
                              "the supported subset)" % (self.rel, self.line(k), k.val))
        v, j = self.value(j + 2)
        if any(kk == k.val for kk, _ in out):
          raise AnalysisError("%s:%d: duplicate key %r" % (self.rel, self.line(k), k.val))
        out.append((k.val, v))
        if self.is_p(j, ","):
          j += 1
        elif j != end:
          raise AnalysisError("%s:%d: ',' or '}' expected" % (self.rel, self.line(self.toks[j])))
      return out, end + 1
    if t.kind == "p" and t.val == "[":
      end = self.match(i)
      out = []
      j = i + 1
      while j < end:
        v, j = self.value(j)
        out.append(v)
        if self.is_p(j, ","):
          j += 1
        elif j != end:
          raise AnalysisError("%s:%d: ',' or ']' expected" % (self.rel, self.line(self.toks[j])))
      return out, end + 1
    if t.kind == "id":
      parts = [t.val]
      j = i + 1
      while self.is_p(j, ".") and self.is_id(j + 1):
        parts.append(self.toks[j + 1].val)
        j += 2
      name = ".".join(parts)
      if name == "null":
        return None, j
      if name == "true":
        return True, j
      if name == "false":
        return False, j
      return ("ident", name), j
    raise AnalysisError("%s:%d: value outside the supported subset: %r"
                        % (self.rel, self.line(t), t.val))

  def const_value(self, name):
    i = self.const_value_index(name)
    v, j = self.value(i)
    if not (self.is_p(j, ";") or j >= len(self.toks) or self.toks[j].kind == "id"):
      raise AnalysisError("%s: initialiser of %s continues after the literal (as/satisfies/"
                          "operators are outside the supported subset)" % (self.rel, name))
    return v

  def interface(self, name):
    """OrderedPairs [(member, OrderedPairs [(field, normalised type text)])] of
    `interface <name> { "m": { f: T; ... }; ... }`."""
    hits = [i for i, t in enumerate(self.toks) if t.kind == "id" and t.val == "interface" and
            self.is_id(i + 1, name)]
    if len(hits) != 1:
      raise AnalysisError("%s: %d declarations of interface %s" % (self.rel, len(hits), name))
    i = hits[0] + 2
    if not self.is_p(i, "{"):
      raise AnalysisError("%s: interface %s has extends/generics (outside the subset)"
                          % (self.rel, name))
    end = self.match(i)
    out = H.OrderedPairs()
    j = i + 1
    while j < end:
      k = self.toks[j]
      if k.kind not in ("str", "id") or not self.is_p(j + 1, ":") or not self.is_p(j + 2, "{"):
        raise AnalysisError("%s:%d: interface member `\"name\": {` expected"
                            % (self.rel, self.line(k)))
      mend = self.match(j + 2)
      fields = H.OrderedPairs()
      f = j + 3
      while f < mend:
        fk = self.toks[f]
        if fk.kind not in ("str", "id"):
          raise AnalysisError("%s:%d: field name expected" % (self.rel, self.line(fk)))
        g = f + 1
        opt = False
        if self.is_p(g, "?"):
          opt = True
          g += 1
        if not self.is_p(g, ":"):
          raise AnalysisError("%s:%d: ':' expected after field %s" % (self.rel, self.line(fk),
                                                                      fk.val))
        g += 1
        parts = []
        while g < mend and not (self.is_p(g, ";") or self.is_p(g, ",")):
          tt = self.toks[g]
          if tt.kind == "p" and tt.val in _OPEN:
            e = self.match(g)
            parts.extend(self._tok_text(x) for x in self.toks[g:e + 1])
            g = e + 1
          else:
            parts.append(self._tok_text(tt))
            g += 1
        if any(kk == fk.val for kk, _ in fields):
          raise AnalysisError("%s:%d: duplicate field %s" % (self.rel, self.line(fk), fk.val))
        fields.append((fk.val, ("?" if opt else "") + "".join(parts)))
        f = g + 1
      if any(kk == k.val for kk, _ in out):
        raise AnalysisError("%s:%d: duplicate member %s" % (self.rel, self.line(k), k.val))
      out.append((k.val, fields))
      j = mend + 1
      if self.is_p(j, ";") or self.is_p(j, ","):
        j += 1
    return out

  @staticmethod
  def _tok_text(t):
    if t.kind == "str":
      return '"%s"' % t.val
    return t.val

  def function_body(self, name):
    """(start, end) token indices of the body braces of `function <name>(...) {...}`."""
    hits = [i for i, t in enumerate(self.toks) if t.kind == "id" and t.val == "function" and
            self.is_id(i + 1, name)]
    if len(hits) != 1:
      raise AnalysisError("%s: %d declarations of function %s" % (self.rel, len(hits), name))
    j = hits[0] + 2
    if not self.is_p(j, "("):
      raise AnalysisError("%s: function %s: parameter list expected" % (self.rel, name))
    j = self.match(j) + 1
    while not self.is_p(j, "{"):
      # return type annotation
      j = self.match(j) + 1 if (self.toks[j].kind == "p" and self.toks[j].val in _OPEN) else j + 1
      if j >= len(self.toks):
        raise AnalysisError("%s: function %s has no body" % (self.rel, name))
    return j, self.match(j)


def norm_type(s):
  return re.sub(r"\s+", "", s).replace("'", '"')


# ============================================================================ the comparison

class Counter(object):
  def __init__(self):
    self.n = 0

  def eq(self, a, b):
    self.n += 1
    return a == b


def check(run, repo, tier):
  w = World(repo)
  cmp_ = Counter()
  py = H.python_schema(w)
  ts = TsFile(repo.root, SCHEMA_TS)
  if ts is None:
    return          # (reported as an analysis error)
  programs = 0
  programs += r1_version(run, w, ts, cmp_) or 0
  programs += r2_schema_literal(run, w, py, ts, cmp_) or 0
  programs += r3_interface(run, w, py, ts, cmp_) or 0
  r4_generator(run, w)
  tt = TsFile(repo.root, TYPES_TS)
  if tt is not None:
    programs += r5_defaults(run, w, tt, cmp_) or 0
  run.extra["programs"] = programs
  run.extra["disagreements_checked"] = cmp_.n
  run.extra["programs_rule"] = (
    "one program = one generated unit compared with its source: SCHEMA_VERSION, each table block "
    "of the `schema` literal, each table block of the `SchemaTypes` interface, the type-default "
    "table; disagreements_checked = elementary equality tests performed (names, order, type "
    "strings, derived TS types, default values), every one of which could have shown a "
    "disagreement")
  run.assume("app/common/schema.ts and app/common/gristTypes.ts are read with a tolerant lexer, "
             "not a TypeScript parser (no compiler is available offline)")


def r1_version(run, w, ts, cmp_):
  R1 = run.rule("C38-R1", "SCHEMA_VERSION is the same number on both sides", floor=1)
  mod = w.repo.module("schema")
  v = H.ConstEval(mod).name("SCHEMA_VERSION")
  tv = ts.const_value("SCHEMA_VERSION")
  ok = isinstance(v, int) and not isinstance(v, bool) and isinstance(tv, float) and \
      cmp_.eq(float(v), tv)
  run.ob(R1, "schema.SCHEMA_VERSION", "%r == %s SCHEMA_VERSION %r" % (v, SCHEMA_TS, tv),
         "a schema change that bumps the version regenerates the TypeScript file (and vice "
         "versa)", ok, fi=None)
  return 1


def r2_schema_literal(run, w, py, ts, cmp_):
  R2 = run.rule("C38-R2", "the `schema` literal of schema.ts lists the tables, columns (in "
                "order) and type strings of schema_create_actions()", floor=20)
  lit = ts.const_value("schema")
  if not isinstance(lit, H.OrderedPairs):
    raise AnalysisError("%s: `schema` is not an object literal" % SCHEMA_TS)
  fi = w.repo.func("schema.schema_create_actions")
  ok = cmp_.eq([t for t, _ in py], lit.keys())
  run.ob(R2, "schema.schema_create_actions", "table order == keys of `schema`",
         "same tables in the same order: python-only %s, ts-only %s"
         % (sorted(set(t for t, _ in py) - set(lit.keys())),
            sorted(set(lit.keys()) - set(t for t, _ in py))), ok, fi=fi)
  n = 0
  for (tid, cols) in py:
    tcols = lit.get(tid)
    if tcols is None:
      continue
    n += 1
    if not isinstance(tcols, H.OrderedPairs):
      raise AnalysisError("%s: schema[%r] is not an object literal" % (SCHEMA_TS, tid))
    pc = [(c, t) for (c, t, _) in cols]
    tc = [(c, t) for (c, t) in tcols]
    same = True
    for i in range(max(len(pc), len(tc))):
      a = pc[i] if i < len(pc) else None
      b = tc[i] if i < len(tc) else None
      same = cmp_.eq(a and a[0], b and b[0]) and same
      same = cmp_.eq(a and a[1], b and b[1]) and same
    diff = [(a, b) for a, b in zip(pc + [None] * len(tc), tc + [None] * len(pc)) if a != b][:3]
    run.ob(R2, "schema.schema_create_actions", "table %s" % tid,
           "columns, their order and their type strings are identical on both sides",
           same, witness=("first differences (python, ts): %r" % diff) if not same else None,
           fi=fi, node=cols[0][2] if cols else None)
  return n


def _ts_type_rule(w):
  """gen_js_schema.get_ts_type read from its AST: (table, default, prefix separator)."""
  mod = w.repo.module("gen_js_schema")
  table = H.ConstEval(mod).name("_ts_types")
  if not isinstance(table, H.OrderedPairs):
    raise AnalysisError("gen_js_schema._ts_types is not a dict literal")
  fi = w.repo.func("gen_js_schema.get_ts_type")
  v = H.View(w.fn_of(fi))
  p = fi.params()[0]
  rets = [s for s in walk_no_nested(fi.node) if isinstance(s, ast.Return)]
  if len(rets) != 1:
    raise AnalysisError("gen_js_schema.get_ts_type: one return expected")
  # the returned expression with the locals that name its parts expanded
  r = v.x(rets[0].value)
  b = H.bind_args(r, ("key", "default")) if isinstance(r, ast.Call) and \
      text(r.func) == "_ts_types.get" else None
  if not (b is not None and len(b) == 2 and isinstance(b["default"], ast.Constant) and
          isinstance(b["default"].value, str)):
    raise AnalysisError("gen_js_schema.get_ts_type: return is not _ts_types.get(<type>, "
                        "<default>): %s" % short(r))
  default = b["default"].value
  sep = None
  k = b["key"]
  # <p>.split(SEP, 1)[0]  /  <p>.split(SEP)[0]  /  <p>.partition(SEP)[0]
  if isinstance(k, ast.Subscript) and isinstance(k.slice, ast.Constant) and \
      k.slice.value == 0 and isinstance(k.value, ast.Call) and \
      isinstance(k.value.func, ast.Attribute) and text(k.value.func.value) == p and \
      k.value.func.attr in ("split", "partition") and k.value.args and \
      isinstance(k.value.args[0], ast.Constant):
    sep = k.value.args[0].value
  if sep is None:
    raise AnalysisError("gen_js_schema.get_ts_type: the suffix-stripping step was not recognised")
  return table, default, sep, fi


def r3_interface(run, w, py, ts, cmp_):
  R3 = run.rule("C38-R3", "the SchemaTypes interface lists the same tables and columns with the "
                "TypeScript type gen_js_schema derives from each column type", floor=20)
  table, default, sep, gfi = _ts_type_rule(w)
  def ts_type(col_type):
    v = table.get(col_type.split(sep, 1)[0])
    return default if v is None else v
  iface = ts.interface("SchemaTypes")
  fi = w.repo.func("schema.schema_create_actions")
  ok = cmp_.eq([t for t, _ in py], iface.keys())
  run.ob(R3, "schema.schema_create_actions", "table order == members of SchemaTypes",
         "same tables in the same order in the interface", ok, fi=fi)
  n = 0
  for (tid, cols) in py:
    fields = iface.get(tid)
    if fields is None:
      continue
    n += 1
    pc = [(c, norm_type(ts_type(t))) for (c, t, _) in cols]
    tc = [(c, norm_type(t)) for (c, t) in fields]
    same = True
    for i in range(max(len(pc), len(tc))):
      a = pc[i] if i < len(pc) else None
      b = tc[i] if i < len(tc) else None
      same = cmp_.eq(a and a[0], b and b[0]) and same
      same = cmp_.eq(a and a[1], b and b[1]) and same
    diff = [(a, b) for a, b in zip(pc + [None] * len(tc), tc + [None] * len(pc)) if a != b][:3]
    run.ob(R3, "schema.schema_create_actions", "interface %s" % tid,
           "each column has the TypeScript type derived from its Grist type (prefix before %r "
           "looked up in _ts_types, %r otherwise)" % (sep, default), same,
           witness=("first differences (derived, ts): %r" % diff) if not same else None,
           fi=fi, node=cols[0][2] if cols else None)
  # every key of _ts_types is a type prefix that can occur (a misspelt key silently falls back)
  known = set(H.ConstEval(w.repo.module("usertypes")).name("_type_defaults").keys())
  for k, v in table:
    run.ob(R3, "gen_js_schema._ts_types", "%r: %r" % (k, v), "the key is a Grist type name "
           "(a key that is none would never be used and its columns would become %r)" % default,
           cmp_.eq(k in known, True), fi=gfi)
  return n


def r4_generator(run, w):
  R4 = run.rule("C38-R4", "gen_js_schema.main prints the slots that are compared", floor=4)
  H.require(w, "gen_js_schema.get_ts_type")
  fn = H.xfn(w, "gen_js_schema.main", keep=("get_ts_type",))
  fi = fn.fi
  v = H.View(fn)
  run = H.Guarded(run, v, keep=("get_ts_type",))
  loops = [s for s in walk_no_nested(fi.node) if isinstance(s, ast.For)]
  outer = [l for l in loops if v.t(l.iter) == "schema.schema_create_actions()" and
           isinstance(l.target, ast.Name)]
  run.ob(R4, fi.qualname, "for table in schema.schema_create_actions() (twice)",
         "both the literal and the interface are generated from schema_create_actions()",
         len(outer) == 2 and all(not l.orelse for l in outer), fi=fi)
  ok = True
  lit, ifc = [], []
  for l in outer:
    tm = v.loop_map(l, prefix="_t")
    inner = [x for x in walk_no_nested(l) if isinstance(x, ast.For) and x is not l and
             isinstance(x.target, ast.Name) and v.t(x.iter, tm) == "_t0.columns"]
    prints_t = [c for c in calls_in(l.body) if dotted(c.func) == "print" and
                "_t0.table_id" in v.t(c, tm)]
    ok = ok and len(inner) == 1 and bool(prints_t) and \
        all(v.runs_for_all(l, c) for c in prints_t) and not inner[0].orelse
    if len(inner) != 1:
      continue
    il = inner[0]
    m2 = H.LoopMap(dict(tm), None)
    for k_, val in H._versioned(tm).items():
      m2[k_] = val
    for k_, val in H._versioned(v.loop_map(il, prefix="_c")).items():
      m2[k_] = val
    for c in calls_in(il.body):
      if dotted(c.func) != "print" or not v.runs_for_all(il, c):
        continue
      t = v.t(c, m2)
      if "_c0['id']" in t and "get_ts_type(_c0['type'])" in t:
        ifc.append(c)
      elif "_c0['id']" in t and "_c0['type']" in t and "get_ts_type" not in t:
        lit.append(c)
  run.ob(R4, fi.qualname, "print(table.table_id); for column in table.columns",
         "every table and every column of it is printed, in order", ok, fi=fi)
  run.ob(R4, fi.qualname, "print(column['id'], column['type']) / print(column['id'], "
         "get_ts_type(column['type']))", "the literal carries id and type, the interface id and "
         "derived type", len(lit) == 1 and len(ifc) == 1, fi=fi)
  prints = [c for c in calls_in(fi.node.body) if dotted(c.func) == "print"]
  run.ob(R4, fi.qualname, "schema.SCHEMA_VERSION in the header", "the version printed is the "
         "Python constant", any("schema.SCHEMA_VERSION" in v.t(c) for c in prints), fi=fi)


def _canon_py(v):
  if v is None:
    return ("null",)
  if isinstance(v, bool):
    return ("bool", v)
  if isinstance(v, str):
    return ("str", v)
  if isinstance(v, (int, float)):
    return ("num", float(v))
  raise AnalysisError("usertypes._type_defaults: value outside the comparison table: %r" % (v,))


def _canon_ts(v):
  if v is None:
    return ("null",)
  if isinstance(v, bool):
    return ("bool", v)
  if isinstance(v, str):
    return ("str", v)
  if isinstance(v, float):
    return ("num", v)
  if isinstance(v, tuple) and v[0] == "ident":
    table = {"Number.POSITIVE_INFINITY": float("inf"), "Infinity": float("inf"),
             "Number.NEGATIVE_INFINITY": float("-inf"), "undefined": None}
    if v[1] in table:
      x = table[v[1]]
      return ("null",) if x is None and v[1] != "undefined" else \
          (("undefined",) if v[1] == "undefined" else ("num", x))
  raise AnalysisError("%s: default value outside the comparison table: %r" % (TYPES_TS, v))


def r5_defaults(run, w, tsf, cmp_):
  R5 = run.rule("C38-R5", "every Grist type has the same default value in usertypes.py and "
                "gristTypes.ts (and unknown types fall back to the same value)", floor=17)
  mod = w.repo.module("usertypes")
  pyd = H.ConstEval(mod).name("_type_defaults")
  if not isinstance(pyd, H.OrderedPairs):
    raise AnalysisError("usertypes._type_defaults is not a dict literal")
  tsd = tsf.const_value("_defaultValues")
  if not isinstance(tsd, H.OrderedPairs):
    raise AnalysisError("%s: _defaultValues is not an object literal" % TYPES_TS)
  site = "usertypes._type_defaults"
  ok = cmp_.eq(sorted(pyd.keys()), sorted(tsd.keys()))
  run.ob(R5, site, "key set == key set of _defaultValues",
         "both sides know the same types: python-only %s, ts-only %s"
         % (sorted(set(pyd.keys()) - set(tsd.keys())), sorted(set(tsd.keys()) - set(pyd.keys()))),
         ok, fi=None)
  for k, v in pyd:
    tv = tsd.get(k)
    if tv is None and k not in tsd.keys():
      continue
    if not (isinstance(tv, list) and len(tv) == 2):
      raise AnalysisError("%s: _defaultValues.%s is not a [value, sql] pair" % (TYPES_TS, k))
    a, b = _canon_py(v), _canon_ts(tv[0])
    run.ob(R5, site, "%s: %r ~ %r" % (k, v, tv[0]), "the default cell value of the type is the "
           "same in the engine and in Node", cmp_.eq(a, b), fi=None)
  # fallback for unknown types
  fi = w.repo.func("usertypes.get_type_default")
  gv = H.View(w.fn_of(fi))
  rets = sorted([s for s in walk_no_nested(fi.node) if isinstance(s, ast.Return)],
                key=lambda s: (s.lineno, s.col_offset))
  # early returns under a guard on the type string: each pure type the guard admits must get the
  # default Node gives that pure type (Node looks up _defaultValues[extractTypeFromColType(t)] only)
  early = [s for s in rets[:-1]]
  rets = rets[-1:]
  for er in early:
    chain = [x for x in enclosing_ifs(fi.node, er)]
    if len(chain) != 1 or er not in chain[0].body:
      raise AnalysisError("usertypes.get_type_default: early return not directly under one `if`")
    adm = _admits(mod, chain[0].test, fi.params()[0], 0)
    val = _early_value(er.value, pyd)
    if adm is None or val is None:
      raise AnalysisError("usertypes.get_type_default: early return `%s` under `%s`: cannot decide "
                          "which types it serves" % (text(er.value), text(chain[0].test)))
    for ptype in sorted(adm):
      tv = tsd.get(ptype)
      if not (isinstance(tv, list) and len(tv) == 2):
        raise AnalysisError("%s: no _defaultValues entry for %s" % (TYPES_TS, ptype))
      run.ob(R5, fi.qualname, "early return %s for %s:<...> ~ _defaultValues.%s %r"
             % (text(er.value), ptype, ptype, tv[0]),
             "a type served by an early return gets the default Node gives its pure type",
             cmp_.eq(_canon_py(val[0]), _canon_ts(tv[0])), fi=fi, node=er)
  r = gv.x(rets[0].value) if len(rets) == 1 else None
  rb = H.bind_args(r, ("key", "default")) if isinstance(r, ast.Call) and \
      text(r.func) == "_type_defaults.get" else None
  if not rb or "key" not in rb:
    raise AnalysisError("usertypes.get_type_default: return is not _type_defaults.get(...)")
  py_fb = _canon_py(rb["default"].value) if "default" in rb and \
      isinstance(rb["default"], ast.Constant) else (("null",) if "default" not in rb else None)
  if py_fb is None:
    raise AnalysisError("usertypes.get_type_default: fallback is not a constant")
  b, e = tsf.function_body("getDefaultForType")
  fb = None
  for j in range(b, e):
    if tsf.is_p(j, "||") and tsf.is_id(j + 1, "_defaultValues") and tsf.is_p(j + 2, ".") and \
        tsf.is_id(j + 3):
      fb = tsf.toks[j + 3].val
  if fb is None:
    raise AnalysisError("%s: getDefaultForType: fallback `|| _defaultValues.<Type>` not found"
                        % TYPES_TS)
  tv = tsd.get(fb)
  ok = isinstance(tv, list) and len(tv) == 2 and cmp_.eq(py_fb, _canon_ts(tv[0]))
  run.ob(R5, fi.qualname, "fallback %r ~ _defaultValues.%s" % (py_fb, fb),
         "a type neither table lists gets the same default on both sides", ok, fi=fi)
  return 1


def enclosing_ifs(fnode, stmt):
  out = []
  def rec(body, acc):
    for x in body:
      if x is stmt:
        out.extend(acc)
        return True
      if isinstance(x, ast.If):
        if rec(x.body, acc + [x]) or rec(x.orelse, acc + [x]):
          return True
      elif isinstance(x, (ast.For, ast.While, ast.With, ast.Try)):
        for b in (getattr(x, "body", []), getattr(x, "orelse", []), getattr(x, "finalbody", [])):
          if rec(b, acc + [x]):
            return True
    return False
  rec(fnode.body, [])
  return out


def _early_value(e, pyd):
  """(python value,) of `_type_defaults['K']` / `_type_defaults.get('K')` / a constant; else None"""
  if isinstance(e, ast.Constant):
    return (e.value,)
  k = None
  if isinstance(e, ast.Subscript) and text(e.value) == "_type_defaults" and \
      isinstance(e.slice, ast.Constant):
    k = e.slice.value
  elif isinstance(e, ast.Call) and text(e.func) == "_type_defaults.get" and e.args and \
      isinstance(e.args[0], ast.Constant):
    k = e.args[0].value
  if k is not None and k in pyd.keys():
    return (pyd.get(k),)
  return None


def _admits(mod, test, param, depth):
  """set of pure type names for which `test` (about the type string `param`) can be truthy, or
  None when that cannot be read off the code"""
  if depth > 2:
    return None
  if isinstance(test, ast.BoolOp) and isinstance(test.op, ast.Or):
    parts = [_admits(mod, v, param, depth) for v in test.values]
    return None if any(p is None for p in parts) else set().union(*parts)
  if isinstance(test, ast.Compare) and len(test.ops) == 1 and isinstance(test.ops[0], ast.Eq) and \
      isinstance(test.comparators[0], ast.Constant) and isinstance(test.comparators[0].value, str) \
      and text(test.left) in (param, "get_pure_type(%s)" % param):
    return {test.comparators[0].value.split(":")[0]}
  if isinstance(test, ast.Call) and isinstance(test.func, ast.Attribute) and \
      test.func.attr == "startswith" and text(test.func.value) == param and len(test.args) == 1:
    a = test.args[0]
    vals = [a] if isinstance(a, ast.Constant) else (a.elts if isinstance(a, ast.Tuple) else None)
    if vals and all(isinstance(v, ast.Constant) and isinstance(v.value, str) and
                    v.value.endswith(":") for v in vals):
      return {v.value[:-1] for v in vals}
    return None
  if isinstance(test, ast.Call) and isinstance(test.func, ast.Name) and len(test.args) == 1 and \
      text(test.args[0]) == param and test.func.id in mod.functions:
    f = mod.functions[test.func.id]
    fp = f.params()[0] if f.params() else None
    out = set()
    body = [x for x in f.node.body if not (isinstance(x, ast.Expr) and isinstance(x.value, ast.Constant))]
    for x in body[:-1]:
      if not (isinstance(x, ast.If) and not x.orelse and len(x.body) == 1 and
              isinstance(x.body[0], ast.Return)):
        return None
      sub = _admits(mod, x.test, fp, depth + 1)
      if sub is None:
        return None
      out |= sub
    last = body[-1] if body else None
    if not (isinstance(last, ast.Return) and (last.value is None or
            (isinstance(last.value, ast.Constant) and not last.value.value))):
      return None
    return out
  return None


SP = "sandbox/grist/schema.py"
G = "sandbox/gen_js_schema.py"
UT = "sandbox/grist/usertypes.py"
VARIANTS = [
  ("version-bumped-in-python-only", SP, "SCHEMA_VERSION = 46", "SCHEMA_VERSION = 47", "C38-R1"),
  ("column-added-in-python-only", SP,
   "      make_column(\"documentSettings\", \"Text\"), # JSON string describing document settings\n",
   "      make_column(\"documentSettings\", \"Text\"), # JSON string describing document settings\n"
   "      make_column(\"lastEdited\", \"DateTime\"),\n", "C38-R2"),
  ("column-type-changed-in-python-only", SP, "make_column(\"onDemand\",     \"Bool\"),",
   "make_column(\"onDemand\",     \"Int\"),", "C38-R2"),
  ("columns-reordered-in-ts-literal", SCHEMA_TS,
   "    basketId            : \"Text\",\n    schemaVersion       : \"Int\",\n",
   "    schemaVersion       : \"Int\",\n    basketId            : \"Text\",\n", "C38-R2"),
  ("type-edited-in-ts-literal", SCHEMA_TS, "    primaryViewId       : \"Ref:_grist_Views\",",
   "    primaryViewId       : \"Ref:_grist_Pages\",", "C38-R2"),
  ("table-removed-from-ts-literal", SCHEMA_TS,
   "  \"_grist_DocInfo\": {\n    docId               : \"Text\",\n"
   "    peers               : \"Text\",\n    basketId            : \"Text\",\n"
   "    schemaVersion       : \"Int\",\n    timezone            : \"Text\",\n"
   "    documentSettings    : \"Text\",\n  },\n", "", "C38-R2"),
  ("interface-type-edited", SCHEMA_TS, "    onDemand: boolean;", "    onDemand: number;", "C38-R3"),
  ("interface-field-dropped", SCHEMA_TS, "    documentSettings: string;\n", "", "C38-R3"),
  ("ts-types-entry-changed", G, "  \"PositionNumber\": \"number\",", "  \"PositionNumber\": \"string\",",
   "C38-R3"),
  ("ts-types-key-misspelt", G, "  \"RefList\":        \"[GristObjCode.List, ...number[]]|null\",",
   "  \"Reflist\":        \"[GristObjCode.List, ...number[]]|null\",", "C38-R3"),
  ("suffix-no-longer-stripped", G, "  col_type = col_type.split(':', 1)[0]",
   "  col_type = col_type.split('#', 1)[0]", "C38-R3"),
  ("generator-prints-id-as-type", G, "print('    %s: %s;' % (column['id'], get_ts_type(column['type'])))",
   "print('    %s: %s;' % (column['id'], get_ts_type(column['id'])))", "C38-R4"),
  ("reflist-served-the-ref-default", UT, "def get_type_default(col_type):\n",
   "def get_type_default(col_type):\n  if get_referenced_table_id(col_type):\n"
   "    return _type_defaults['Ref']\n", "C38-R5"),
  ("python-bool-default-none", UT, "  'Bool':         False,", "  'Bool':         None,", "C38-R5"),
  ("python-numeric-default-nan-free-one", UT, "  'Numeric':      0.0,", "  'Numeric':      1.0,",
   "C38-R5"),
  ("ts-int-default-null", TYPES_TS, "  Int: [0,     \"0\"],", "  Int: [null,  \"NULL\"],", "C38-R5"),
  ("ts-type-missing", TYPES_TS, "  ChoiceList: [null,  \"NULL\"],\n", "", "C38-R5"),
  ("ts-manualsort-default-zero", TYPES_TS, "  ManualSortPos: [Number.POSITIVE_INFINITY, \"1e999\"],",
   "  ManualSortPos: [0, \"0\"],", "C38-R5"),
  ("ts-fallback-text", TYPES_TS, "|| _defaultValues.Any)", "|| _defaultValues.Text)", "C38-R5"),
  ("python-new-type-without-ts-default", UT, "  'Text':         u'',\n}",
   "  'Text':         u'',\n  'Duration':     0,\n}", "C38-R5"),
]
