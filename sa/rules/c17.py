"""C17 Renames inside access rules and conditions are exact -- structural clauses.

Deviation from DESIGN.md 4/C17: a fifth rule (R5) decides the two-pass order inside
acl.perform_acl_rule_renames -- the map from user-attribute names to their lookup tables must be
complete before the first formula is renamed with it (an independently seeded bug merged the two
passes). R2 also follows each rewritten text to the bulk update that stores it."""
import ast
from ..fn import World
from ..index import AnalysisError, dotted
from ..astutil import text, short, endswith, calls_in, walk_no_nested, names_loaded
from ..dataflow import DefUse
from .. import events as E
from . import _h_D as H

EXPLANATION = (
  "Decides (R1) that every function rewriting predicate formulas (found by role: it calls "
  "predicate_formula.process_renames) is called by the function that emits RenameColumn, with "
  "the very rename map given to the formula renamer and under the same guard, that table renames "
  "reach prepare_acl_table_renames with the table map and its callback is always invoked, and "
  "that every lookup in a rename map uses the (table, column) key shape the map is built with; "
  "(R2) that wherever a formula text is replaced its parsed form is regenerated from the *new* "
  "text in the paired field, the replacement happens only when the text changed, and the changed "
  "container reaches the bulk update of the table owning the field on every path; (R3) that each "
  "entity collector recognises its documented record variables, records the start of the "
  "attribute-name token, returns the same tree as the base converter, and that the entity types a "
  "renamer tests are types its collector emits; (R4) that process_renames patches "
  "[start, start+len(name)) of the dollar-free text, maps patches back through the same dollar "
  "replacer onto the original text, and returns its input unchanged when it does not parse; (R5) "
  "that the user-attribute table map is complete before it is first used. Not decided: that the "
  "re-parsed tree equals the old tree up to the renamed names (value level); rules stored for "
  "tables that are renamed at the same time.")

# Record variables each collector must recognise (from the property statement, one reason each).
COLLECTOR_VARS = {
  "acl._ACLEntityCollector": ({"rec", "newRec", "user"},
                              "ACL formulas: rec.X, newRec.X, user.Attr[.X]"),
  "dropdown_condition._DCEntityCollector": ({"choice", "rec"},
                                            "dropdown conditions: choice.X (referenced table), rec.X"),
  "trigger_expression._TriggerEntityCollector": ({"rec", "oldRec"},
                                                 "trigger conditions: rec.X, oldRec.X"),
}
# text field -> field holding its parsed form (the paired fields of the statement)
PAIRED = {
  "aclFormula": "aclFormulaParsed",
  "text": "parsed",
  "customExpression": "customExpressionParsed",
}
PARSERS = ("parse_predicate_formula", "parse_predicate_formula_json")


def check(run, repo, tier):
  w = World(repo)
  rewriters = _rewriters(w)
  r1_wiring(run, w, rewriters)
  r2_paired_fields(run, w, rewriters)
  r3_collectors(run, w, rewriters)
  r4_process_renames(run, w)
  r5_two_passes(run, w, rewriters)
  r6_per_record(run, w, rewriters)


def r6_per_record(run, w, rewriters):
  """The rename of one record's formula depends on that record (its resource table, its own
  user attributes), not only on the formula text: every record's new text must come from its own
  process_renames call with a renamer built for it -- never from a memo shared across records."""
  R6 = run.rule("C17-R6", "each record's new formula text is the direct result of a "
                "process_renames call made for that record with a renamer defined for it",
                floor=3)
  for fn, sites in rewriters:
    for (n, c) in sites:
      loops = [s for s in ast.walk(fn.node) if isinstance(s, ast.For) and
               any(x is c for b in s.body for x in ast.walk(b))]
      if not loops:
        raise AnalysisError("%s: process_renames is not called inside a per-record loop"
                            % fn.qualname)
      loop = loops[-1]        # innermost
      st = n.stmt
      var = st.targets[0].id if isinstance(st, ast.Assign) and st.value is c and \
          isinstance(st.targets[0], ast.Name) else None
      ok = var is not None
      wit = None
      if ok:
        # every definition of the variable is such a direct call
        defs = [x for x in ast.walk(fn.node) if isinstance(x, ast.Assign) and
                any(isinstance(t, ast.Name) and t.id == var for t in x.targets)]
        direct = all(isinstance(d.value, ast.Call) and
                     endswith(fn.name(d.value) or "", "process_renames") for d in defs)
        # the call is not skipped for some records because of a memo: inside the loop body, the
        # call is not under a test that reads a container written in the same loop
        conds = []
        def find(stmts, acc):
          for b in stmts:
            if b is st:
              conds.extend(acc)
              return True
            for fld in ("body", "orelse"):
              sub = getattr(b, fld, None)
              if isinstance(sub, list) and sub and isinstance(sub[0], ast.stmt):
                extra = [b.test] if isinstance(b, ast.If) else []
                if find(sub, acc + extra):
                  return True
            if isinstance(b, ast.Try):
              for h in b.handlers:
                if find(h.body, acc):
                  return True
          return False
        find(loop.body, [])
        written = set()
        for x in ast.walk(loop):
          if isinstance(x, ast.Assign):
            for t in x.targets:
              if isinstance(t, ast.Subscript) and isinstance(t.value, ast.Name):
                written.add(t.value.id)
          if isinstance(x, ast.Call) and isinstance(x.func, ast.Attribute) and \
              x.func.attr in ("setdefault", "update", "add") and isinstance(x.func.value, ast.Name):
            written.add(x.func.value.id)
        # containers (re)bound inside the loop are per-record scratch values, not memos
        rebound = {t.id for x in ast.walk(loop) if isinstance(x, ast.Assign)
                   for t in x.targets if isinstance(t, ast.Name)}
        rebound |= {y.id for y in ast.walk(loop.target) if isinstance(y, ast.Name)}
        written -= rebound
        memo = [text(t) for t in conds
                if {y.id for y in ast.walk(t) if isinstance(y, ast.Name)} & written]
        # the renamer is defined for this record: a def inside the same loop body
        renamer = c.args[2] if len(c.args) >= 3 else None
        per_rec = isinstance(renamer, ast.Name) and any(
          isinstance(x, ast.FunctionDef) and x.name == renamer.id
          for b in loop.body for x in ast.walk(b))
        ok = direct and not memo and per_rec
        wit = None if ok else ("definitions not direct calls" if not direct else
                               "call guarded by a memo: %s" % memo if memo else
                               "renamer not defined per record")
      run.ob(R6, fn.qualname, short(st, 90), "the new text of a record comes from its own "
             "process_renames call", ok, witness=wit, fi=fn.fi, node=st)


def _rewriters(w):
  """Functions that rewrite predicate formulas: they call predicate_formula.process_renames.
  [(Fn, [(cfg node, call)])]"""
  out = []
  for fi in w.repo.all_functions():
    if fi.module.name == "predicate_formula":
      continue
    fn = w.fn_of(fi)
    sites = [(n, c) for (n, c, nm) in fn.calls()
             if endswith(nm, "predicate_formula.process_renames", "process_renames")]
    if sites:
      out.append((fn, sites))
  if len(out) < 3:
    raise AnalysisError("fewer than 3 functions call process_renames (ACL, dropdown, trigger)")
  return sorted(out, key=lambda x: x[0].qualname)


def _resolves_to(fn, call, target_fi):
  """Does the call (in fn's module) name the module-level function target_fi?"""
  d = dotted(call.func)
  if d is None:
    return False
  parts = d.split(".")
  mod = fn.fi.module
  if parts[-1] != target_fi.name:
    return False
  if len(parts) == 1:
    imp = mod.imports.get(parts[0])
    return (imp == ("name", target_fi.module.name, target_fi.name)) or \
        (mod is target_fi.module and parts[0] in mod.functions)
  if len(parts) == 2:
    return mod.imports.get(parts[0]) == ("module", target_fi.module.name)
  return False


# ------------------------------------------------------------------------------------------ R1

def r1_wiring(run, w, rewriters):
  R1 = run.rule("C17-R1", "every predicate-formula rewriter is driven by the rename paths with "
                "the same rename map, and looks names up with the map's key shape", floor=14)
  col_site = tab_site = None
  for (fn, call) in H.rename_constructions(w, ("RenameColumn", "RenameTable")):
    if fn.fi.module.name != "useractions":
      continue
    site = H.RenameSite(fn, ("RenameColumn", "RenameTable"))
    kinds = {e[3] for e in site.emits}
    if "RenameColumn" in kinds:
      col_site = site
    if "RenameTable" in kinds:
      tab_site = site
  if col_site is None or tab_site is None:
    raise AnalysisError("the functions emitting RenameColumn / RenameTable were not found")
  # ---- column renames
  fn = col_site.fn
  if len(col_site.preps) != 1:
    raise AnalysisError("%s: one _prepare_formula_renames call expected" % fn.qualname)
  prep_node, prep_call = col_site.preps[0]
  marg = prep_call.args[0]
  if not isinstance(marg, ast.Name):
    raise AnalysisError("%s: the column rename map is not a local name" % fn.qualname)
  mname = marg.id
  prep_guard = _guards(fn, fn.cfg.nodes[prep_node].stmt)
  du = col_site.du
  for (rfn, sites) in rewriters:
    top = rfn.fi
    while top.parent is not None:
      top = top.parent
    calls = [(n, c) for (n, c, nm) in fn.calls() if _resolves_to(fn, c, top)]
    ok = len(calls) == 1 and len(calls[0][1].args) == 2 and \
        text(calls[0][1].args[0]) == "self" and text(calls[0][1].args[1]) == mname and \
        _guards(fn, fn.cfg.nodes[calls[0][0].id].stmt) == prep_guard
    run.ob(R1, fn.qualname, "%s(self, %s)" % (top.qualname, mname),
           "the function that emits RenameColumn calls this rewriter with the rename map given "
           "to the formula renamer, under the same guard (%s)" % (prep_guard,), ok, fi=fn.fi)
  run.ob(R1, fn.qualname, "%s has a single writer" % mname, "all rewriters see the same renames",
         len(du.writers(mname)) == 1, fi=fn.fi)
  # ---- table renames
  fn = tab_site.fn
  anchor = w.repo.func("acl.prepare_acl_table_renames")
  kind, tname, comp, rekey = tab_site.resolve_map(tab_site.preps[0][1].args[0]) \
      if len(tab_site.preps) == 1 else (None, None, None, None)
  if tname is None:
    raise AnalysisError("%s: the table rename map is not a local name" % fn.qualname)
  calls = [(n, c) for (n, c, nm) in fn.calls() if _resolves_to(fn, c, anchor)]
  ok = len(calls) == 1 and len(calls[0][1].args) == 2 and text(calls[0][1].args[1]) == tname
  run.ob(R1, fn.qualname, "acl.prepare_acl_table_renames(self, %s)" % tname,
         "ACL resources and user attributes are prepared with the table rename map "
         "{old table id: new table id}", ok, fi=fn.fi)
  if ok:
    n, c = calls[0]
    st = n.stmt
    cb = st.targets[0].id if isinstance(st, ast.Assign) and isinstance(st.targets[0], ast.Name) \
        and st.value is c else None
    inv = {m.id for (m, c2, nm) in fn.calls() if cb is not None and isinstance(c2.func, ast.Name)
           and c2.func.id == cb and not c2.args}
    run.ob(R1, fn.qualname, "%s()" % cb, "the prepared ACL updates are applied on every normal "
           "path after they were prepared", bool(inv) and
           fn.cfg.postdominated_by(n.id, inv), fi=fn.fi)
    # the callback writes both ACL tables from the lists filled before
    inner = w.repo.funcs.get(anchor.qualname + "." + _returned_closure(anchor))
    if inner is None:
      raise AnalysisError("acl.prepare_acl_table_renames: returned closure not found")
    ifn = w.fn_of(inner)
    tabs = sorted(c2.args[0].value for (m, c2, nm) in ifn.calls()
                  if endswith(nm, "doBulkUpdateFromPairs") and c2.args and
                  isinstance(c2.args[0], ast.Constant))
    run.ob(R1, inner.qualname, "doBulkUpdateFromPairs(%s)" % ", ".join(tabs),
           "the callback stores the updates of resources and of rules",
           tabs == ["_grist_ACLResources", "_grist_ACLRules"], fi=inner)
  # ---- key shape of every lookup in a rename map
  for (rfn, sites) in rewriters:
    top = rfn.fi
    while top.parent is not None:
      top = top.parent
    _key_shapes(run, R1, w, top)
  _key_shapes(run, R1, w, anchor, table_map=True)


def _returned_closure(fi):
  rets = [s for s in walk_no_nested(fi.node) if isinstance(s, ast.Return)]
  if len(rets) == 1 and isinstance(rets[0].value, ast.Name):
    return rets[0].value.id
  raise AnalysisError("%s does not return a single closure" % fi.qualname)


def _guards(fn, stmt):
  """Normalised tests of the if-statements enclosing stmt (body side only)."""
  from ..astutil import enclosing_chain
  out = []
  for (s, fld) in enclosing_chain(fn.node, stmt):
    if isinstance(s, ast.If):
      out.append(("" if fld == "body" else "not ") + text(s.test))
    elif isinstance(s, (ast.For, ast.While, ast.Try)):
      out.append("<%s>" % s.__class__.__name__)
  return tuple(out)


def _key_shapes(run, R1, w, top, table_map=False):
  """Lookups in the rename-map parameter (2nd parameter), in the function and its closures."""
  ps = top.params()
  if len(ps) < 2:
    raise AnalysisError("%s: (useractions, renames) signature expected" % top.qualname)
  mp = ps[1]
  keys = []
  fis = [f for f in w.repo.all_functions() if f is top or _is_inside(f, top)]
  for f in fis:
    if f is not top and mp in f.params():
      continue
    for n in ast.walk(f.node) if f is top else walk_no_nested(f.node):
      if isinstance(n, ast.Call) and isinstance(n.func, ast.Attribute) and \
          n.func.attr == "get" and text(n.func.value) == mp and n.args:
        keys.append(n.args[0])
      elif isinstance(n, ast.Subscript) and text(n.value) == mp:
        keys.append(n.slice)
      elif isinstance(n, ast.Compare) and len(n.ops) == 1 and \
          isinstance(n.ops[0], (ast.In, ast.NotIn)) and text(n.comparators[0]) == mp:
        keys.append(n.left)
  seen = set()
  for k in keys:
    t = text(k)
    if t in seen:
      continue
    seen.add(t)
    if table_map:
      ok = not isinstance(k, ast.Tuple)
      what = "table rename maps are keyed by the old table id"
    else:
      ok = isinstance(k, ast.Tuple) and len(k.elts) == 2
      what = "column rename maps are keyed by (table id, column id)"
    run.ob(R1, top.qualname, "%s[%s]" % (mp, t), what, ok, fi=top, node=k)
  if not keys:
    raise AnalysisError("%s: the rename map %s is never looked up" % (top.qualname, mp))


def _is_inside(f, top):
  p = f.parent
  while p is not None:
    if p is top:
      return True
    p = p.parent
  return False


# ------------------------------------------------------------------------------------------ R2

def _root_name(expr):
  e = expr
  while isinstance(e, (ast.Subscript, ast.Attribute)):
    e = e.value
  return e.id if isinstance(e, ast.Name) else None


def _ultimate_root(fn, name, depth=4):
  """config = condition_data.get('config')  =>  condition_data"""
  for _ in range(depth):
    vals = E.local_defs(fn.node, name)
    if len(vals) != 1:
      return name
    v = vals[0]
    if isinstance(v, ast.Call) and isinstance(v.func, ast.Attribute) and v.func.attr == "get" \
        and isinstance(v.func.value, ast.Name):
      name = v.func.value.id
    elif isinstance(v, ast.Subscript) and _root_name(v) is not None:
      name = _root_name(v)
    else:
      return name
  return name


def _is_parser_call(e, newvar):
  return isinstance(e, ast.Call) and dotted(e.func) is not None and \
      dotted(e.func).split(".")[-1] in PARSERS and len(e.args) == 1 and text(e.args[0]) == newvar


def r2_paired_fields(run, w, rewriters):
  R2 = run.rule("C17-R2", "a replaced formula text has its parsed form regenerated from the new "
                "text in the paired field, only when it changed, and reaches the bulk update",
                floor=16)
  schema = H.python_schema(w)
  nsites = 0
  for (fn, sites) in rewriters:
    q = fn.qualname
    cfg = fn.cfg
    du = DefUse(fn)
    for (node, call) in sites:
      nsites += 1
      st = node.stmt
      if not (isinstance(st, ast.Assign) and len(st.targets) == 1 and
              isinstance(st.targets[0], ast.Name) and st.value is call and len(call.args) == 3):
        raise AnalysisError("%s: result of process_renames is not bound to a local" % q)
      newvar = st.targets[0].id
      oldexpr = call.args[0]
      # ---- where the new text is stored
      stores = []    # (cfg node, field const, container text or None, kind, stmt)
      for n in cfg.nodes:
        s = n.stmt
        if n.kind != "stmt" or not isinstance(s, ast.Assign):
          continue
        if isinstance(s.value, ast.Name) and s.value.id == newvar:
          for t in s.targets:
            if isinstance(t, ast.Subscript) and isinstance(t.slice, ast.Constant):
              stores.append((n, t.slice.value, text(t.value), "subscript", s))
        if isinstance(s.value, ast.Dict):
          for k, v in zip(s.value.keys, s.value.values):
            if isinstance(v, ast.Name) and v.id == newvar and isinstance(k, ast.Constant):
              stores.append((n, k.value, None, "dict", s))
      if len(stores) != 1:
        raise AnalysisError("%s: the text produced by process_renames(%s, ...) is stored %d "
                            "times (once expected)" % (q, short(oldexpr), len(stores)))
      sn, field, cont, kind, sst = stores[0]
      pfield = PAIRED.get(field)
      if pfield is None:
        raise AnalysisError("%s: text field %r has no known parsed counterpart" % (q, field))
      # ---- the paired parsed field, from the new text, in the same block
      ok, pn = False, None
      if kind == "dict":
        for k, v in zip(sst.value.keys, sst.value.values):
          if isinstance(k, ast.Constant) and k.value == pfield and _is_parser_call(v, newvar):
            ok, pn = True, sn
      else:
        block = _block_of(fn.node, sst)
        for b in block:
          if isinstance(b, ast.Assign) and len(b.targets) == 1 and \
              isinstance(b.targets[0], ast.Subscript) and \
              isinstance(b.targets[0].slice, ast.Constant) and \
              b.targets[0].slice.value == pfield and text(b.targets[0].value) == cont and \
              _is_parser_call(b.value, newvar):
            ok = True
            pn = [n for n in cfg.nodes if n.stmt is b][0]
      run.ob(R2, q, "%s[%r] = parse(%s) next to [%r] = %s"
             % (cont or "<update>", pfield, newvar, field, newvar),
             "the parsed form stored beside the new text is parsed from the new text", ok,
             fi=fn.fi, node=sst)
      # ---- only when changed
      tests = [t for t in _guard_tests(fn, sst)]
      want = {"%s != %s" % (newvar, text(oldexpr)), "%s != %s" % (text(oldexpr), newvar)}
      run.ob(R2, q, "if %s != %s" % (newvar, text(oldexpr)),
             "records whose text did not change are left alone (and an unparsable text, which "
             "process_renames returns unchanged, is never re-parsed)",
             any(text(t) in want for t in tests), fi=fn.fi, node=sst)
      # ---- the old text is what the record holds in that field
      _old_text_source(run, R2, fn, oldexpr, field, cont, sst)
      # ---- the change reaches the bulk update on every path
      _reaches_update(run, R2, w, fn, du, sn, pn, sst, kind, cont, schema)
  if nsites < 4:
    raise AnalysisError("fewer than 4 process_renames call sites found")


def _block_of(fnode, stmt):
  for n in ast.walk(fnode):
    for fld in ("body", "orelse", "finalbody"):
      b = getattr(n, fld, None)
      if isinstance(b, list) and any(x is stmt for x in b):
        return b
    for h in getattr(n, "handlers", []) or []:
      if any(x is stmt for x in h.body):
        return h.body
  raise AnalysisError("statement block not found")


def _guard_tests(fn, stmt):
  from ..astutil import enclosing_chain
  return [s.test for (s, fld) in enclosing_chain(fn.node, stmt)
          if isinstance(s, ast.If) and fld == "body"]


def _old_text_source(run, R2, fn, oldexpr, field, cont, sst):
  """The text handed to process_renames is read from the same field the new text is stored in."""
  q = fn.qualname
  src = oldexpr
  if isinstance(src, ast.Name):
    vals = E.local_defs(fn.node, src.id)
    if len(vals) != 1:
      raise AnalysisError("%s: old formula text %s has %d definitions" % (q, src.id, len(vals)))
    src = vals[0]
  f = None
  if isinstance(src, ast.Subscript) and isinstance(src.slice, ast.Constant):
    f, base = src.slice.value, text(src.value)
  elif isinstance(src, ast.Attribute):
    f, base = src.attr, text(src.value)
  elif isinstance(src, ast.Call) and isinstance(src.func, ast.Attribute) and \
      src.func.attr == "get" and src.args and isinstance(src.args[0], ast.Constant):
    f, base = src.args[0].value, text(src.func.value)
  ok = f == field and (cont is None or base == cont)
  run.ob(R2, q, "old text = %s" % short(src), "the text that is renamed is read from the field "
         "(%r) the result is written back to" % field, ok, fi=fn.fi, node=sst)


def _reaches_update(run, R2, w, fn, du, sn, pn, sst, kind, cont, schema):
  q = fn.qualname
  cfg = fn.cfg
  # lists handed to doBulkUpdateFromPairs(<table>, <list>) that every normal path passes
  bulk = {}
  for (n, c, nm) in fn.calls():
    if endswith(nm, "doBulkUpdateFromPairs") and len(c.args) == 2 and \
        isinstance(c.args[0], ast.Constant) and isinstance(c.args[1], ast.Name):
      if cfg.dominated_by(cfg.exit.id, {n.id}):
        bulk[c.args[1].id] = (c.args[0].value, n.id)
  if kind == "dict":
    carried = {sst.targets[0].id} if isinstance(sst.targets[0], ast.Name) else set()
  else:
    carried = {_ultimate_root(fn, _root_name(sst.targets[0]))}
  loop = H.innermost_loop(fn.node, sst)
  if loop is None or not isinstance(loop.target, ast.Name):
    raise AnalysisError("%s: formula texts are not rewritten inside a loop over records" % q)
  rec = loop.target.id
  appends = {}
  for (n, c, nm) in fn.calls():
    f = c.func
    if isinstance(f, ast.Attribute) and f.attr == "append" and isinstance(f.value, ast.Name) and \
        f.value.id in bulk and len(c.args) == 1 and isinstance(c.args[0], ast.Tuple) and \
        len(c.args[0].elts) == 2 and text(c.args[0].elts[0]) == rec and \
        (names_loaded(c.args[0].elts[1]) & carried):
      appends[n.id] = (f.value.id, c.args[0].elts[1])
  heads = {n.id for n in cfg.nodes if n.stmt is loop and n.kind == "for"}
  # from the moment the change is detected (first statement of the block storing the new text)
  first = _block_of(fn.node, sst)[0]
  starts = [n.id for n in cfg.nodes if n.stmt is first and n.kind not in ("entry", "exit")]
  if not starts:
    raise AnalysisError("%s: block storing the new text has no CFG node" % q)
  esc = _escape_path(cfg, starts[0], set(appends), heads | {cfg.exit.id})
  run.ob(R2, q, "%s -> <updates>.append((%s, ...)) -> doBulkUpdateFromPairs" % (short(sst), rec),
         "once the text is replaced, the record's update is queued before the next record is "
         "looked at, on every path (flags set on the way are taken into account)",
         bool(appends) and esc is None, witness=cfg.describe_path(esc) if esc else None,
         fi=fn.fi, node=sst)
  # the fields stored belong to the table the bulk update names
  for nid, (lst, d) in sorted(appends.items()):
    table = bulk[lst][0]
    dd = d
    if isinstance(dd, ast.Name):
      vals = E.local_defs(fn.node, dd.id)
      dd = vals[0] if len(vals) == 1 else None
    if not (isinstance(dd, ast.Dict) and all(isinstance(k, ast.Constant) for k in dd.keys)):
      raise AnalysisError("%s: update appended to %s is not a dict literal" % (q, lst))
    cols = {cid for (cid, _, _) in (schema.get(table) or [])}
    keys = [k.value for k in dd.keys]
    run.ob(R2, q, "doBulkUpdateFromPairs(%r, %s) stores %s" % (table, lst, keys),
           "the queued fields are columns of the metadata table that is updated",
           bool(cols) and set(keys) <= cols, fi=fn.fi, node=d)


def _escape_path(cfg, start, targets, stops):
  """A path from `start` to one of `stops` that avoids `targets`, where an `if <flag>:` whose
  flag was assigned True on the way (and not reassigned since) only takes its body. None when
  every path passes a target."""
  from collections import deque
  init = (start, frozenset())
  prev = {init: None}
  dq = deque([init])
  while dq:
    cur = dq.popleft()
    nid, known = cur
    node = cfg.nodes[nid]
    k2 = known
    s = node.stmt
    if node.kind == "stmt" and isinstance(s, ast.Assign) and len(s.targets) == 1 and \
        isinstance(s.targets[0], ast.Name):
      nm = s.targets[0].id
      if isinstance(s.value, ast.Constant) and s.value.value is True:
        k2 = known | {nm}
      else:
        k2 = known - {nm}
    succs = cfg.normal_succ(nid) if hasattr(cfg, "normal_succ") else cfg.succ[nid]
    if node.kind == "if" and isinstance(s.test, ast.Name) and s.test.id in k2:
      body_first = [t for t in succs if cfg.nodes[t].stmt is s.body[0]]
      if not body_first:
        raise AnalysisError("cannot identify the body successor of `if %s`" % s.test.id)
      succs = body_first
    for t in succs:
      if t in targets:
        continue
      nxt = (t, k2)
      if nxt in prev:
        continue
      prev[nxt] = cur
      if t in stops:
        path = [t]
        p = cur
        while p is not None:
          path.append(p[0])
          p = prev[p]
        return list(reversed(path))
      dq.append(nxt)
  return None


# ------------------------------------------------------------------------------------------ R3

def _collector_class(w, fn, call):
  """ClassInfo of the collector instantiated as 2nd argument of process_renames."""
  a = call.args[1]
  if not (isinstance(a, ast.Call) and not a.args):
    raise AnalysisError("%s: collector argument is not a fresh instance: %s"
                        % (fn.qualname, short(a)))
  ci = w.repo.resolve_class_name(fn.fi.module, dotted(a.func))
  if ci is None:
    raise AnalysisError("%s: collector class %s not resolved" % (fn.qualname, short(a)))
  return ci


def _recognised_vars(test, parent):
  """Names v such that the test compares `parent` with ['Name', v] (==, in (...))."""
  out = set()
  def name_list(e):
    if isinstance(e, ast.List) and len(e.elts) == 2 and \
        all(isinstance(x, ast.Constant) for x in e.elts) and e.elts[0].value == "Name":
      return e.elts[1].value
    return None
  for n in ast.walk(test):
    if isinstance(n, ast.Compare) and len(n.ops) == 1:
      l, r = n.left, n.comparators[0]
      if isinstance(n.ops[0], ast.Eq):
        for a, b in ((l, r), (r, l)):
          if text(a) == parent and name_list(b) is not None:
            out.add(name_list(b))
          # parent[1] == ['Name', 'user']  (one level up the chain)
          if text(a) == parent + "[1]" and name_list(b) is not None:
            out.add(name_list(b))
      elif isinstance(n.ops[0], ast.In) and text(l) == parent and \
          isinstance(r, (ast.Tuple, ast.List, ast.Set)):
        for e in r.elts:
          if name_list(e) is not None:
            out.add(name_list(e))
  return out


def r3_collectors(run, w, rewriters):
  R3 = run.rule("C17-R3", "entity collectors recognise their record variables, record the start "
                "of the attribute-name token, mirror the base converter; renamers test only "
                "entity types their collector emits", floor=18)
  base = w.repo.func("predicate_formula.TreeConverter.visit_Attribute")
  brets = [s for s in walk_no_nested(base.node) if isinstance(s, ast.Return)]
  if len(brets) != 1:
    raise AnalysisError("TreeConverter.visit_Attribute: one return expected")
  bnode = base.params()[1]
  base_ret = H.ntext(brets[0].value, {bnode: "_n"})
  ne_fields = None
  node = w.repo.module("predicate_formula").assigns.get("NamedEntity")
  if isinstance(node, ast.Call) and len(node.args) == 2 and isinstance(node.args[1], ast.Tuple):
    ne_fields = [e.value for e in node.args[1].elts]
  if ne_fields != ["type", "start_pos", "name", "extra"]:
    raise AnalysisError("predicate_formula.NamedEntity fields changed: %s" % (ne_fields,))
  done = {}
  for (fn, sites) in rewriters:
    for (n, call) in sites:
      ci = _collector_class(w, fn, call)
      if ci.qualname not in done:
        done[ci.qualname] = _collector(run, R3, w, ci, base_ret, bnode)
      types = done[ci.qualname]
      # the renamer handed to process_renames
      ra = call.args[2]
      rfi = w.repo.funcs.get(fn.qualname + "." + ra.id) if isinstance(ra, ast.Name) else None
      if rfi is None:
        raise AnalysisError("%s: renamer %s is not a local closure" % (fn.qualname, short(ra)))
      subj = rfi.params()[0]
      tested = set()
      for x in walk_no_nested(rfi.node):
        if isinstance(x, ast.Compare) and len(x.ops) == 1 and \
            isinstance(x.ops[0], (ast.Eq, ast.NotEq)):
          for a, b in ((x.left, x.comparators[0]), (x.comparators[0], x.left)):
            if text(a) == subj + ".type" and isinstance(b, ast.Constant):
              tested.add(b.value)
      run.ob(R3, rfi.qualname, "%s.type in %s" % (subj, sorted(tested)),
             "every entity type the renamer distinguishes is a type %s emits (%s)"
             % (ci.name, sorted(types)), tested <= types, fi=rfi)
      # the new name is looked up under the entity's own name
      rets = [s.value for s in walk_no_nested(rfi.node) if isinstance(s, ast.Return) and
              s.value is not None and not (isinstance(s.value, ast.Constant) and
                                           s.value.value is None)]
      ok = bool(rets)
      for r in rets:
        key = r.args[0] if isinstance(r, ast.Call) and isinstance(r.func, ast.Attribute) and \
            r.func.attr == "get" and len(r.args) == 1 else None
        last = key.elts[1] if isinstance(key, ast.Tuple) and len(key.elts) == 2 else None
        if isinstance(last, ast.Name):
          vals = [s.value for s in walk_no_nested(rfi.node) if isinstance(s, ast.Assign) and
                  text(s.targets[0]) == last.id]
          last = vals[0] if len(vals) == 1 else None
        ok = ok and last is not None and text(last) == subj + ".name"
      run.ob(R3, rfi.qualname, "return <renames>.get((<table>, %s.name))" % subj,
             "the replacement is the rename recorded for the collected name itself", ok, fi=rfi)
  missing = set(COLLECTOR_VARS) - set(done)
  if missing:
    raise AnalysisError("collector classes not reached from any rewriter: %s" % sorted(missing))


def _collector(run, R3, w, ci, base_ret, bnode):
  fi = ci.methods.get("visit_Attribute")
  if fi is None:
    raise AnalysisError("%s defines no visit_Attribute" % ci.qualname)
  q = fi.qualname
  nd = fi.params()[1]
  if not any(c.qualname == "predicate_formula.TreeConverter" for c in w.repo.mro(ci)):
    raise AnalysisError("%s does not derive from TreeConverter" % ci.qualname)
  first = fi.node.body[0]
  if isinstance(first, ast.Expr) and isinstance(first.value, ast.Constant):
    first = fi.node.body[1]
  ok = isinstance(first, ast.Assign) and isinstance(first.targets[0], ast.Name) and \
      text(first.value) == "self.visit(%s.value)" % nd
  parent = first.targets[0].id if ok else None
  run.ob(R3, q, "parent = self.visit(%s.value)" % nd, "the receiver is converted first (so "
         "nested attributes are collected too)", ok, fi=fi)
  if not ok:
    return set()
  rets = [s for s in walk_no_nested(fi.node) if isinstance(s, ast.Return)]
  got = None
  if len(rets) == 1 and rets[0].value is not None:
    import re as _re
    got = _re.sub(r"\b%s\b" % _re.escape(parent), "self.visit(_n.value)",
                  H.ntext(rets[0].value, {nd: "_n"}))
  run.ob(R3, q, "return ['Attr', %s, %s.attr]" % (parent, nd), "collecting does not change the "
         "converted tree (same result as TreeConverter.visit_Attribute): %s" % base_ret,
         got == base_ret, fi=fi)
  # the return is reached on every path (no early return skipping it)
  types, seen_vars = set(), set()
  for s in walk_no_nested(fi.node):
    if isinstance(s, ast.If):
      seen_vars |= _recognised_vars(s.test, parent)
  appends = [c for c in calls_in(fi.node.body) if isinstance(c.func, ast.Attribute) and
             c.func.attr == "append" and text(c.func.value) == "self.entities"]
  if not appends:
    raise AnalysisError("%s records no entities" % q)
  for c in appends:
    a = c.args[0] if c.args else None
    ok = isinstance(a, ast.Call) and dotted(a.func) == "NamedEntity" and len(a.args) == 4 and \
        not a.keywords and isinstance(a.args[0], ast.Constant) and \
        text(a.args[1]) == "%s.last_token.startpos" % nd and text(a.args[2]) == "%s.attr" % nd
    if ok:
      types.add(a.args[0].value)
    run.ob(R3, q, short(c), "an entity is (type, start of the attribute-name token, attribute "
           "name, extra): the patch later replaces len(name) characters from that start", ok,
           fi=fi, node=c)
  want, why = COLLECTOR_VARS.get(ci.qualname, (None, None))
  if want is None:
    raise AnalysisError("collector %s has no documented variable set" % ci.qualname)
  run.ob(R3, q, "recognised variables %s" % sorted(seen_vars), "the collector recognises "
         "exactly the record variables of its formula language (%s)" % why, seen_vars == want,
         fi=fi)
  # an entity whose table depends on a user attribute carries the attribute name as extra
  for c in appends:
    a = c.args[0]
    if isinstance(a, ast.Call) and len(a.args) == 4 and isinstance(a.args[0], ast.Constant) and \
        a.args[0].value == "userAttrCol":
      run.ob(R3, q, "NamedEntity('userAttrCol', ..., extra=%s)" % text(a.args[3]),
             "user.ATTR.COL records ATTR (the attribute part of the converted receiver "
             "['Attr', ['Name','user'], ATTR]) so the renamer can find ATTR's table",
             text(a.args[3]) == parent + "[2]", fi=fi, node=c)
  return types


# ------------------------------------------------------------------------------------------ R4

def r4_process_renames(run, w):
  R4 = run.rule("C17-R4", "process_renames patches the dollar-free text at the collected "
                "positions, maps back through the same replacer, and returns unparsable input "
                "unchanged", floor=7)
  fn = w.fn("predicate_formula.process_renames")
  q = fn.qualname
  formula, collector, renamer = fn.fi.params()[:3]
  du = DefUse(fn)
  run.ob(R4, q, "%s is never rebound" % formula, "the text returned and patched is the caller's "
         "text", not du.defs.get(formula), fi=fn.fi)
  tries = [s for s in fn.node.body if isinstance(s, ast.Try)]
  if len(tries) != 1:
    raise AnalysisError("%s: one try statement expected" % q)
  tr = tries[0]
  inside = [text(c.func) for c in calls_in(tr.body)]
  ok = "ast.parse" in inside and (collector + ".visit") in inside
  run.ob(R4, q, "try: ast.parse(...); %s.visit(...)" % collector,
         "parsing and collecting (both raise SyntaxError on unsupported input) are fenced", ok,
         fi=fn.fi, node=tr)
  hs = [h for h in tr.handlers if h.type is not None and
        "SyntaxError" in {dotted(x) for x in ([h.type] if not isinstance(h.type, ast.Tuple)
                                              else h.type.elts)}]
  ok = len(hs) == 1 and len(hs[0].body) == 1 and isinstance(hs[0].body[0], ast.Return) and \
      text(hs[0].body[0].value) == formula
  run.ob(R4, q, "except SyntaxError: return %s" % formula,
         "a formula that does not parse is returned exactly as it came in", ok, fi=fn.fi,
         node=tr)
  # the dollar replacer and the text parsed
  defs = {}
  for s in walk_no_nested(fn.node):
    if isinstance(s, ast.Assign) and len(s.targets) == 1 and isinstance(s.targets[0], ast.Name):
      defs.setdefault(s.targets[0].id, []).append(s.value)
  repl = [k for k, v in defs.items() if len(v) == 1 and isinstance(v[0], ast.Call) and
          dotted(v[0].func) == "get_dollar_replacer" and text(v[0].args[0]) == formula]
  if len(repl) != 1:
    raise AnalysisError("%s: get_dollar_replacer(%s) not found" % (q, formula))
  repl = repl[0]
  nodollar = {k for k, v in defs.items() if len(v) == 1 and text(v[0]) == repl + ".get_text()"}
  texts = nodollar | {repl + ".get_text()"}
  parse = [c for c in calls_in(tr.body) if text(c.func) == "ast.parse"]
  atok = [c for c in calls_in(tr.body) if endswith(dotted(c.func), "asttokens.ASTTokens")]
  ok = len(parse) == 1 and text(parse[0].args[0]) in texts and len(atok) == 1 and \
      text(atok[0].args[0]) in texts
  run.ob(R4, q, "asttokens.ASTTokens(<no-dollar text>, tree=ast.parse(<no-dollar text>))",
         "token positions refer to the dollar-free text", ok, fi=fn.fi, node=tr)
  # the patch
  loops = [s for s in fn.node.body if isinstance(s, ast.For) and
           text(s.iter) == collector + ".entities"]
  if len(loops) != 1:
    raise AnalysisError("%s: loop over %s.entities not found" % (q, collector))
  lp = loops[0]
  subj = text(lp.target)
  mk = [c for b in lp.body for c in calls_in(b)
        if endswith(dotted(c.func), "textbuilder.make_patch", "make_patch")]
  if len(mk) != 1 or len(mk[0].args) != 4:
    raise AnalysisError("%s: one make_patch call expected in the entity loop" % q)
  a = mk[0].args
  newv = [text(s.targets[0]) for b in lp.body for s in ast.walk(b) if isinstance(s, ast.Assign)
          and isinstance(s.value, ast.Call) and text(s.value) == "%s(%s)" % (renamer, subj)]
  ok = text(a[0]) in texts and text(a[1]) == subj + ".start_pos" and \
      text(a[2]) in ("%s.start_pos + len(%s.name)" % (subj, subj),
                     "len(%s.name) + %s.start_pos" % (subj, subj)) and \
      len(newv) == 1 and text(a[3]) == newv[0]
  run.ob(R4, q, short(mk[0]), "the patch replaces exactly the old name, [start, start+len(name)), "
         "in the dollar-free text with what the renamer returned", ok, fi=fn.fi, node=mk[0])
  guard = [s for s in lp.body if isinstance(s, ast.If) and newv and
           text(s.test) in ("%s is not None" % newv[0], newv[0])]
  run.ob(R4, q, "if <new name> is not None", "entities the renamer does not rename produce no "
         "patch", len(guard) == 1 and any(x is mk[0] for x in ast.walk(guard[0])), fi=fn.fi,
         node=lp)
  mb = [c for b in lp.body for c in calls_in(b) if isinstance(c.func, ast.Attribute) and
        c.func.attr == "map_back_patch"]
  ok = len(mb) == 1 and text(mb[0].func.value) == repl and len(mb[0].args) == 1 and \
      (mb[0].args[0] is mk[0] or text(mb[0].args[0]) in
       [text(s.targets[0]) for b in lp.body for s in ast.walk(b)
        if isinstance(s, ast.Assign) and s.value is mk[0]])
  run.ob(R4, q, "%s.map_back_patch(<patch>)" % repl, "positions are translated back to the "
         "original text (with its $ signs) by the replacer that removed them", ok, fi=fn.fi,
         node=lp)
  rets = [s for s in fn.node.body if isinstance(s, ast.Return)]
  ok = False
  if len(rets) == 1:
    v = rets[0].value
    inner = v.func.value if isinstance(v, ast.Call) and isinstance(v.func, ast.Attribute) and \
        v.func.attr == "get_text" else None
    ok = isinstance(inner, ast.Call) and endswith(dotted(inner.func), "textbuilder.Replacer") and \
        len(inner.args) == 2 and text(inner.args[0]) in ("textbuilder.Text(%s)" % formula,) and \
        isinstance(inner.args[1], ast.Name)
  run.ob(R4, q, "return textbuilder.Replacer(textbuilder.Text(%s), patches).get_text()" % formula,
         "the mapped-back patches are applied to the original text", ok, fi=fn.fi)


# ------------------------------------------------------------------------------------------ R5

def r5_two_passes(run, w, rewriters):
  R5 = run.rule("C17-R5", "tables a renamer reads are completely filled before the first "
                "formula is renamed with them", floor=1)
  n_inst = 0
  for (fn, sites) in rewriters:
    cfg = fn.cfg
    du = DefUse(fn)
    for (node, call) in sites:
      ra = call.args[2]
      rfi = w.repo.funcs.get(fn.qualname + "." + ra.id) if isinstance(ra, ast.Name) else None
      if rfi is None:
        continue
      local_params = set(rfi.params()) | {a.arg for a in rfi.node.args.kwonlyargs}
      free = {n.id for n in ast.walk(rfi.node) if isinstance(n, ast.Name) and
              isinstance(n.ctx, ast.Load)} - local_params
      for name in sorted(free):
        fills = du.muts.get(name, set())
        if not fills:
          continue            # not a table filled in place by the enclosing function
        n_inst += 1
        use = node.id
        late = cfg.reach_after({use}) & fills
        before = cfg.reach(fills) & {use}
        wit = None
        if late:
          wit = cfg.describe_path(cfg.path(use, late, after=True))
        run.ob(R5, fn.qualname, "%s filled before %s uses it" % (name, rfi.name),
               "no statement that fills %s is reachable once a formula has been renamed with it "
               "(a rule's formula may mention an attribute defined by a later rule)" % name,
               not late and bool(before), witness=wit, fi=fn.fi,
               node=cfg.nodes[sorted(late)[0]].stmt if late else node.stmt)
  if n_inst < 1:
    raise AnalysisError("no renamer reads a table filled by its enclosing function "
                        "(user_attr_tables expected)")


# ---------------------------------------------------------------------------------- self-test
A = "sandbox/grist/acl.py"
D = "sandbox/grist/dropdown_condition.py"
T = "sandbox/grist/trigger_expression.py"
P = "sandbox/grist/predicate_formula.py"
U = "sandbox/grist/useractions.py"

VARIANTS = [
  ("acl-rename-memo-by-text", "sandbox/grist/acl.py",
   "    new_acl_formula = predicate_formula.process_renames(acl_formula, _ACLEntityCollector(), renamer)\n",
   "    if acl_formula not in _memo:\n      _memo[acl_formula] = predicate_formula.process_renames(acl_formula, _ACLEntityCollector(), renamer)\n    new_acl_formula = _memo[acl_formula]\n", "C17-R6"),

  # the independently seeded bug: the two passes over _grist_ACLRules merged into one
  ("seeded-acl-rename-loops-merged", A,
   "  acl_resources_table = useractions.get_docmodel().aclResources.table\n"
   "  # Go through again checking if anything in ACL formulas is affected by the rename.\n"
   "  for rule_rec in useractions.get_docmodel().aclRules.all:\n\n",
   "    acl_resources_table = useractions.get_docmodel().aclResources.table\n\n", "C17-R5"),
  ("acl-parsed-not-regenerated", A,
   "        \"aclFormula\": new_acl_formula,\n"
   "        \"aclFormulaParsed\": parse_predicate_formula_json(new_acl_formula)\n",
   "        \"aclFormula\": new_acl_formula,\n", "C17-R2"),
  ("dropdown-parsed-from-old-text", D,
   "parse_predicate_formula_json(new_dc_formula)", "parse_predicate_formula_json(dc_formula)",
   "C17-R2"),
  ("trigger-custom-expression-change-not-flagged", T,
   "          config['customExpressionParsed'] = parse_predicate_formula(new_custom_expr)\n"
   "          changed = True\n",
   "          config['customExpressionParsed'] = parse_predicate_formula(new_custom_expr)\n",
   "C17-R2"),
  ("trigger-parsed-stored-in-wrong-field", T,
   "        condition_data['parsed'] = parse_predicate_formula(new_condition_formula)",
   "        condition_data['parse'] = parse_predicate_formula(new_condition_formula)", "C17-R2"),
  ("dropdown-rewrite-unconditional", D, "    if new_dc_formula != dc_formula:", "    if new_dc_formula:",
   "C17-R2"),
  ("acl-updates-wrong-table", A,
   "\n  useractions.doBulkUpdateFromPairs('_grist_ACLRules', rule_updates)\n",
   "\n  useractions.doBulkUpdateFromPairs('_grist_ACLResources', rule_updates)\n", "C17-R2"),
  ("acl-newRec-misspelt", A, "parent == ['Name', 'newRec']", "parent == ['Name', 'newrec']",
   "C17-R3"),
  ("trigger-oldRec-forgotten", T, "if parent in ([\"Name\", \"rec\"], [\"Name\", \"oldRec\"]):",
   "if parent in ([\"Name\", \"rec\"],):", "C17-R3"),
  ("dropdown-position-of-first-token", D,
   "NamedEntity(\"choiceAttr\", node.last_token.startpos, node.attr, None)",
   "NamedEntity(\"choiceAttr\", node.first_token.startpos, node.attr, None)", "C17-R3"),
  ("acl-collector-returns-bare-attr", A, "    return [\"Attr\", parent, node.attr]",
   "    return [\"Attr\", node.attr]", "C17-R3"),
  ("acl-renamer-type-misspelt", A, "elif subject.type == 'userAttrCol':",
   "elif subject.type == 'userAttrcol':", "C17-R3"),
  ("acl-userattr-extra-is-root", A, "node.last_token.startpos, node.attr, parent[2]))",
   "node.last_token.startpos, node.attr, parent[1]))", "C17-R3"),
  ("unparsable-returns-dollarfree-text", P,
   "    # Don't do anything to a syntactically wrong formula.\n    return formula",
   "    # Don't do anything to a syntactically wrong formula.\n    return formula_nodollar",
   "C17-R4"),
  ("patch-length-of-new-name", P, "subject.start_pos + len(subject.name), new_name)",
   "subject.start_pos + len(new_name), new_name)", "C17-R4"),
  ("patches-applied-to-dollarfree-text", P,
   "return textbuilder.Replacer(textbuilder.Text(formula), patches).get_text()",
   "return textbuilder.Replacer(textbuilder.Text(formula_nodollar), patches).get_text()",
   "C17-R4"),
  ("collector-outside-try", P,
   "    atok = asttokens.ASTTokens(formula_nodollar, tree=ast.parse(formula_nodollar, mode='eval'))\n"
   "    collector.visit(atok.tree)\n  except SyntaxError:\n"
   "    # Don't do anything to a syntactically wrong formula.\n    return formula\n",
   "    atok = asttokens.ASTTokens(formula_nodollar, tree=ast.parse(formula_nodollar, mode='eval'))\n"
   "  except SyntaxError:\n"
   "    # Don't do anything to a syntactically wrong formula.\n    return formula\n"
   "  collector.visit(atok.tree)\n", "C17-R4"),
  ("trigger-renames-not-called", U, "      perform_trigger_condition_renames(self, renames)\n", "",
   "C17-R1"),
  ("dropdown-renames-get-other-map", U,
   "      dropdown_condition.perform_dropdown_condition_renames(self, renames)",
   "      dropdown_condition.perform_dropdown_condition_renames(self, formula_updates)", "C17-R1"),
  ("acl-table-callback-dropped", U, "    make_acl_updates()\n", "", "C17-R1"),
  ("acl-resource-lookup-by-column-only", A, "col_renames_dict.get((t, c)) or c)",
   "col_renames_dict.get(c) or c)", "C17-R1"),
]
