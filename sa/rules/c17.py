"""C17 Renames inside access rules and conditions are exact -- structural clauses.

Deviation from DESIGN.md 4/C17: a fifth rule (R5) decides the two-pass order inside
acl.perform_acl_rule_renames -- the map from user-attribute names to their lookup tables must be
complete before the first formula is renamed with it (an independently seeded bug merged the two
passes). R2 also follows each rewritten text to the bulk update that stores it."""
import ast
from ..fn import World
from ..index import AnalysisError, dotted
from ..astutil import text, short, endswith, calls_in, walk_no_nested, names_loaded
from ..dataflow import DefUse
from .. import events as E
from . import _h_D as H

EXPLANATION = (
  "Decides (R1) that every function rewriting predicate formulas (found by role: it calls "
  "predicate_formula.process_renames) is called by the function that emits RenameColumn, with "
  "the very rename map given to the formula renamer and under the same guard, that table renames "
  "reach prepare_acl_table_renames with the table map and its callback is always invoked, and "
  "that every lookup in a rename map uses the (table, column) key shape the map is built with; "
  "(R2) that wherever a formula text is replaced its parsed form is regenerated from the *new* "
  "text in the paired field, the replacement happens only when the text changed, and the changed "
  "container reaches the bulk update of the table owning the field on every path; (R3) that each "
  "entity collector recognises its documented record variables, records the start of the "
  "attribute-name token, returns the same tree as the base converter, and that the entity types a "
  "renamer tests are types its collector emits; (R4) that process_renames patches "
  "[start, start+len(name)) of the dollar-free text, maps patches back through the same dollar "
  "replacer onto the original text, and returns its input unchanged when it does not parse; (R5) "
  "that the user-attribute table map is complete before it is first used; (R6) that each "
  "record's new text is the direct result of its own process_renames call (no memo shared "
  "across records); (R7) that every process_renames call gets a collector built for that one "
  "formula (a collector keeps the entities of everything it visited). Roles are found by data flow, not by name: a local stands for the value "
  "it holds where it is read, guards are read from the CFG (either polarity, early "
  "continue/return, flags), arguments are bound by parameter name, private helpers called "
  "from the analysed functions are followed. Not decided: that the "
  "re-parsed tree equals the old tree up to the renamed names (value level); rules stored for "
  "tables that are renamed at the same time.")

# Record variables each collector must recognise (from the property statement, one reason each).
COLLECTOR_VARS = {
  "acl._ACLEntityCollector": ({"rec", "newRec", "user"},
                              "ACL formulas: rec.X, newRec.X, user.Attr[.X]"),
  "dropdown_condition._DCEntityCollector": ({"choice", "rec"},
                                            "dropdown conditions: choice.X (referenced table), rec.X"),
  "trigger_expression._TriggerEntityCollector": ({"rec", "oldRec"},
                                                 "trigger conditions: rec.X, oldRec.X"),
}
# text field -> field holding its parsed form (the paired fields of the statement)
PAIRED = {
  "aclFormula": "aclFormulaParsed",
  "text": "parsed",
  "customExpression": "customExpressionParsed",
}
PARSERS = ("parse_predicate_formula", "parse_predicate_formula_json")


def check(run, repo, tier):
  w = World(repo)
  rewriters = _rewriters(w)
  if rewriters is None:
    return          # the rewriters could not be identified (reported as an analysis error)
  r1_wiring(run, w, rewriters)
  r2_paired_fields(run, w, rewriters)
  r3_collectors(run, w, rewriters)
  r4_process_renames(run, w)
  r5_two_passes(run, w, rewriters)
  r6_per_record(run, w, rewriters)
  r7_fresh_collector(run, w, rewriters)


KEEP = ("_prepare_formula_renames", "_do_doc_action", "_do_extra_doc_action", "_bulk_action_iter",
        "_adjust_one_column_update", "_pick_col_name")


def _views(fn, _cache={}):
  k = id(fn)
  if k not in _cache:
    _cache[k] = (H.View(fn), fn)
  return _cache[k][0]


def r6_per_record(run, w, rewriters):
  """The rename of one record's formula depends on that record (its resource table, its own
  user attributes), not only on the formula text: every record's new text must come from its own
  process_renames call -- never from a memo shared across records."""
  R6 = run.rule("C17-R6", "each record's new formula text is the direct result of a "
                "process_renames call made for that record", floor=3)
  run0 = run
  for fn, sites in rewriters:
    v = _views(fn)
    run = H.Guarded(run0, v, keep=KEEP)
    for (n, c) in sites:
      loops = [l for l in v.enclosing_loops(n.stmt) if isinstance(l, ast.For)]
      if not loops:
        raise AnalysisError("%s: process_renames is not called inside a per-record loop"
                            % fn.qualname)
      loop = loops[-1]        # innermost
      head = v.loop_head(loop)
      st = n.stmt
      var = st.targets[0].id if isinstance(st, ast.Assign) and st.value is c and \
          len(st.targets) == 1 and isinstance(st.targets[0], ast.Name) else None
      ok = var is not None
      wit = None if ok else "the result of process_renames is not bound to a local of its own"
      if ok:
        # every binding of the variable that is read somewhere is such a direct call
        sites_ = [d for d, names in v._gens().items() if var in names]
        direct = all(isinstance(v._plain_value(var, d), ast.Call) and
                     endswith(fn.name(v._plain_value(var, d)) or "", "process_renames")
                     for d in sites_)
        # the call is not skipped for some records because of a memo: it is not evaluated under
        # a condition that reads a container written in the same loop (and living across records)
        in_loop = {x.id for x in fn.cfg.nodes if x.stmt is not None and
                   any(y is x.stmt for b in loop.body for y in ast.walk(b))}
        written = {nm for nm, nodes in v.du.muts.items() if nodes & in_loop}
        rebound = {nm for d, names in v._gens().items() if d in in_loop or d == head
                   for nm in names}
        written -= rebound
        memo = []
        for (a, pol) in v.facts_at(c, start=head):
          try:
            names = {y.id for y in ast.walk(ast.parse(a, mode="eval")) if isinstance(y, ast.Name)}
          except SyntaxError:
            names = set()
          if names & written:
            memo.append(a)
        ok = direct and not memo
        wit = None if ok else ("bindings that are not direct calls" if not direct else
                               "call guarded by a memo: %s" % memo)
        if ok:
          # the renamer belongs to this record: a closure defined in the loop body (a renamer
          # built elsewhere may or may not see the current record -- not decided here)
          pb = H.bind_args(c, ("formula", "collector", "renamer")) or {}
          ra = v.res(pb["renamer"]) if pb.get("renamer") is not None else None
          per_rec = isinstance(ra, ast.Name) and any(
            isinstance(x, ast.FunctionDef) and x.name == ra.id
            for b in loop.body for x in ast.walk(b))
          if not per_rec:
            raise AnalysisError("%s: the renamer handed to process_renames is not a closure "
                                "defined for the current record; cannot tell whether it sees "
                                "that record's table" % fn.qualname)
      run.ob(R6, fn.qualname, short(st, 90), "the new text of a record comes from its own "
             "process_renames call", ok, witness=wit, fi=fn.fi, node=st)


def r7_fresh_collector(run, w, rewriters):
  """A collector accumulates the entities of every formula it visits (its list is never reset):
  each process_renames call needs a collector of its own, built for that formula."""
  R7 = run.rule("C17-R7", "every process_renames call gets a collector that is fresh for that "
                "formula (no collector object reaches two calls)", floor=4)
  for fn, sites in rewriters:
    v = _views(fn)
    cfg = fn.cfg
    origin = {}      # call site node id -> node where its collector is constructed, or "inline"
    for (n, c) in sites:
      pb = H.bind_args(c, ("formula", "collector", "renamer")) or {}
      a = pb.get("collector")
      if a is None:
        raise AnalysisError("%s: process_renames without a collector: %s" % (fn.qualname, short(c)))
      if isinstance(a, ast.Call) and not a.args and not a.keywords:
        origin[n.id] = ("inline", a)
        continue
      r = v.alias_root(a)
      d = None
      if isinstance(r, ast.Name):
        defs = v.reaching(r.id, v.point_of(a))
        if len(defs) == 1:
          d = next(iter(defs))
          val = v._plain_value(r.id, d) if d != v.ENTRY else None
          if not (isinstance(val, ast.Call) and not val.args and not val.keywords and
                  w.repo.resolve_class_name(fn.fi.module, dotted(val.func)) is not None):
            d = None
      if d is None:
        raise AnalysisError("%s: cannot tell where the collector %s is built"
                            % (fn.qualname, short(a)))
      origin[n.id] = ("local", d)
    for (n, c) in sites:
      kind, d = origin[n.id]
      ok, wit = True, None
      if kind == "local":
        shared = [m for (m, c2) in sites if m.id != n.id and origin[m.id] == ("local", d)]
        again = n.id in cfg.reach_after({n.id}, removed={d})
        if shared:
          ok = False
          wit = "the collector built at line %d also serves the call at line %d" % (
            cfg.nodes[d].lineno, shared[0].lineno)
        elif again:
          ok = False
          wit = "the collector built at line %d serves this call again in a later iteration" \
              % cfg.nodes[d].lineno
      run.ob(R7, fn.qualname, short(c, 80), "the entities collected for this formula are the "
             "only ones patched into it (a reused collector still holds the previous formula's "
             "entities and their offsets)", ok, witness=wit, fi=fn.fi, node=c)


def _is_pr(nm):
  return endswith(nm, "predicate_formula.process_renames", "process_renames")


def _rewriters(w):
  """Functions that rewrite predicate formulas: they call predicate_formula.process_renames,
  themselves or through private helpers of their module (which are followed: the helper's body
  is analysed in place, at the call). [(Fn, [(cfg node, call)])]"""
  direct = []
  for fi in w.repo.all_functions():
    if fi.module.name == "predicate_formula":
      continue
    if any(_is_pr(nm) for (n, c, nm) in w.fn_of(fi).calls()):
      direct.append(fi)
  mods = {fi.module.name for fi in direct}
  out, absorbed = [], set()
  for fi in w.repo.all_functions():
    if fi.module.name not in mods or fi.module.name == "predicate_formula":
      continue
    fn = H.xfn(w, fi.qualname, keep=KEEP) if fi.parent is None else w.fn_of(fi)
    sites = [(n, c) for (n, c, nm) in fn.calls() if _is_pr(nm)]
    if sites:
      out.append((fn, sites))
      absorbed |= set(getattr(fn.fi, "inlined", ()))
  # a helper that was followed into its caller is not a rewriter of its own
  out = [(fn, sites) for (fn, sites) in out if fn.fi.qualname not in absorbed]
  if len(out) < 3:
    raise AnalysisError("fewer than 3 functions call process_renames (ACL, dropdown, trigger)")
  return sorted(out, key=lambda x: x[0].qualname)


def _resolves_to(fn, call, target_fi):
  """Does the call (in fn's module) name the module-level function target_fi?"""
  d = dotted(call.func)
  if d is None:
    return False
  parts = d.split(".")
  mod = fn.fi.module
  if parts[-1] != target_fi.name:
    return False
  if len(parts) == 1:
    imp = mod.imports.get(parts[0])
    return (imp == ("name", target_fi.module.name, target_fi.name)) or \
        (mod is target_fi.module and parts[0] in mod.functions)
  if len(parts) == 2:
    return mod.imports.get(parts[0]) == ("module", target_fi.module.name)
  return False


# ------------------------------------------------------------------------------------------ R1

def r1_wiring(run, w, rewriters):
  R1 = run.rule("C17-R1", "every predicate-formula rewriter is driven by the rename paths with "
                "the same rename map, and looks names up with the map's key shape", floor=14)
  col_site = tab_site = None
  seen = set()
  for (fn0, call) in H.rename_constructions(w, ("RenameColumn", "RenameTable")):
    if fn0.fi.module.name != "useractions" or fn0.qualname in seen:
      continue
    seen.add(fn0.qualname)
    fn = H.xfn(w, fn0.qualname, keep=KEEP)
    site = H.RenameSite(fn, ("RenameColumn", "RenameTable"))
    kinds = {e[3] for e in site.emits}
    if "RenameColumn" in kinds:
      col_site = site
    if "RenameTable" in kinds:
      tab_site = site
  if col_site is None or tab_site is None:
    raise AnalysisError("the functions emitting RenameColumn / RenameTable were not found")
  # ---- column renames
  run0 = run
  fn = col_site.fn
  v = col_site.view
  run = H.Guarded(run0, v, keep=KEEP)
  cfg = fn.cfg
  if len(col_site.preps) != 1:
    raise AnalysisError("%s: one _prepare_formula_renames call expected" % fn.qualname)
  prep_node, prep_call = col_site.preps[0]
  marg = col_site.prep_arg(prep_call)
  mroot = v.alias_root(marg)
  if not isinstance(mroot, ast.Name):
    raise AnalysisError("%s: the column rename map is not a local name" % fn.qualname)
  mname = mroot.id
  prep_guard = v.cfg_facts(prep_node)
  uses = {prep_node}
  for (rfn, sites) in rewriters:
    top = w.repo.func(rfn.fi.qualname)
    while top.parent is not None:
      top = top.parent
    calls = [(n, c) for (n, c, nm) in fn.calls() if _resolves_to(fn, c, top)]
    ok = len(calls) == 1
    if ok:
      n, c = calls[0]
      b = H.bind_args(c, top.params())
      ok = b is not None and len(b) == 2 and text(b[top.params()[0]]) == "self" and \
          isinstance(v.alias_root(b[top.params()[1]]), ast.Name) and \
          v.alias_root(b[top.params()[1]]).id == mname and v.cfg_facts(n.id) == prep_guard
      uses.add(n.id)
    run.ob(R1, fn.qualname, "%s(self, %s)" % (top.qualname, mname),
           "the function that emits RenameColumn calls this rewriter with the rename map given "
           "to the formula renamer, under the same guard (%s)"
           % (sorted(a for a, _ in prep_guard),), ok, fi=fn.fi)
  writers = {d for d, names in v._gens().items() if mname in names} | \
      v.du.muts.get(mname, set())
  run.ob(R1, fn.qualname, "%s is complete before, and not written after, its first use" % mname,
         "all rewriters see the same renames",
         bool(writers) and not (cfg.reach_after(uses) & writers) and
         all(cfg.dominated_by(u, writers) for u in uses), fi=fn.fi)
  # ---- table renames
  fn = tab_site.fn
  v = tab_site.view
  run = H.Guarded(run0, v, keep=KEEP)
  anchor = w.repo.func("acl.prepare_acl_table_renames")
  if len(tab_site.preps) != 1:
    raise AnalysisError("%s: one _prepare_formula_renames call expected" % fn.qualname)
  tname, coll, rekey = tab_site.resolve_map(tab_site.prep_arg(tab_site.preps[0][1]))
  if tname is None:
    raise AnalysisError("%s: the table rename map is not a local name" % fn.qualname)
  calls = [(n, c) for (n, c, nm) in fn.calls() if _resolves_to(fn, c, anchor)]
  ok = len(calls) == 1
  if ok:
    b = H.bind_args(calls[0][1], anchor.params())
    a1 = v.alias_root(b[anchor.params()[1]]) if b and len(b) == 2 else None
    ok = isinstance(a1, ast.Name) and a1.id == tname
  run.ob(R1, fn.qualname, "acl.prepare_acl_table_renames(self, %s)" % tname,
         "ACL resources and user attributes are prepared with the table rename map "
         "{old table id: new table id}", ok, fi=fn.fi)
  if ok:
    n, c = calls[0]
    inv = {m.id for (m, c2, nm) in fn.calls() if not c2.args and not c2.keywords and
           v.denotes(c2.func, lambda e: e is c)}
    run.ob(R1, fn.qualname, "<prepared ACL updates>()", "the prepared ACL updates are applied on "
           "every normal path after they were prepared", bool(inv) and
           fn.cfg.postdominated_by(n.id, inv), fi=fn.fi)
    # the callback writes both ACL tables from the lists filled before
    inner = w.repo.funcs.get(anchor.qualname + "." + _returned_closure(w, anchor))
    if inner is None:
      raise AnalysisError("acl.prepare_acl_table_renames: returned closure not found")
    ifn = w.fn_of(inner)
    iv = H.View(ifn)
    run = H.Guarded(run0, iv, keep=KEEP)
    tabs = []
    for (m, c2, nm) in ifn.calls():
      if endswith(nm, "doBulkUpdateFromPairs"):
        b2 = H.bind_args(c2, ("table_id", "record_values_pairs")) or {}
        t = iv.res(b2.get("table_id")) if b2.get("table_id") is not None else None
        if isinstance(t, ast.Constant):
          tabs.append(t.value)
    run.ob(R1, inner.qualname, "doBulkUpdateFromPairs(%s)" % ", ".join(sorted(tabs)),
           "the callback stores the updates of resources and of rules",
           sorted(tabs) == ["_grist_ACLResources", "_grist_ACLRules"], fi=inner)
  # ---- key shape of every lookup in a rename map
  run = run0
  for (rfn, sites) in rewriters:
    top = w.repo.func(rfn.fi.qualname)
    while top.parent is not None:
      top = top.parent
    _key_shapes(run, R1, w, top)
  _key_shapes(run, R1, w, anchor, table_map=True)


def _returned_closure(w, fi):
  v = H.View(w.fn_of(fi))
  rets = [s for s in walk_no_nested(fi.node) if isinstance(s, ast.Return)]
  if len(rets) == 1:
    e = v.res(rets[0].value)
    if isinstance(e, ast.Name):
      return e.id
  raise AnalysisError("%s does not return a single closure" % fi.qualname)


def _key_shapes(run, R1, w, top, table_map=False):
  """Lookups in the rename-map parameter (2nd parameter), in the function and its closures."""
  ps = top.params()
  if len(ps) < 2:
    raise AnalysisError("%s: (useractions, renames) signature expected" % top.qualname)
  mp = ps[1]
  keys = []
  fis = [f for f in w.repo.all_functions() if f is top or _is_inside(f, top)]
  for f in fis:
    if f is not top and mp in f.params():
      continue
    # the function itself is read with its private helpers followed (the map may reach them
    # under another parameter name)
    ffn = H.xfn(w, f.qualname, keep=KEEP) if f is top else w.fn_of(f)
    fv = H.View(ffn)

    def is_map(e):
      if text(e) == mp:
        return True
      if isinstance(e, ast.Name) and fv.point_of(e) is not None:
        r = fv.alias_root(e)
        return isinstance(r, ast.Name) and r.id == mp and \
            fv.reaching(mp, fv.point_of(e)) <= frozenset([fv.ENTRY])
      return False

    for n in walk_no_nested(ffn.node):
      if isinstance(n, ast.Call) and isinstance(n.func, ast.Attribute) and \
          n.func.attr == "get" and is_map(n.func.value) and n.args:
        keys.append((fv, n.args[0]))
      elif isinstance(n, ast.Subscript) and is_map(n.value):
        keys.append((fv, n.slice))
      elif isinstance(n, ast.Compare) and len(n.ops) == 1 and \
          isinstance(n.ops[0], (ast.In, ast.NotIn)) and is_map(n.comparators[0]):
        keys.append((fv, n.left))
  seen = set()
  for (fv, k0) in keys:
    k = fv.res(k0)
    t = text(k)
    if t in seen:
      continue
    seen.add(t)
    if table_map:
      ok = not isinstance(k, ast.Tuple)
      what = "table rename maps are keyed by the old table id"
    else:
      ok = isinstance(k, ast.Tuple) and len(k.elts) == 2
      what = "column rename maps are keyed by (table id, column id)"
    run.ob(R1, top.qualname, "%s[%s]" % (mp, short(k, 70)), what, ok, fi=top, node=k0)
  if not keys:
    raise AnalysisError("%s: the rename map %s is never looked up" % (top.qualname, mp))


def _is_inside(f, top):
  p = f.parent
  while p is not None:
    if p is top:
      return True
    p = p.parent
  return False


# ------------------------------------------------------------------------------------------ R2

def _root_name(expr):
  e = expr
  while isinstance(e, (ast.Subscript, ast.Attribute)):
    e = e.value
  if isinstance(e, ast.Call) and isinstance(e.func, ast.Attribute) and e.func.attr == "get":
    return _root_name(e.func.value)
  return e.id if isinstance(e, ast.Name) else None


def _is_parser_of(v, e, call):
  """e is parse_predicate_formula[_json](<the new text>)"""
  e = v.res(e)
  return isinstance(e, ast.Call) and dotted(e.func) is not None and \
      dotted(e.func).split(".")[-1] in PARSERS and len(e.args) + len(e.keywords) == 1 and \
      v.arg(e, 0) is not None and v.denotes(v.arg(e, 0), lambda x: x is call)


def _field_of(v, src):
  """(field, canonical container text) of an expression reading one constant field"""
  if isinstance(src, ast.Subscript) and isinstance(src.slice, ast.Constant):
    return src.slice.value, text(src.value)
  if isinstance(src, ast.Attribute):
    return src.attr, text(src.value)
  if isinstance(src, ast.Call) and isinstance(src.func, ast.Attribute) and \
      src.func.attr == "get" and src.args and isinstance(src.args[0], ast.Constant):
    return src.args[0].value, text(src.func.value)
  return None, None


def r2_paired_fields(run, w, rewriters):
  R2 = run.rule("C17-R2", "a replaced formula text has its parsed form regenerated from the new "
                "text in the paired field, only when it changed, and reaches the bulk update",
                floor=16)
  schema = H.python_schema(w)
  nsites = 0
  run0 = run
  for (fn, sites) in rewriters:
    q = fn.qualname
    cfg = fn.cfg
    v = _views(fn)
    run = H.Guarded(run0, v, keep=KEEP)
    for (node, call) in sites:
      nsites += 1
      pb = H.bind_args(call, ("formula", "collector", "renamer"))
      if pb is None or len(pb) != 3:
        raise AnalysisError("%s: process_renames(formula, collector, renamer) expected" % q)
      oldexpr = pb["formula"]
      is_new = lambda e: v.denotes(e, lambda x: x is call)
      loops = [l for l in v.enclosing_loops(node.stmt) if isinstance(l, ast.For)]
      if not loops or not isinstance(loops[-1].target, ast.Name):
        raise AnalysisError("%s: formula texts are not rewritten inside a loop over records" % q)
      loop = loops[-1]
      head = v.loop_head(loop)
      # ---- where the new text is stored
      stores = []    # (cfg node, field const, canonical container or None, kind, ast node)
      for n in cfg.nodes:
        s = n.stmt
        if n.kind == "stmt" and isinstance(s, ast.Assign) and is_new(s.value):
          for t in s.targets:
            if isinstance(t, ast.Subscript) and isinstance(t.slice, ast.Constant):
              stores.append((n, t.slice.value, v.t(t.value), "subscript", s))
        for e in n.exprs:
          for d in walk_no_nested(e):
            if isinstance(d, ast.Dict):
              for k, val in zip(d.keys, d.values):
                if isinstance(k, ast.Constant) and is_new(val):
                  stores.append((n, k.value, None, "dict", d))
      if len(stores) != 1:
        raise AnalysisError("%s: the text produced by process_renames(%s, ...) is stored %d "
                            "times (once expected)" % (q, short(oldexpr), len(stores)))
      sn, field, cont, kind, sst = stores[0]
      pfield = PAIRED.get(field)
      if pfield is None:
        raise AnalysisError("%s: text field %r has no known parsed counterpart" % (q, field))
      # ---- the paired parsed field, from the new text, stored together with it
      ok, pn = False, None
      if kind == "dict":
        for k, val in zip(sst.keys, sst.values):
          if isinstance(k, ast.Constant) and k.value == pfield and _is_parser_of(v, val, call):
            ok, pn = True, sn
      else:
        for n in cfg.nodes:
          b = n.stmt
          if n.kind == "stmt" and isinstance(b, ast.Assign) and len(b.targets) == 1 and \
              isinstance(b.targets[0], ast.Subscript) and \
              isinstance(b.targets[0].slice, ast.Constant) and \
              b.targets[0].slice.value == pfield and v.t(b.targets[0].value) == cont and \
              _is_parser_of(v, b.value, call):
            # together: whichever comes first, the other follows before the next record
            both = cfg.path(sn.id, {head, cfg.exit.id}, removed={n.id}, after=True) is None or \
                cfg.path(n.id, {head, cfg.exit.id}, removed={sn.id}, after=True) is None
            if both:
              ok, pn = True, n
      run.ob(R2, q, "%s[%r] = parse(<new text>) next to [%r] = <new text>"
             % (cont or "<update>", pfield, field),
             "the parsed form stored beside the new text is parsed from the new text", ok,
             fi=fn.fi, node=sst)
      # ---- only when changed
      cmp_ = ast.Compare(left=node.stmt.targets[0] if isinstance(node.stmt, ast.Assign)
                         else call, ops=[ast.Eq()], comparators=[oldexpr])
      new_t = v.t(call)
      old_t = v.t(oldexpr)
      a, b_ = sorted([new_t, old_t])
      changed = ("%s == %s" % (a, b_), False)
      facts = v.facts_at(sst, start=head)
      run.ob(R2, q, "if <new text> != %s" % short(oldexpr, 40),
             "records whose text did not change are left alone (and an unparsable text, which "
             "process_renames returns unchanged, is never re-parsed)",
             changed in facts, fi=fn.fi, node=sst)
      # ---- the old text is what the record holds in that field
      _old_text_source(run, R2, fn, v, oldexpr, field, cont, sst)
      # ---- the change reaches the bulk update on every path
      _reaches_update(run, R2, w, fn, v, sn, sst, kind, cont, schema, loop, head, call)
  if nsites < 4:
    raise AnalysisError("fewer than 4 process_renames call sites found")


def _old_text_source(run, R2, fn, v, oldexpr, field, cont, sst):
  """The text handed to process_renames is read from the same field the new text is stored in."""
  q = fn.qualname
  src = v.x(oldexpr)
  f, base = _field_of(v, src)
  if f is None:
    raise AnalysisError("%s: cannot tell which field the old formula text %s is read from"
                        % (q, short(src)))
  ok = f == field and (cont is None or base == cont)
  run.ob(R2, q, "old text = %s" % short(src), "the text that is renamed is read from the field "
         "(%r) the result is written back to" % field, ok, fi=fn.fi, node=sst)


def _reaches_update(run, R2, w, fn, v, sn, sst, kind, cont, schema, loop, head, call):
  q = fn.qualname
  cfg = fn.cfg
  # lists handed to doBulkUpdateFromPairs(<table>, <list>) that every normal path passes
  bulk = {}
  for (n, c, nm) in fn.calls():
    if endswith(nm, "doBulkUpdateFromPairs"):
      b = H.bind_args(c, ("table_id", "record_values_pairs"))
      if not b or len(b) != 2:
        continue
      t = v.res(b["table_id"])
      lst = v.alias_root(b["record_values_pairs"])
      if isinstance(t, ast.Constant) and isinstance(lst, ast.Name) and \
          cfg.dominated_by(cfg.exit.id, {n.id}):
        bulk[lst.id] = (t.value, n.id)
  rec = loop.target.id
  tm = v.loop_map(loop)
  if kind == "dict":
    carried = lambda d: any(y is sst for y in ast.walk(v.res(d))) or v.res(d) is sst
  else:
    root = _root_name(ast.parse(cont, mode="eval").body)
    carried = lambda d: root is not None and root in names_loaded(v.x(d))
  appends = {}
  for (n, c, nm) in fn.calls():
    f = c.func
    if isinstance(f, ast.Attribute) and f.attr == "append" and len(c.args) == 1 and \
        isinstance(v.alias_root(f.value), ast.Name) and v.alias_root(f.value).id in bulk:
      a = v.res(c.args[0])
      if isinstance(a, ast.Tuple) and len(a.elts) == 2 and v.t(a.elts[0], tm) == "_v0" and \
          carried(a.elts[1]):
        appends[n.id] = (v.alias_root(f.value).id, a.elts[1])
  # from the moment the new text is stored
  esc = None if sn.id in appends else \
      _escape_path(cfg, sn.id, set(appends), {head, cfg.exit.id})
  run.ob(R2, q, "%s -> <updates>.append((%s, ...)) -> doBulkUpdateFromPairs" % (short(sst), rec),
         "once the text is replaced, the record's update is queued before the next record is "
         "looked at, on every path (flags set on the way are taken into account)",
         bool(appends) and esc is None, witness=cfg.describe_path(esc) if esc else None,
         fi=fn.fi, node=sst)
  # the fields stored belong to the table the bulk update names
  for nid, (lst, d) in sorted(appends.items()):
    table = bulk[lst][0]
    dd = v.res(d)
    if not (isinstance(dd, ast.Dict) and all(isinstance(k, ast.Constant) for k in dd.keys)):
      raise AnalysisError("%s: update appended to %s is not a dict literal" % (q, lst))
    cols = {cid for (cid, _, _) in (schema.get(table) or [])}
    keys = [k.value for k in dd.keys]
    run.ob(R2, q, "doBulkUpdateFromPairs(%r, %s) stores %s" % (table, lst, keys),
           "the queued fields are columns of the metadata table that is updated",
           bool(cols) and set(keys) <= cols, fi=fn.fi, node=d)


def _escape_path(cfg, start, targets, stops):
  """A path from just after `start` to one of `stops` that avoids `targets`, boolean flags set
  on the way taken into account (see H.flag_path). None when every path passes a target."""
  return H.flag_path(cfg, start, targets, stops, after=True)


# ------------------------------------------------------------------------------------------ R3

def _collector_class(w, fn, call):
  """ClassInfo of the collector instantiated as 2nd argument of process_renames."""
  a = call.args[1]
  if not (isinstance(a, ast.Call) and not a.args):
    raise AnalysisError("%s: collector argument is not a fresh instance: %s"
                        % (fn.qualname, short(a)))
  ci = w.repo.resolve_class_name(fn.fi.module, dotted(a.func))
  if ci is None:
    raise AnalysisError("%s: collector class %s not resolved" % (fn.qualname, short(a)))
  return ci


def _recognised_vars(test, parent):
  """Names v such that the test compares `parent` with ['Name', v] (==, in (...))."""
  out = set()
  def name_list(e):
    if isinstance(e, ast.List) and len(e.elts) == 2 and \
        all(isinstance(x, ast.Constant) for x in e.elts) and e.elts[0].value == "Name":
      return e.elts[1].value
    return None
  for n in ast.walk(test):
    if isinstance(n, ast.Compare) and len(n.ops) == 1:
      l, r = n.left, n.comparators[0]
      if isinstance(n.ops[0], ast.Eq):
        for a, b in ((l, r), (r, l)):
          if text(a) == parent and name_list(b) is not None:
            out.add(name_list(b))
          # parent[1] == ['Name', 'user']  (one level up the chain)
          if text(a) == parent + "[1]" and name_list(b) is not None:
            out.add(name_list(b))
      elif isinstance(n.ops[0], ast.In) and text(l) == parent and \
          isinstance(r, (ast.Tuple, ast.List, ast.Set)):
        for e in r.elts:
          if name_list(e) is not None:
            out.add(name_list(e))
  return out


def r3_collectors(run, w, rewriters):
  R3 = run.rule("C17-R3", "entity collectors recognise their record variables, record the start "
                "of the attribute-name token, mirror the base converter; renamers test only "
                "entity types their collector emits", floor=18)
  base = w.repo.func("predicate_formula.TreeConverter.visit_Attribute")
  bv = H.View(w.fn_of(base))
  brets = [s for s in walk_no_nested(base.node) if isinstance(s, ast.Return)]
  if len(brets) != 1:
    raise AnalysisError("TreeConverter.visit_Attribute: one return expected")
  bnode = base.params()[1]
  base_ret = bv.t(brets[0].value, {bnode: "_n"})
  ne_fields = None
  node = w.repo.module("predicate_formula").assigns.get("NamedEntity")
  if isinstance(node, ast.Call) and len(node.args) == 2 and isinstance(node.args[1], ast.Tuple):
    ne_fields = [e.value for e in node.args[1].elts]
  if ne_fields != ["type", "start_pos", "name", "extra"]:
    raise AnalysisError("predicate_formula.NamedEntity fields changed: %s" % (ne_fields,))
  done = {}
  for (fn, sites) in rewriters:
    v = _views(fn)
    for (n, call) in sites:
      pb = H.bind_args(call, ("formula", "collector", "renamer")) or {}
      ci = _collector_class(w, fn, v, pb.get("collector"))
      if ci.qualname not in done:
        done[ci.qualname] = _collector(run, R3, w, ci, base_ret, bnode, ne_fields)
      types = done[ci.qualname]
      # the renamer handed to process_renames
      ra = v.res(pb.get("renamer")) if pb.get("renamer") is not None else None
      rfi = w.repo.funcs.get(fn.qualname + "." + ra.id) if isinstance(ra, ast.Name) else None
      if rfi is None:
        raise AnalysisError("%s: renamer %s is not a local closure" % (fn.qualname, short(ra)))
      rv = H.View(w.fn_of(rfi))
      subj = rfi.params()[0]
      tested = set()
      for x in walk_no_nested(rfi.node):
        if isinstance(x, ast.Compare) and len(x.ops) == 1 and \
            isinstance(x.ops[0], (ast.Eq, ast.NotEq)):
          for a, b in ((x.left, x.comparators[0]), (x.comparators[0], x.left)):
            if rv.t(a) == subj + ".type" and isinstance(rv.res(b), ast.Constant):
              tested.add(rv.res(b).value)
        elif isinstance(x, ast.Compare) and len(x.ops) == 1 and \
            isinstance(x.ops[0], (ast.In, ast.NotIn)) and rv.t(x.left) == subj + ".type" and \
            isinstance(x.comparators[0], (ast.Tuple, ast.List, ast.Set)):
          tested |= {e.value for e in x.comparators[0].elts if isinstance(e, ast.Constant)}
      run.ob(R3, rfi.qualname, "%s.type in %s" % (subj, sorted(tested)),
             "every entity type the renamer distinguishes is a type %s emits (%s)"
             % (ci.name, sorted(types)), tested <= types, fi=rfi)
      # the new name is looked up under the entity's own name
      rets = []
      for s2 in walk_no_nested(rfi.node):
        if isinstance(s2, ast.Return) and s2.value is not None:
          e, at = rv.resolve(s2.value)
          if not (isinstance(e, ast.Constant) and e.value is None):
            rets.append((e, at))
      ok = bool(rets)
      for (r, at) in rets:
        key = r.args[0] if isinstance(r, ast.Call) and isinstance(r.func, ast.Attribute) and \
            r.func.attr == "get" and len(r.args) == 1 else \
            (r.slice if isinstance(r, ast.Subscript) else None)
        key = rv.res(key, at=at) if key is not None else None
        last = key.elts[1] if isinstance(key, ast.Tuple) and len(key.elts) == 2 else None
        ok = ok and last is not None and rv.t(last, at=at) == subj + ".name"
      run.ob(R3, rfi.qualname, "return <renames>.get((<table>, %s.name))" % subj,
             "the replacement is the rename recorded for the collected name itself", ok, fi=rfi)
  missing = set(COLLECTOR_VARS) - set(done)
  if missing:
    raise AnalysisError("collector classes not reached from any rewriter: %s" % sorted(missing))


def _collector_class(w, fn, v, a):
  """ClassInfo of the collector instantiated as 2nd argument of process_renames."""
  a = v.res(a) if a is not None else None
  if not (isinstance(a, ast.Call) and not a.args and not a.keywords):
    raise AnalysisError("%s: collector argument is not a fresh instance: %s"
                        % (fn.qualname, short(a)))
  ci = w.repo.resolve_class_name(fn.fi.module, dotted(a.func))
  if ci is None:
    raise AnalysisError("%s: collector class %s not resolved" % (fn.qualname, short(a)))
  return ci


def _collector(run, R3, w, ci, base_ret, bnode, ne_fields):
  fi = ci.methods.get("visit_Attribute")
  if fi is None:
    raise AnalysisError("%s defines no visit_Attribute" % ci.qualname)
  fn = w.fn_of(fi)
  v = H.View(fn)
  q = fi.qualname
  nd = fi.params()[1]
  if not any(c.qualname == "predicate_formula.TreeConverter" for c in w.repo.mro(ci)):
    raise AnalysisError("%s does not derive from TreeConverter" % ci.qualname)
  # the receiver is converted exactly once, before anything is decided
  conv = [(n, c) for (n, c, nm) in fn.calls() if text(c) == "self.visit(%s.value)" % nd]
  ok = len(conv) == 1 and isinstance(conv[0][0].stmt, ast.Assign) and \
      conv[0][0].stmt.value is conv[0][1] and isinstance(conv[0][0].stmt.targets[0], ast.Name) and \
      fn.cfg.dominated_by(fn.cfg.exit.id, {conv[0][0].id})
  parent = conv[0][0].stmt.targets[0].id if ok else None
  run.ob(R3, q, "parent = self.visit(%s.value)" % nd, "the receiver is converted first (so "
         "nested attributes are collected too)", ok, fi=fi)
  if not ok:
    return set()
  pconv = "self.visit(%s.value)" % nd
  rets = [s for s in walk_no_nested(fi.node) if isinstance(s, ast.Return)]
  got = None
  if len(rets) == 1 and rets[0].value is not None:
    e = v.x(rets[0].value)
    e = H._Replace(parent, ast.parse(pconv, mode="eval").body).visit(e)
    got = text(H._Renamer({nd: "_n"}).visit(e))
  run.ob(R3, q, "return ['Attr', %s, %s.attr]" % (parent, nd), "collecting does not change the "
         "converted tree (same result as TreeConverter.visit_Attribute): %s" % base_ret,
         got == base_ret, fi=fi)
  types, seen_vars = set(), set()
  for n in fn.cfg.nodes:
    if n.kind == "if":
      seen_vars |= _recognised_vars(n.stmt.test, parent) | _recognised_vars(v.x(n.stmt.test), pconv)
  appends = [c for c in calls_in(fi.node.body) if isinstance(c.func, ast.Attribute) and
             c.func.attr == "append" and v.t(c.func.value) == "self.entities"]
  if not appends:
    raise AnalysisError("%s records no entities" % q)
  ents = []
  for c in appends:
    a = v.res(c.args[0]) if c.args else None
    b = H.bind_args(a, ne_fields) if isinstance(a, ast.Call) and \
        dotted(a.func) == "NamedEntity" else None
    ok = b is not None and len(b) == 4 and isinstance(v.res(b["type"]), ast.Constant) and \
        v.t(b["start_pos"]) == "%s.last_token.startpos" % nd and v.t(b["name"]) == "%s.attr" % nd
    if ok:
      types.add(v.res(b["type"]).value)
      ents.append((c, b))
    run.ob(R3, q, short(c), "an entity is (type, start of the attribute-name token, attribute "
           "name, extra): the patch later replaces len(name) characters from that start", ok,
           fi=fi, node=c)
  want, why = COLLECTOR_VARS.get(ci.qualname, (None, None))
  if want is None:
    raise AnalysisError("collector %s has no documented variable set" % ci.qualname)
  run.ob(R3, q, "recognised variables %s" % sorted(seen_vars), "the collector recognises "
         "exactly the record variables of its formula language (%s)" % why, seen_vars == want,
         fi=fi)
  # an entity whose table depends on a user attribute carries the attribute name as extra
  for (c, b) in ents:
    if v.res(b["type"]).value == "userAttrCol":
      run.ob(R3, q, "NamedEntity('userAttrCol', ..., extra=%s)" % text(b["extra"]),
             "user.ATTR.COL records ATTR (the attribute part of the converted receiver "
             "['Attr', ['Name','user'], ATTR]) so the renamer can find ATTR's table",
             v.t(b["extra"]) == pconv + "[2]", fi=fi, node=c)
  return types


# ------------------------------------------------------------------------------------------ R4

def r4_process_renames(run, w):
  R4 = run.rule("C17-R4", "process_renames patches the dollar-free text at the collected "
                "positions, maps back through the same replacer, and returns unparsable input "
                "unchanged", floor=7)
  fn = H.xfn(w, "predicate_formula.process_renames", keep=("get_dollar_replacer",))
  v = H.View(fn)
  run = H.Guarded(run, v, keep=("get_dollar_replacer",))
  cfg = fn.cfg
  q = fn.qualname
  formula, collector, renamer = fn.fi.params()[:3]
  rebinds = [d for d, names in v._gens().items() if formula in names]
  run.ob(R4, q, "%s is never rebound" % formula, "the text returned and patched is the caller's "
         "text", not rebinds, fi=fn.fi)
  tries = [s for s in walk_no_nested(fn.node) if isinstance(s, ast.Try)]
  if len(tries) != 1:
    raise AnalysisError("%s: one try statement expected" % q)
  tr = tries[0]
  inside = [text(c.func) for c in calls_in(tr.body)]
  ok = "ast.parse" in inside and (collector + ".visit") in inside
  run.ob(R4, q, "try: ast.parse(...); %s.visit(...)" % collector,
         "parsing and collecting (both raise SyntaxError on unsupported input) are fenced", ok,
         fi=fn.fi, node=tr)
  hs = [h for h in tr.handlers if h.type is not None and
        "SyntaxError" in {dotted(x) for x in ([h.type] if not isinstance(h.type, ast.Tuple)
                                              else h.type.elts)}]
  ok = len(hs) == 1
  if ok:
    body = [b for b in hs[0].body if not isinstance(b, ast.Pass)]
    hr = [b for b in hs[0].body for x in walk_no_nested(b) if isinstance(x, ast.Return)]
    ok = bool(body) and isinstance(body[-1], ast.Return) and \
        all(isinstance(b, (ast.Return, ast.Assign, ast.Expr)) for b in body) and \
        v.t(body[-1].value) == formula
  run.ob(R4, q, "except SyntaxError: return %s" % formula,
         "a formula that does not parse is returned exactly as it came in", ok, fi=fn.fi,
         node=tr)
  # the dollar replacer and the text parsed
  repl = "get_dollar_replacer(%s)" % formula
  nodollar = repl + ".get_text()"
  parse = [c for c in calls_in(tr.body) if text(c.func) == "ast.parse"]
  atok = [c for c in calls_in(tr.body) if endswith(dotted(c.func), "asttokens.ASTTokens")]
  ok = len(parse) == 1 and bool(parse[0].args) and v.t(parse[0].args[0]) == nodollar and \
      len(atok) == 1 and bool(atok[0].args) and v.t(atok[0].args[0]) == nodollar
  run.ob(R4, q, "asttokens.ASTTokens(<no-dollar text>, tree=ast.parse(<no-dollar text>))",
         "token positions refer to the dollar-free text", ok, fi=fn.fi, node=tr)
  # the patch
  mk = [(n, c) for (n, c, nm) in fn.calls() if endswith(nm, "textbuilder.make_patch", "make_patch")]
  if len(mk) != 1:
    raise AnalysisError("%s: one make_patch call expected" % q)
  mn, mc = mk[0]
  loops = [l for l in v.enclosing_loops(mn.stmt) if isinstance(l, ast.For)]
  if len(loops) != 1 or not isinstance(loops[0].target, ast.Name) or \
      v.t(loops[0].iter) != collector + ".entities":
    raise AnalysisError("%s: the patch is not made in one loop over %s.entities" % (q, collector))
  lp = loops[0]
  tm = v.loop_map(lp)
  a = H.bind_args(mc, ("full_text", "start", "end", "new_text"))
  if a is None or len(a) != 4:
    raise AnalysisError("%s: make_patch(text, start, end, new) with four arguments expected" % q)
  new_t = "%s(_v0)" % renamer
  ok = v.t(a["full_text"], tm) == nodollar and v.t(a["start"], tm) == "_v0.start_pos" and \
      v.t(a["end"], tm) in ("_v0.start_pos + len(_v0.name)", "len(_v0.name) + _v0.start_pos") and \
      v.t(a["new_text"], tm) == new_t
  run.ob(R4, q, short(mc), "the patch replaces exactly the old name, [start, start+len(name)), "
         "in the dollar-free text with what the renamer returned", ok, fi=fn.fi, node=mc)
  facts = v.facts_at(mc, start=tm.head, mapping=tm)
  run.ob(R4, q, "if <new name> is not None", "entities the renamer does not rename produce no "
         "patch", H.canon_atom("%s is None" % new_t, False) in facts or (new_t, True) in facts, fi=fn.fi,
         node=lp)
  mb = [(n, c) for (n, c, nm) in fn.calls() if isinstance(c.func, ast.Attribute) and
        c.func.attr == "map_back_patch"]
  ok = len(mb) == 1 and v.t(mb[0][1].func.value) == repl and len(mb[0][1].args) == 1 and \
      v.denotes(mb[0][1].args[0], lambda e: e is mc)
  run.ob(R4, q, "%s.map_back_patch(<patch>)" % repl, "positions are translated back to the "
         "original text (with its $ signs) by the replacer that removed them", ok, fi=fn.fi,
         node=lp)
  # the mapped-back patch (3rd component) of every renamed entity is what the result is built from
  plist = None
  if ok:
    st = mb[0][0].stmt
    tgt = st.targets[0] if isinstance(st, ast.Assign) and st.value is mb[0][1] else None
    third = tgt.elts[2].id if isinstance(tgt, (ast.Tuple, ast.List)) and len(tgt.elts) == 3 and \
        isinstance(tgt.elts[2], ast.Name) else None
    for (n, c, nm) in fn.calls():
      if isinstance(c.func, ast.Attribute) and c.func.attr == "append" and len(c.args) == 1 and \
          isinstance(c.func.value, ast.Name):
        arg = v.alias_root(c.args[0])
        arg_at = n.id
        if isinstance(arg, ast.Name) and isinstance(c.args[0], ast.Name) and \
            arg.id != c.args[0].id:
          # the alias was bound where the mapped-back patch was still the current one
          r = v.value_at(c.args[0].id, n.id)
          arg_at = r[1] if r is not None else n.id
        direct = isinstance(arg, ast.Subscript) and isinstance(arg.slice, ast.Constant) and \
            arg.slice.value == 2 and v.denotes(arg.value, lambda e: e is mb[0][1])
        named = third is not None and isinstance(arg, ast.Name) and arg.id == third and \
            v.reaching(third, arg_at) == frozenset([mb[0][0].id])
        if (direct or named) and \
            cfg.path(mb[0][0].id, {tm.head, cfg.exit.id}, removed={n.id}, after=True) is None:
          plist = c.func.value.id
  rets = [s for s in walk_no_nested(fn.node) if isinstance(s, ast.Return) and
          not any(s is x for h in tr.handlers for b in h.body for x in ast.walk(b))]
  ok = False
  if len(rets) == 1 and plist is not None:
    ok = v.t(rets[0].value) == "textbuilder.Replacer(textbuilder.Text(%s), %s).get_text()" \
        % (formula, plist)
  run.ob(R4, q, "return textbuilder.Replacer(textbuilder.Text(%s), patches).get_text()" % formula,
         "the mapped-back patches are applied to the original text", ok, fi=fn.fi)


# ------------------------------------------------------------------------------------------ R5

def r5_two_passes(run, w, rewriters):
  R5 = run.rule("C17-R5", "tables a renamer reads are completely filled before the first "
                "formula is renamed with them", floor=1)
  n_inst = 0
  for (fn, sites) in rewriters:
    cfg = fn.cfg
    du = DefUse(fn)
    v = _views(fn)
    for (node, call) in sites:
      pb = H.bind_args(call, ("formula", "collector", "renamer")) or {}
      ra = v.res(pb["renamer"]) if pb.get("renamer") is not None else None
      rfi = w.repo.funcs.get(fn.qualname + "." + ra.id) if isinstance(ra, ast.Name) else None
      if rfi is None:
        continue
      local_params = set(rfi.params()) | {a.arg for a in rfi.node.args.kwonlyargs}
      free = {n.id for n in ast.walk(rfi.node) if isinstance(n, ast.Name) and
              isinstance(n.ctx, ast.Load)} - local_params
      for name in sorted(free):
        fills = set()
        for nm in du.group(name):        # the table may be filled under another local name
          fills |= du.muts.get(nm, set())
        if not fills:
          continue            # not a table filled in place by the enclosing function
        n_inst += 1
        use = node.id
        late = cfg.reach_after({use}) & fills
        before = cfg.reach(fills) & {use}
        wit = None
        if late:
          wit = cfg.describe_path(cfg.path(use, late, after=True))
        run.ob(R5, fn.qualname, "%s filled before %s uses it" % (name, rfi.name),
               "no statement that fills %s is reachable once a formula has been renamed with it "
               "(a rule's formula may mention an attribute defined by a later rule)" % name,
               not late and bool(before), witness=wit, fi=fn.fi,
               node=cfg.nodes[sorted(late)[0]].stmt if late else node.stmt)
  if n_inst < 1:
    raise AnalysisError("no renamer reads a table filled by its enclosing function "
                        "(user_attr_tables expected)")


# ---------------------------------------------------------------------------------- self-test
A = "sandbox/grist/acl.py"
D = "sandbox/grist/dropdown_condition.py"
T = "sandbox/grist/trigger_expression.py"
P = "sandbox/grist/predicate_formula.py"
U = "sandbox/grist/useractions.py"

VARIANTS = [
  ("seeded-one-collector-for-both-trigger-formulas", T,
   "    # Config mode: columnFilters use colRefs (stable across renames),\n    # so only customExpression needs AST-based renaming.\n    config = condition_data.get('config')\n    if config and isinstance(config, dict):\n      custom_expr = config.get('customExpression', '')\n      if custom_expr:\n        new_custom_expr = predicate_formula.process_renames(\n          custom_expr, _TriggerEntityCollector(), renamer)\n        if new_custom_expr != custom_expr:\n          config['customExpression'] = new_custom_expr\n          config['customExpressionParsed'] = parse_predicate_formula(new_custom_expr)\n          changed = True\n\n    # Text mode: rename in the text formula.\n    if 'text' in condition_data:\n      condition_formula = condition_data['text']\n      new_condition_formula = predicate_formula.process_renames(\n        condition_formula, _TriggerEntityCollector(), renamer)\n",
   "    collector = _TriggerEntityCollector()\n\n    # Config mode: columnFilters use colRefs (stable across renames),\n    # so only customExpression needs AST-based renaming.\n    config = condition_data.get('config')\n    if config and isinstance(config, dict):\n      custom_expr = config.get('customExpression', '')\n      if custom_expr:\n        new_custom_expr = predicate_formula.process_renames(custom_expr, collector, renamer)\n        if new_custom_expr != custom_expr:\n          config['customExpression'] = new_custom_expr\n          config['customExpressionParsed'] = parse_predicate_formula(new_custom_expr)\n          changed = True\n\n    # Text mode: rename in the text formula.\n    if 'text' in condition_data:\n      condition_formula = condition_data['text']\n      new_condition_formula = predicate_formula.process_renames(\n        condition_formula, collector, renamer)\n", "C17-R7"),
  ("acl-collector-built-once-for-all-rules", A,
   "  acl_resources_table = useractions.get_docmodel().aclResources.table\n  # Go through again checking if anything in ACL formulas is affected by the rename.\n  for rule_rec in useractions.get_docmodel().aclRules.all:\n\n    if not rule_rec.aclFormula:\n      continue\n    acl_formula = rule_rec.aclFormula\n\n    def renamer(subject):\n      if subject.type == 'recCol':\n        table_id = acl_resources_table.get_record(int(rule_rec.resource)).tableId\n      elif subject.type == 'userAttrCol':\n        table_id = user_attr_tables.get(subject.extra)\n      else:\n        return None\n      col_id = subject.name\n      return col_renames_dict.get((table_id, col_id))\n\n    new_acl_formula = predicate_formula.process_renames(acl_formula, _ACLEntityCollector(), renamer)\n",
   "  acl_collector = _ACLEntityCollector()\n  acl_resources_table = useractions.get_docmodel().aclResources.table\n  # Go through again checking if anything in ACL formulas is affected by the rename.\n  for rule_rec in useractions.get_docmodel().aclRules.all:\n\n    if not rule_rec.aclFormula:\n      continue\n    acl_formula = rule_rec.aclFormula\n\n    def renamer(subject):\n      if subject.type == 'recCol':\n        table_id = acl_resources_table.get_record(int(rule_rec.resource)).tableId\n      elif subject.type == 'userAttrCol':\n        table_id = user_attr_tables.get(subject.extra)\n      else:\n        return None\n      col_id = subject.name\n      return col_renames_dict.get((table_id, col_id))\n\n    new_acl_formula = predicate_formula.process_renames(acl_formula, acl_collector, renamer)\n", "C17-R7"),
  ("acl-rename-memo-by-text", "sandbox/grist/acl.py",
   "    new_acl_formula = predicate_formula.process_renames(acl_formula, _ACLEntityCollector(), renamer)\n",
   "    if acl_formula not in _memo:\n      _memo[acl_formula] = predicate_formula.process_renames(acl_formula, _ACLEntityCollector(), renamer)\n    new_acl_formula = _memo[acl_formula]\n", "C17-R6"),

  # the independently seeded bug: the two passes over _grist_ACLRules merged into one
  ("seeded-acl-rename-loops-merged", A,
   "  acl_resources_table = useractions.get_docmodel().aclResources.table\n"
   "  # Go through again checking if anything in ACL formulas is affected by the rename.\n"
   "  for rule_rec in useractions.get_docmodel().aclRules.all:\n\n",
   "    acl_resources_table = useractions.get_docmodel().aclResources.table\n\n", "C17-R5"),
  ("acl-parsed-not-regenerated", A,
   "        \"aclFormula\": new_acl_formula,\n"
   "        \"aclFormulaParsed\": parse_predicate_formula_json(new_acl_formula)\n",
   "        \"aclFormula\": new_acl_formula,\n", "C17-R2"),
  ("dropdown-parsed-from-old-text", D,
   "parse_predicate_formula_json(new_dc_formula)", "parse_predicate_formula_json(dc_formula)",
   "C17-R2"),
  ("trigger-custom-expression-change-not-flagged", T,
   "          config['customExpressionParsed'] = parse_predicate_formula(new_custom_expr)\n"
   "          changed = True\n",
   "          config['customExpressionParsed'] = parse_predicate_formula(new_custom_expr)\n",
   "C17-R2"),
  ("trigger-parsed-stored-in-wrong-field", T,
   "        condition_data['parsed'] = parse_predicate_formula(new_condition_formula)",
   "        condition_data['parse'] = parse_predicate_formula(new_condition_formula)", "C17-R2"),
  ("dropdown-rewrite-unconditional", D, "    if new_dc_formula != dc_formula:", "    if new_dc_formula:",
   "C17-R2"),
  ("acl-updates-wrong-table", A,
   "\n  useractions.doBulkUpdateFromPairs('_grist_ACLRules', rule_updates)\n",
   "\n  useractions.doBulkUpdateFromPairs('_grist_ACLResources', rule_updates)\n", "C17-R2"),
  ("acl-newRec-misspelt", A, "parent == ['Name', 'newRec']", "parent == ['Name', 'newrec']",
   "C17-R3"),
  ("trigger-oldRec-forgotten", T, "if parent in ([\"Name\", \"rec\"], [\"Name\", \"oldRec\"]):",
   "if parent in ([\"Name\", \"rec\"],):", "C17-R3"),
  ("dropdown-position-of-first-token", D,
   "NamedEntity(\"choiceAttr\", node.last_token.startpos, node.attr, None)",
   "NamedEntity(\"choiceAttr\", node.first_token.startpos, node.attr, None)", "C17-R3"),
  ("acl-collector-returns-bare-attr", A, "    return [\"Attr\", parent, node.attr]",
   "    return [\"Attr\", node.attr]", "C17-R3"),
  ("acl-renamer-type-misspelt", A, "elif subject.type == 'userAttrCol':",
   "elif subject.type == 'userAttrcol':", "C17-R3"),
  ("acl-userattr-extra-is-root", A, "node.last_token.startpos, node.attr, parent[2]))",
   "node.last_token.startpos, node.attr, parent[1]))", "C17-R3"),
  ("unparsable-returns-dollarfree-text", P,
   "    # Don't do anything to a syntactically wrong formula.\n    return formula",
   "    # Don't do anything to a syntactically wrong formula.\n    return formula_nodollar",
   "C17-R4"),
  ("patch-length-of-new-name", P, "subject.start_pos + len(subject.name), new_name)",
   "subject.start_pos + len(new_name), new_name)", "C17-R4"),
  ("patches-applied-to-dollarfree-text", P,
   "return textbuilder.Replacer(textbuilder.Text(formula), patches).get_text()",
   "return textbuilder.Replacer(textbuilder.Text(formula_nodollar), patches).get_text()",
   "C17-R4"),
  ("collector-outside-try", P,
   "    atok = asttokens.ASTTokens(formula_nodollar, tree=ast.parse(formula_nodollar, mode='eval'))\n"
   "    collector.visit(atok.tree)\n  except SyntaxError:\n"
   "    # Don't do anything to a syntactically wrong formula.\n    return formula\n",
   "    atok = asttokens.ASTTokens(formula_nodollar, tree=ast.parse(formula_nodollar, mode='eval'))\n"
   "  except SyntaxError:\n"
   "    # Don't do anything to a syntactically wrong formula.\n    return formula\n"
   "  collector.visit(atok.tree)\n", "C17-R4"),
  ("trigger-renames-not-called", U, "      perform_trigger_condition_renames(self, renames)\n", "",
   "C17-R1"),
  ("dropdown-renames-get-other-map", U,
   "      dropdown_condition.perform_dropdown_condition_renames(self, renames)",
   "      dropdown_condition.perform_dropdown_condition_renames(self, formula_updates)", "C17-R1"),
  ("acl-table-callback-dropped", U, "    make_acl_updates()\n", "", "C17-R1"),
  ("acl-resource-lookup-by-column-only", A, "col_renames_dict.get((t, c)) or c)",
   "col_renames_dict.get(c) or c)", "C17-R1"),
]
