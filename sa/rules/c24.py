"""C24 Everything sent to Node is marshal-safe and round-trips -- structural clauses."""
import ast
import os
import re
from ..fn import World
from ..index import AnalysisError, dotted, REPO
from ..astutil import text, short, endswith, calls_in, walk_no_nested
from ._h_F import (ifn, Res, res_of, atoms, canon, is_none, isinstance_atom, call_arg, absent,
                   iterations, need, repo_callees, strip_wrappers)

EXPLANATION = (
  "Decides (R1) that every object code encode_object can emit is accepted by decode_object and is "
  "a member of GristObjCode on the Node side; (R2) by a type-tag classification of every return "
  "of encode_object, that each leaf placed in an encoded value is an exact primitive -- a literal, "
  "the result of an exact constructor (str/int/float/bool/repr/bytes.decode), a recursive "
  "encode_object result, or a named trusted field -- and that a value known only through "
  "isinstance() is never emitted or used as a dict key without being rebuilt by its exact "
  "constructor; (R3) that every reply field built from actions passes through get_action_repr and "
  "cell values inside actions through encode_object/decode_object symmetrically. Stated "
  "assumption: the builtins str/repr/int/float/bool return exact primitives. Not decided: "
  "equality of decode(encode(v)) re-encoded, for every value.")

# Expressions trusted to be exact primitives (or lists of them), one reason each.
TRUSTED = {
  "value._table.table_id": "table ids are python identifiers produced by gencode (exact str)",
  "value._row_id": "row ids are ints produced by the engine's own allocation",
  "value.table_id": "RecordStub/RecordSetStub fields come from decoded (already marshalled) data",
  "value.row_id": "RecordStub field from decoded data",
  "value.row_ids": "RecordSetStub field from decoded data",
  "value._get_encodable_row_ids()": "RecordSet helper; its own returns are checked below (R2)",
  "value.value_repr": "UnmarshallableValue holds a decoded str or a repr()",
  "moment.dt_to_ts(value)": "float arithmetic on a datetime",
  "moment.date_to_ts(value)": "float arithmetic on a date",
  "value.tzinfo.zone.name": "zone names are keys of the bundled tz data (exact str)",
  "value.encode_args()": "RaisedException.encode_args: fields checked separately below",
}
EXACT_CTORS = {"str", "int", "float", "bool", "repr", "safe_repr"}


def check(run, repo, tier):
  w = World(repo)
  r1_alphabet(run, w)
  r2_marshal_safety(run, w)
  r3_reply_paths(run, w)
  r4_exception_roundtrip(run, w)


def _codes_emitted(r):
  """{code: return stmt} for every list result of encode_object headed by a literal code."""
  out = {}
  for (n, v) in r.returns():
    for (facts, leaf) in Res.cases(v):
      x = leaf
      while isinstance(x, ast.BinOp) and isinstance(x.op, ast.Add):
        x = x.left
      if isinstance(x, ast.List) and x.elts and isinstance(x.elts[0], ast.Constant) and \
          isinstance(x.elts[0].value, str):
        out[x.elts[0].value] = n.stmt
  return out


def _codes_accepted(r, p):
  """Literal codes the first element of the encoded value (`<param>[0]`, through any local) is
  compared with."""
  out = set()
  head = p + "[0]"
  for n in r.cfg.nodes:
    for e in n.exprs:
      for x in walk_no_nested(e):
        if isinstance(x, ast.Compare) and len(x.ops) == 1 and \
            isinstance(x.ops[0], (ast.Eq, ast.NotEq, ast.In, ast.NotIn)):
          a, b = x.left, x.comparators[0]
          for (l, c) in ((a, b), (b, a)):
            consts = c.elts if isinstance(c, (ast.Tuple, ast.List, ast.Set)) else [c]
            if consts and all(isinstance(k, ast.Constant) and isinstance(k.value, str)
                              for k in consts) and r.norm(l, n.id) == head:
              out |= {k.value for k in consts}
  return out


def _ts_enum(path, name):
  with open(path, encoding="utf-8") as fh:
    src = fh.read()
  m = re.search(r"export\s+enum\s+%s\s*\{(.*?)\}" % re.escape(name), src, re.S)
  if not m:
    raise AnalysisError("enum %s not found in %s" % (name, path))
  body = re.sub(r"//[^\n]*|/\*.*?\*/", "", m.group(1), flags=re.S)
  return dict(re.findall(r"(\w+)\s*=\s*[\"']([^\"']*)[\"']", body))


def _catch_all(h):
  if h.type is None:
    return True
  names = h.type.elts if isinstance(h.type, ast.Tuple) else [h.type]
  return any(text(x) in ("Exception", "BaseException") for x in names)


def _fenced(fn):
  """Top-level try statements of fn with a catch-all handler."""
  return [s for s in fn.node.body if isinstance(s, ast.Try) and any(_catch_all(h)
                                                                    for h in s.handlers)]


def r1_alphabet(run, w):
  R1 = run.rule("C24-R1", "object codes: emitted by encode_object <= accepted by decode_object <= "
                "GristObjCode (app/plugin/GristData.ts)", floor=10)
  enc = ifn(w, "objtypes.encode_object")
  dec = ifn(w, "objtypes.decode_object")
  emitted = _codes_emitted(res_of(w, enc))
  accepted = _codes_accepted(res_of(w, dec), dec.fi.params()[0])
  ts = _ts_enum(os.path.join(w.repo.root, "app", "plugin", "GristData.ts"), "GristObjCode")
  tsvals = set(ts.values())
  if len(emitted) < 8 or len(accepted) < 8 or len(tsvals) < 8:
    raise AnalysisError("object code tables could not be read (emitted=%d accepted=%d ts=%d)"
                        % (len(emitted), len(accepted), len(tsvals)))
  for code, node in sorted(emitted.items()):
    run.ob(R1, enc.qualname, "code %r" % code, "emitted code is decoded by decode_object and "
           "known to Node's GristObjCode", code in accepted and code in tsvals, fi=enc.fi,
           node=node, nontrivial=False)
  for code in sorted(accepted):
    run.ob(R1, dec.qualname, "code %r" % code, "accepted code is a GristObjCode member",
           code in tsvals, fi=dec.fi, nontrivial=False)
  # unknown codes yield a value (RaisedException), never an exception: the whole body is one try
  # whose handlers all catch Exception-or-wider and end in a return
  trys = [s for s in dec.node.body if isinstance(s, ast.Try)]
  rest = [s for s in dec.node.body if not isinstance(s, ast.Try) and
          not (isinstance(s, ast.Expr) and isinstance(s.value, ast.Constant))]
  r = res_of(w, dec)
  ok = len(trys) == 1 and not rest and any(_catch_all(h) for h in trys[0].handlers)
  if ok:
    for h in trys[0].handlers:
      hn = [n for n in r.cfg.nodes if n.kind == "handler" and n.stmt is h]
      rets = {n.id for n in r.cfg.nodes if n.kind == "return"}
      # every path out of the handler goes through a return
      ok = ok and bool(hn) and all(
        not (r.cfg.reach_after({x.id}, removed=rets) & {r.cfg.exit.id, r.cfg.raise_exit.id})
        for x in hn)
  run.ob(R1, dec.qualname, "except Exception: return RaisedException(e)",
         "decoding never raises", ok, fi=dec.fi)


PRIM_EXACT = ("str", "float", "bool", "int", "bytes", "list", "tuple")


def _exact_test(a, subject, res=None, node=None, allowed=PRIM_EXACT):
  """Is canonical atom `a` (known true) a proof that `subject` (text) is an exact primitive:
  `type(s) in (str, float, ...)`, `type(s) is str`, `s is None`, or a disjunction of such?"""
  def same(e):
    return text(e) == subject or (res is not None and res.norm(e, node.id) == subject)
  if isinstance(a, ast.BoolOp) and isinstance(a.op, ast.Or):
    return all(_exact_test(canon(v)[0], subject, res, node, allowed) and canon(v)[1]
               for v in a.values)
  if isinstance(a, ast.Compare) and len(a.ops) == 1:
    l, op, rr = a.left, a.ops[0], a.comparators[0]
    if isinstance(op, ast.Is) and isinstance(rr, ast.Constant) and rr.value is None and same(l):
      return True
    if isinstance(op, (ast.In, ast.Is, ast.Eq)) and isinstance(l, ast.Call) and \
        dotted(l.func) == "type" and len(l.args) == 1 and same(l.args[0]):
      elts = rr.elts if isinstance(rr, (ast.Tuple, ast.List, ast.Set)) else [rr]
      return bool(elts) and all(dotted(x) in allowed for x in elts)
  return False


def r2_marshal_safety(run, w):
  R2 = run.rule("C24-R2", "every leaf of every value returned by encode_object is an exact "
                "primitive, a recursive result or a named trusted field", floor=20)
  fn = ifn(w, "objtypes.encode_object")
  r = res_of(w, fn)
  vp = fn.fi.params()[0]
  trusted = {k.replace("value", vp) if vp != "value" else k for k in TRUSTED}

  def classify(e, n, facts, bound=()):
    """'' when e (evaluated at node n under facts) is provably marshal-safe, else a reason."""
    if isinstance(e, ast.Constant):
      return ""
    t = text(e)
    if t in trusted:
      return ""
    if isinstance(e, ast.Call):
      d = dotted(e.func)
      if d in EXACT_CTORS:
        return ""
      if d == "encode_object":
        return ""
      if isinstance(e.func, ast.Attribute) and e.func.attr == "decode":
        return ""       # bytes.decode -> exact str
      return "result of %s() is not known to be an exact primitive" % (d or short(e.func))
    if isinstance(e, ast.Name):
      if e.id not in bound:
        if r.known(n.id, lambda a, nd: _exact_test(a, e.id, r, nd), True, facts):
          return ""
        if e.id != vp:
          els = r.elements(e, n.id)
          if els is not None:
            for el in els:
              bnd = tuple(x for (tg, it) in el.loops for x in _names(tg))
              at = el.node or n
              rr = (classify(el.key, at, (), bnd) if el.key is not None else "") or \
                  classify(el.elt, at, (), bnd)
              if rr:
                return rr
            return ""
      return "%s is known only through isinstance(); a subclass instance is not marshallable" % e.id
    if isinstance(e, (ast.List, ast.Tuple)):
      for x in e.elts:
        rr = classify(x, n, facts, bound)
        if rr:
          return rr
      return ""
    if isinstance(e, (ast.ListComp, ast.DictComp)):
      bnd = tuple(bound) + tuple(x for g in e.generators for x in _names(g.target))
      if isinstance(e, ast.ListComp):
        return classify(e.elt, n, facts, bnd)
      return classify(e.key, n, facts, bnd) or classify(e.value, n, facts, bnd)
    if isinstance(e, ast.Dict):
      for k, v in zip(e.keys, e.values):
        rr = (classify(k, n, facts, bound) if k is not None else "** expansion") or \
            classify(v, n, facts, bound)
        if rr:
          return rr
      return ""
    if isinstance(e, ast.BinOp) and isinstance(e.op, ast.Add):
      return classify(e.left, n, facts, bound) or classify(e.right, n, facts, bound)
    if isinstance(e, ast.IfExp):
      return classify(e.body, n, tuple(facts) + tuple(atoms(e.test, True)), bound) or \
          classify(e.orelse, n, tuple(facts) + tuple(atoms(e.test, False)), bound)
    return "expression %s is not provably an exact primitive" % short(e)

  rets = r.returns()
  if len(rets) < 15:
    raise AnalysisError("encode_object: fewer than 15 returns found")
  for (n, v) in rets:
    reason = classify(v, n, ())
    run.ob(R2, fn.qualname, "return " + short(v, 80), "returned value is built only from "
           "exact primitives, recursive results and trusted fields", not reason,
           witness=reason or None, fi=fn.fi, node=n.stmt)
  # the whole body is fenced: anything that raises becomes ['U', safe_repr(value)]
  trys = _fenced(fn)
  ok = len(trys) == 1 and not r.falls_off_end()
  if ok:
    # whatever runs after a handler caught something ends in a return of ['U', ...]
    hs = [n.id for n in r.cfg.nodes if n.kind == "handler"]
    after = r.cfg.reach(set(hs))
    tail = [(n, v) for (n, v) in rets if n.id in after]
    ok = bool(hs) and bool(tail) and all(
      isinstance(v, ast.List) and v.elts and text(v.elts[0]) == "'U'" for (n, v) in tail) and \
      not (r.cfg.raise_exit.id in r.cfg.reach(set(hs)))
    # nothing but the fenced block and that final return runs at the top level
    outside = [s for s in fn.node.body if s not in trys and
               not (isinstance(s, ast.Expr) and isinstance(s.value, ast.Constant))]
    ok = ok and all(isinstance(s, (ast.Return, ast.Assign)) for s in outside) and \
        all(any(x.id in after for x in r.nodes_of(s)) for s in outside)
  run.ob(R2, fn.qualname, "try: ... except Exception: pass; return ['U', safe_repr(value)]",
         "encoding is total: a failure yields an unmarshallable-value marker, not an exception",
         ok, fi=fn.fi)
  # the dict branch rejects non-string keys before building the object
  def all_keys_str(a, node):
    if not (isinstance(a, ast.Call) and dotted(a.func) == "all" and len(a.args) == 1 and
            isinstance(a.args[0], (ast.GeneratorExp, ast.ListComp))):
      return False
    g = a.args[0]
    if len(g.generators) != 1 or g.generators[0].ifs:
      return False
    it = r.norm(g.generators[0].iter, node.id)
    e = g.elt
    return it in (vp, vp + ".keys()") and isinstance(e, ast.Call) and \
        dotted(e.func) == "isinstance" and len(e.args) == 2 and \
        text(e.args[0]) == text(g.generators[0].target) and text(e.args[1]) == "str"
  dict_ret = [(n, v) for (n, v) in rets if isinstance(v, ast.List) and v.elts and
              text(v.elts[0]) == "'O'"]
  def dict_branch():
    need(dict_ret, "the return that emits an object (['O', ...])", fn)
    ok = all(r.known(n.id, all_keys_str, True) for (n, v) in dict_ret)
    run.ob(R2, fn.qualname, "if not all(isinstance(key, str) ...): raise UnmarshallableError",
           "dicts with non-string keys are not emitted as objects", ok, fi=fn.fi)
  run.guard(dict_branch)
  # RaisedException fields: every assignment to _name/_message/details is an exact str or None
  cls = w.repo.cls("objtypes.RaisedException")
  fields = ("_name", "_message", "details")
  for mname, m in sorted(cls.methods.items()):
    if mname in ("decode_args", "no_traceback"):
      continue   # copies of already-encoded fields / decoded (marshalled) input
    mf = ifn(w, m.qualname)
    mr = res_of(w, mf)
    def fields_of(mf=mf, mr=mr, m=m):
      for n in mr.cfg.nodes:
        st = n.stmt
        if n.kind == "stmt" and isinstance(st, (ast.Assign, ast.AugAssign)):
          tgs = st.targets if isinstance(st, ast.Assign) else [st.target]
          for tg in tgs:
            if isinstance(tg, ast.Attribute) and tg.attr in fields and text(tg.value) == "self":
              ok = _exact_str(w, mf, mr, n, st.value)
              run.ob(R2, m.qualname,
                     ("self.%s %s %s" % (tg.attr, "=" if isinstance(st, ast.Assign) else "+=",
                                         mr.norm(st.value, n.id)))[:80],
                     "exception field sent to Node is an exact str or None", ok, fi=m, node=st)
    run.guard(fields_of)
  # RecordSet._get_encodable_row_ids returns an exact list/tuple: the stored row ids only under an
  # exact-type test, otherwise rebuilt with list()/tuple()
  ge = ifn(w, "records.RecordSet._get_encodable_row_ids")
  gr = res_of(w, ge)
  for (n, v) in gr.returns():
    for (facts, leaf) in Res.cases(v):
      ok = isinstance(leaf, ast.Call) and dotted(leaf.func) in ("list", "tuple")
      if not ok:
        sub = text(leaf)
        ok = gr.known(n.id, lambda a, nd: _exact_test(a, sub, gr, nd, ("list", "tuple")) and
                      not (isinstance(a, ast.Compare) and isinstance(a.ops[0], ast.Is) and
                           isinstance(a.comparators[0], ast.Constant)), True, facts)
      run.ob(R2, ge.qualname, "return " + short(leaf), "row ids leave as an exact list/tuple (a "
             "list subclass such as RecordList is not marshallable)", ok, fi=ge.fi, node=n.stmt)
  ea = ifn(w, "objtypes.RaisedException.encode_args")
  def kept_input():
    ds = [n for n in ast.walk(ea.node) if isinstance(n, ast.Dict) and
          [text(k) for k in n.keys] == ["'u'"]]
    need(ds, "the {'u': ...} record of the remembered user input", ea)
    ok = all(isinstance(n.values[0], ast.Call) and
             endswith(ea.name(n.values[0]), "encode_object") for n in ds)
    run.ob(R2, ea.qualname, "{'u': encode_object(self.user_input)}", "user input kept with an "
           "exception is itself encoded", ok, fi=ea.fi)
  run.guard(kept_input)


def _names(target):
  return [x.id for x in ast.walk(target) if isinstance(x, ast.Name)]


def r4_exception_roundtrip(run, w):
  R4 = run.rule("C24-R4", "RaisedException args: the decoder restores the remembered user input "
                "by key presence (None is a value), mirroring the encoder", floor=2)
  ea = ifn(w, "objtypes.RaisedException.encode_args")
  r = res_of(w, ea)
  # encoder: the slot is {"u": ...} exactly when has_user_input(), None otherwise
  def has_input(a, node):
    return isinstance(a, ast.Call) and not a.args and r.norm(a.func, node.id) == \
        "self.has_user_input"
  def u_dict(e):
    return isinstance(e, ast.Dict) and [text(k) for k in e.keys] == ["'u'"]
  slots = []
  for (n, v) in r.returns(expand=False):
    els = r.elements(v, n.id)
    for el in els or []:
      at = el.node or n
      x = r.expand(el.elt, at.id)
      if any(u_dict(y) for y in ast.walk(x)):
        slots.append((at, x))
  ok = bool(slots)
  for (at, x) in slots:
    cs = Res.cases(x)
    ok = ok and any(u_dict(leaf) for (f, leaf) in cs) and any(is_none(leaf) for (f, leaf) in cs)
    for (facts, leaf) in cs:
      if u_dict(leaf):
        ok = ok and r.known(at.id, has_input, True, facts)
      elif is_none(leaf):
        ok = ok and r.known(at.id, has_input, False, facts)
      else:
        ok = False
  need(slots, "the {'u': ...} slot of the encoded argument list", ea)
  run.ob(R4, ea.qualname, "user_input = {'u': encode_object(...)} if self.has_user_input() else None",
         "the 'u' key is present exactly when an input was remembered", ok, fi=ea.fi)
  hu = ifn(w, "objtypes.RaisedException.has_user_input")
  e = res_of(w, hu).result_expr()
  need(e is not None, "the test has_user_input() returns (a single boolean expression)", hu)
  if True:
    a, pol = canon(e)
    ok = (not pol) and isinstance(a, ast.Compare) and isinstance(a.ops[0], ast.Is) and \
        {text(a.left).replace("RaisedException.", "self."),
         text(a.comparators[0]).replace("RaisedException.", "self.")} == \
        {"self.user_input", "self.NO_INPUT"}
  run.ob(R4, hu.qualname, "user_input is not NO_INPUT", "absence of input is the NO_INPUT "
         "sentinel, not None", ok, fi=hu.fi)
  da = ifn(w, "objtypes.RaisedException.decode_args")
  dr = res_of(w, da)
  cfg = da.cfg
  sets = [n for n in cfg.nodes if n.kind == "stmt" and isinstance(n.stmt, ast.Assign) and
          text(n.stmt.targets[0]).endswith(".user_input")]
  final = [n for n in sets if not (cfg.reach_after({n.id}) & {m.id for m in sets})]
  need(final, "the assignment of <exception>.user_input", da)
  ok = len(final) == 1 and cfg.dominated_by(cfg.exit.id, {final[0].id})
  if ok:
    v = dr.expand(final[0].stmt.value, final[0].id)
    gets = [c for c in calls_in(v) if isinstance(c.func, ast.Attribute) and c.func.attr == "get"
            and c.args and text(c.args[0]) in ("'u'", '"u"')]
    ok = isinstance(v, ast.Call) and dotted(v.func) == "decode_object" and len(gets) == 1 and \
        len(gets[0].args) == 2 and text(gets[0].args[1]).endswith("NO_INPUT")
  run.ob(R4, da.qualname, "exc.user_input = decode_object(d.get('u', NO_INPUT)) on every path",
         "a remembered input of None (or any falsy value) is restored; only a missing key means "
         "no input", ok, fi=da.fi)


def _exact_str(w, fn, r, n, v, depth=0):
  """Is v (evaluated at node n of function fn / its Res r) an exact str or None? A call of a
  repo function is followed into that function's returns; a call that cannot be followed is
  undecidable (AnalysisError), a raw value (attribute, subscript, parameter) is not exact."""
  if isinstance(v, ast.Constant):
    return v.value is None or isinstance(v.value, str)
  if isinstance(v, ast.JoinedStr):
    return True
  if isinstance(v, ast.Call):
    d = dotted(v.func)
    if d in ("str", "repr", "traceback.format_exc", "friendly_errors.friendly_message"):
      return True
    if isinstance(v.func, ast.Attribute) and v.func.attr in ("format", "join"):
      return True
    tg = repo_callees(w, fn, v)
    if tg and depth < 3:
      for t in tg:
        g = ifn(w, t.qualname)
        gr = res_of(w, g)
        rets = gr.returns(expand=False)
        if not rets or gr.falls_off_end():
          raise AnalysisError("%s: what %s() returns is not understood" % (fn.qualname, t.qualname))
        for (rn, rv) in rets:
          if not _exact_str(w, g, gr, rn, rv, depth + 1):
            return False
      return True
    raise AnalysisError("%s: cannot decide whether %s returns an exact str"
                        % (fn.qualname, short(v, 60)))
  if isinstance(v, ast.BinOp) and isinstance(v.op, ast.Add):
    return _exact_str(w, fn, r, n, v.left, depth) and _exact_str(w, fn, r, n, v.right, depth)
  if isinstance(v, ast.IfExp):
    return _exact_str(w, fn, r, n, v.body, depth) and _exact_str(w, fn, r, n, v.orelse, depth)
  if isinstance(v, ast.Subscript) and isinstance(v.slice, ast.Constant) and \
      isinstance(v.slice.value, int) and depth < 6:
    # element of a tuple/list whose members are visible (x, y = helper(...) -> helper(...)[0])
    base = r.expand(v.value, n.id)
    if isinstance(base, (ast.Tuple, ast.List)) and v.slice.value < len(base.elts):
      return _exact_str(w, fn, r, n, base.elts[v.slice.value], depth + 1)
  if isinstance(v, ast.Name) and depth < 6:
    # a local: every definition that reaches this point is itself an exact str
    defs, entry = r.reaching(n.id, v.id)
    if entry or not defs:
      return False
    for d in defs:
      dn = r.cfg.nodes[d]
      pv = r._plain_value(dn, v.id)
      if pv is None or not _exact_str(w, fn, r, dn, pv, depth + 1):
        return False
    return True
  if isinstance(v, ast.Attribute):
    # type(<anything>).__name__ : class names are exact str
    if v.attr == "__name__" and isinstance(v.value, ast.Call) and dotted(v.value.func) == "type":
      return True
    # .typename / .value of an InvalidTypedValue (built from str() in its constructor)
    if v.attr in ("typename", "value"):
      sub = {text(v.value), r.norm(v.value, n.id)}
      return r.known(n.id, isinstance_atom(r, sub, {"InvalidTypedValue"}), True)
  return False


def r3_reply_paths(run, w):
  R3 = run.rule("C24-R3", "actions in replies pass through get_action_repr; action values are "
                "encoded and decoded through the same recursive walker", floor=8)
  ga = ifn(w, "actions.get_action_repr")
  ok = any(endswith(ga.name(c), "encode_objects") for c in calls_in(ga.node))
  run.ob(R3, ga.qualname, "list(encode_objects(action_obj))", "get_action_repr encodes every "
         "cell value", ok, fi=ga.fi)
  eo, do = ifn(w, "actions.encode_objects"), ifn(w, "actions.decode_objects")
  er, dr = res_of(w, eo), res_of(w, do)
  def walker_arg(fn, r):
    out = []
    for (n, c, nm) in fn.calls():
      if endswith(nm, "convert_recursive_in_action"):
        a = call_arg(c, 0, "converter")
        out.append(r.norm(a, n.id) if a is not None else None)
    return out
  ok = walker_arg(eo, er) == ["objtypes.encode_object"] and \
      walker_arg(do, dr) == [do.fi.params()[1]] and \
      text(do.node.args.defaults[0]) == "objtypes.decode_object"
  run.ob(R3, eo.qualname, "encode/decode share convert_recursive_in_action",
         "the same positions of an action are encoded on the way out and decoded on the way in",
         ok, fi=eo.fi)
  ar = ifn(w, "actions.action_from_repr")
  ok = any(endswith(ar.name(c), "decode_objects") for c in calls_in(ar.node))
  run.ob(R3, ar.qualname, "decode_objects(action_type(*doc_action[1:]))", "incoming actions are "
         "decoded", ok, fi=ar.fi)
  # every list of actions placed in a reply is mapped through get_action_repr
  for q, attrs in (("action_obj.ActionGroup.get_repr", ("calc", "stored", "undo")),
                   ("action_obj.ActionBundle.to_json_obj", ("stored", "calc", "undo"))):
    fn = ifn(w, q)
    r = res_of(w, fn)
    for a in attrs:
      def reply_list(fn=fn, r=r, a=a, q=q):
        # the iterations over self.<a> (loops / comprehensions, also through a local alias)
        its = []
        for (it, tg, body, owner) in iterations(fn.node):
          at = r.nodes_of(owner) if isinstance(owner, ast.For) else r.node_of_expr(it)
          if r.norm(strip_wrappers(it), at[0].id if at else None) == "self." + a:
            its.append((tg, body))
        need(its, "the place where self.%s is turned into the reply's list" % a, fn)
        ok = all(any(endswith(fn.name(c), "get_action_repr") and
                     any(isinstance(x, ast.Name) and x.id in _names(tg)
                         for x in list(c.args) + [k.value for k in c.keywords])
                     for b in body for c in calls_in(b)) for (tg, body) in its)
        run.ob(R3, q, "[... get_action_repr(a) ... for a in self.%s]" % a,
               "actions of the %s list are encoded before leaving the sandbox" % a, ok, fi=fn.fi)
      run.guard(reply_list)
  for name in ("fetch_table", "fetch_meta_tables", "create_migrations"):
    q = "main.run." + name
    fn = ifn(w, q)
    def table_reply(fn=fn, q=q):
      fr = res_of(w, fn)
      rets = fr.returns()
      need(rets and not fr.falls_off_end(), "the value returned to Node", fn)
      ok = True
      for (n, v) in rets:
        if any(endswith(fn.name(c), "get_action_repr") for c in calls_in(v)):
          continue
        # not encoded here: undecided when the value comes out of a repo helper we cannot see into
        opaque = [c for c in calls_in(v) if repo_callees(w, fn, c) and
                  not endswith(fn.name(c), "fetch_table", "fetch_meta_tables", "create_migrations",
                               "table_data_from_db")]
        if opaque:
          raise AnalysisError("%s: the reply is produced by %s, which is not followed"
                              % (q, short(opaque[0].func, 50)))
        ok = False
      run.ob(R3, q, "return ... actions.get_action_repr(...)", "table data returned to Node is "
             "encoded", ok, fi=fn.fi)
    run.guard(table_reply)
  fe = ifn(w, "main.run.get_formula_error")
  rets = res_of(w, fe).returns()
  ok = bool(rets) and all(isinstance(leaf, ast.Call) and
                          endswith(dotted(leaf.func), "encode_object")
                          for (n, v) in rets for (f, leaf) in Res.cases(v))
  run.ob(R3, fe.qualname, "return objtypes.encode_object(...)", "formula errors returned to Node "
         "are encoded", ok, fi=fe.fi)


O = "sandbox/grist/objtypes.py"
VARIANTS = [
  ("dict-key-uncast", O, "return ['O', {str(key): encode_object(val) for key, val in value.items()}]",
   "return ['O', {key: encode_object(val) for key, val in value.items()}]", "C24-R2"),
  ("str-subclass-returned", O, "    elif isinstance(value, str):\n      return str(value)",
   "    elif isinstance(value, str):\n      return value", "C24-R2"),
  ("int-subclass-returned", O, "      return int(value)\n", "      return value\n", "C24-R2"),
  ("list-items-not-encoded", O, "      return ['L'] + [encode_object(item) for item in value]",
   "      return ['L'] + list(value)", "C24-R2"),
  ("dict-values-not-encoded", O, "{str(key): encode_object(val) for key, val in value.items()}",
   "{str(key): val for key, val in value.items()}", "C24-R2"),
  ("nonstring-keys-allowed", O, """      if not all(isinstance(key, str) for key in value):
        raise UnmarshallableError("Dict with non-string keys")
""", "", "C24-R2"),
  ("new-code-unknown-to-decoder", O, "      return ['P']", "      return ['p']", "C24-R1"),
  ("decoder-drops-code", O, "    elif code == 'C':\n      return _censored_sentinel\n", "", "C24-R1"),
  ("exception-message-raw", O, "    elif include_message:\n      self._message = str(error) + location",
   "    elif include_message:\n      self._message = error.args[0] if error.args else None", "C24-R2"),
  ("row-ids-isinstance", "sandbox/grist/records.py", "    if type(self._row_ids) in (list, tuple):", "    if isinstance(self._row_ids, (list, tuple)):", "C24-R2"),
  ("decode-drops-none-input", O, '    exc.user_input = decode_object(exc.user_input.get("u", RaisedException.NO_INPUT))',
   '    saved = exc.user_input.get("u")\n    exc.user_input = decode_object(saved) if saved is not None else RaisedException.NO_INPUT', "C24-R4"),
  ("stored-not-encoded", "sandbox/grist/action_obj.py",
   '"stored":   [actions.get_action_repr(a) for a in self.stored],', '"stored":   [list(a) for a in self.stored],', "C24-R3"),
  ("fetch-table-raw", "sandbox/grist/main.py",
   "    return actions.get_action_repr(eng.fetch_table(table_id, formulas=formulas, query=query))",
   "    return list(eng.fetch_table(table_id, formulas=formulas, query=query))", "C24-R3"),
]
