"""C24 Everything sent to Node is marshal-safe and round-trips -- structural clauses."""
import ast
import os
import re
from ..fn import World
from ..index import AnalysisError, dotted, REPO
from ..astutil import text, short, endswith, calls_in, walk_no_nested

EXPLANATION = (
  "Decides (R1) that every object code encode_object can emit is accepted by decode_object and is "
  "a member of GristObjCode on the Node side; (R2) by a type-tag classification of every return "
  "of encode_object, that each leaf placed in an encoded value is an exact primitive -- a literal, "
  "the result of an exact constructor (str/int/float/bool/repr/bytes.decode), a recursive "
  "encode_object result, or a named trusted field -- and that a value known only through "
  "isinstance() is never emitted or used as a dict key without being rebuilt by its exact "
  "constructor; (R3) that every reply field built from actions passes through get_action_repr and "
  "cell values inside actions through encode_object/decode_object symmetrically. Stated "
  "assumption: the builtins str/repr/int/float/bool return exact primitives. Not decided: "
  "equality of decode(encode(v)) re-encoded, for every value.")

# Expressions trusted to be exact primitives (or lists of them), one reason each.
TRUSTED = {
  "value._table.table_id": "table ids are python identifiers produced by gencode (exact str)",
  "value._row_id": "row ids are ints produced by the engine's own allocation",
  "value.table_id": "RecordStub/RecordSetStub fields come from decoded (already marshalled) data",
  "value.row_id": "RecordStub field from decoded data",
  "value.row_ids": "RecordSetStub field from decoded data",
  "value._get_encodable_row_ids()": "RecordSet helper; its own returns are checked below (R2)",
  "value.value_repr": "UnmarshallableValue holds a decoded str or a repr()",
  "moment.dt_to_ts(value)": "float arithmetic on a datetime",
  "moment.date_to_ts(value)": "float arithmetic on a date",
  "value.tzinfo.zone.name": "zone names are keys of the bundled tz data (exact str)",
  "value.encode_args()": "RaisedException.encode_args: fields checked separately below",
}
EXACT_CTORS = {"str", "int", "float", "bool", "repr", "safe_repr"}


def check(run, repo, tier):
  w = World(repo)
  r1_alphabet(run, w)
  r2_marshal_safety(run, w)
  r3_reply_paths(run, w)
  r4_exception_roundtrip(run, w)


def _codes_emitted(fn):
  out = {}
  for n in ast.walk(fn.node):
    if isinstance(n, ast.Return) and n.value is not None:
      v = n.value
      if isinstance(v, ast.BinOp) and isinstance(v.op, ast.Add):
        v = v.left
      if isinstance(v, ast.List) and v.elts and isinstance(v.elts[0], ast.Constant) and \
          isinstance(v.elts[0].value, str):
        out[v.elts[0].value] = n
  return out


def _codes_accepted(fn):
  out = set()
  for n in ast.walk(fn.node):
    if isinstance(n, ast.Compare) and isinstance(n.left, ast.Name) and n.left.id == "code" and \
        isinstance(n.ops[0], ast.Eq) and isinstance(n.comparators[0], ast.Constant):
      out.add(n.comparators[0].value)
  return out


def _ts_enum(path, name):
  with open(path, encoding="utf-8") as fh:
    src = fh.read()
  m = re.search(r"export\s+enum\s+%s\s*\{(.*?)\}" % re.escape(name), src, re.S)
  if not m:
    raise AnalysisError("enum %s not found in %s" % (name, path))
  body = re.sub(r"//[^\n]*|/\*.*?\*/", "", m.group(1), flags=re.S)
  return dict(re.findall(r"(\w+)\s*=\s*[\"']([^\"']*)[\"']", body))


def r1_alphabet(run, w):
  R1 = run.rule("C24-R1", "object codes: emitted by encode_object <= accepted by decode_object <= "
                "GristObjCode (app/plugin/GristData.ts)", floor=10)
  enc = w.fn("objtypes.encode_object")
  dec = w.fn("objtypes.decode_object")
  emitted = _codes_emitted(enc)
  accepted = _codes_accepted(dec)
  ts = _ts_enum(os.path.join(w.repo.root, "app", "plugin", "GristData.ts"), "GristObjCode")
  tsvals = set(ts.values())
  if len(emitted) < 8 or len(accepted) < 8 or len(tsvals) < 8:
    raise AnalysisError("object code tables could not be read (emitted=%d accepted=%d ts=%d)"
                        % (len(emitted), len(accepted), len(tsvals)))
  for code, node in sorted(emitted.items()):
    run.ob(R1, enc.qualname, "code %r" % code, "emitted code is decoded by decode_object and "
           "known to Node's GristObjCode", code in accepted and code in tsvals, fi=enc.fi,
           node=node, nontrivial=False)
  for code in sorted(accepted):
    run.ob(R1, dec.qualname, "code %r" % code, "accepted code is a GristObjCode member",
           code in tsvals, fi=dec.fi, nontrivial=False)
  # unknown codes yield a value (RaisedException), never an exception
  trys = [s for s in dec.node.body if isinstance(s, ast.Try)]
  ok = len(trys) == 1 and any(h.type is not None and text(h.type) == "Exception" or h.type is None
                              for h in trys[0].handlers) and \
      all(any(isinstance(x, ast.Return) for x in h.body) for h in trys[0].handlers)
  run.ob(R1, dec.qualname, "except Exception: return RaisedException(e)",
         "decoding never raises", ok, fi=dec.fi)


def _exact_guard_names(fn):
  """Names that are exact primitives inside the `if` whose test is `type(x) in (str, float, ...)
  or x is None`: returns {id(if-stmt): name}."""
  out = {}
  for n in ast.walk(fn.node):
    if isinstance(n, ast.If):
      parts = n.test.values if isinstance(n.test, ast.BoolOp) and isinstance(n.test.op, ast.Or) \
          else [n.test]
      names = set()
      ok = True
      for p in parts:
        if isinstance(p, ast.Compare) and isinstance(p.ops[0], ast.In) and \
            isinstance(p.left, ast.Call) and dotted(p.left.func) == "type" and \
            isinstance(p.comparators[0], (ast.Tuple, ast.List)) and \
            all(dotted(e) in ("str", "float", "bool", "int", "bytes", "list", "tuple") for e in
                p.comparators[0].elts):
          names.add(text(p.left.args[0]))
        elif isinstance(p, ast.Compare) and isinstance(p.ops[0], ast.Is) and \
            isinstance(p.comparators[0], ast.Constant) and p.comparators[0].value is None:
          names.add(text(p.left))
        else:
          ok = False
      if ok and len(names) == 1:
        out[id(n)] = names.pop()
  return out


def r2_marshal_safety(run, w):
  R2 = run.rule("C24-R2", "every leaf of every value returned by encode_object is an exact "
                "primitive, a recursive result or a named trusted field", floor=20)
  fn = w.fn("objtypes.encode_object")
  exact_ifs = _exact_guard_names(fn)

  def exact_in_scope(ret):
    # is `ret` inside the body of an exact-type guard?  returns the guarded name or None
    for n in ast.walk(fn.node):
      if isinstance(n, ast.If) and id(n) in exact_ifs and any(x is ret for b in n.body
                                                              for x in ast.walk(b)):
        return exact_ifs[id(n)]
    return None

  def classify(e, ret):
    """'' when e is provably marshal-safe, else a reason."""
    if isinstance(e, ast.Constant):
      return ""
    t = text(e)
    if t in TRUSTED:
      return ""
    if isinstance(e, ast.Call):
      d = dotted(e.func)
      if d in EXACT_CTORS:
        return ""
      if d == "encode_object":
        return ""
      if isinstance(e.func, ast.Attribute) and e.func.attr == "decode":
        return ""       # bytes.decode -> exact str
      return "result of %s() is not known to be an exact primitive" % (d or short(e.func))
    if isinstance(e, ast.Name):
      if exact_in_scope(ret) == e.id:
        return ""
      return "%s is known only through isinstance(); a subclass instance is not marshallable" % e.id
    if isinstance(e, (ast.List, ast.Tuple)):
      for x in e.elts:
        r = classify(x, ret)
        if r:
          return r
      return ""
    if isinstance(e, ast.ListComp):
      return classify(e.elt, ret)
    if isinstance(e, ast.DictComp):
      return classify(e.key, ret) or classify(e.value, ret)
    if isinstance(e, ast.Dict):
      for k, v in zip(e.keys, e.values):
        r = (classify(k, ret) if k is not None else "** expansion") or classify(v, ret)
        if r:
          return r
      return ""
    if isinstance(e, ast.BinOp) and isinstance(e.op, ast.Add):
      return classify(e.left, ret) or classify(e.right, ret)
    if isinstance(e, ast.IfExp):
      return classify(e.body, ret) or classify(e.orelse, ret)
    return "expression %s is not provably an exact primitive" % short(e)

  rets = [n for n in ast.walk(fn.node) if isinstance(n, ast.Return) and n.value is not None]
  if len(rets) < 15:
    raise AnalysisError("encode_object: fewer than 15 returns found")
  for r in rets:
    reason = classify(r.value, r)
    run.ob(R2, fn.qualname, "return " + short(r.value, 80), "returned value is built only from "
           "exact primitives, recursive results and trusted fields", not reason,
           witness=reason or None, fi=fn.fi, node=r)
  # the whole body is fenced: anything that raises becomes ['U', safe_repr(value)]
  trys = [s for s in fn.node.body if isinstance(s, ast.Try)]
  ok = len(trys) == 1 and any(h.type is None or text(h.type) in ("Exception", "BaseException")
                              for h in trys[0].handlers)
  last = fn.node.body[-1]
  ok = ok and isinstance(last, ast.Return) and isinstance(last.value, ast.List) and \
      text(last.value.elts[0]) == "'U'"
  run.ob(R2, fn.qualname, "try: ... except Exception: pass; return ['U', safe_repr(value)]",
         "encoding is total: a failure yields an unmarshallable-value marker, not an exception",
         ok, fi=fn.fi)
  # the dict branch rejects non-string keys before building the object
  dict_ret = [r for r in rets if isinstance(r.value, ast.List) and r.value.elts and
              text(r.value.elts[0]) == "'O'"]
  ok = False
  for r in dict_ret:
    for n in ast.walk(fn.node):
      if isinstance(n, ast.If) and any(x is r for b in n.body for x in ast.walk(b)):
        for s in n.body:
          if isinstance(s, ast.If) and any(isinstance(x, ast.Raise) for x in s.body) and \
              "isinstance(key, str)" in text(s.test):
            ok = True
  run.ob(R2, fn.qualname, "if not all(isinstance(key, str) ...): raise UnmarshallableError",
         "dicts with non-string keys are not emitted as objects", ok, fi=fn.fi)
  # RaisedException fields: every assignment to _name/_message/details is an exact str or None
  cls = w.repo.cls("objtypes.RaisedException")
  fields = ("_name", "_message", "details")
  for mname, m in sorted(cls.methods.items()):
    if mname in ("decode_args", "no_traceback"):
      continue   # copies of already-encoded fields / decoded (marshalled) input
    for n in ast.walk(m.node):
      if isinstance(n, (ast.Assign, ast.AugAssign)):
        tg = n.targets[0] if isinstance(n, ast.Assign) else n.target
        if isinstance(tg, ast.Attribute) and tg.attr in fields and text(tg.value) == "self":
          v = n.value
          ok = _exact_str(v)
          run.ob(R2, m.qualname, short(n, 80), "exception field sent to Node is an exact str "
                 "or None", ok, fi=m, node=n)
  # RecordSet._get_encodable_row_ids returns an exact list/tuple: the stored row ids only under an
  # exact-type test, otherwise rebuilt with list()/tuple()
  ge = w.fn("records.RecordSet._get_encodable_row_ids")
  exact = _exact_guard_names(ge)
  for r in [n for n in ast.walk(ge.node) if isinstance(n, ast.Return) and n.value is not None]:
    v = r.value
    ok = isinstance(v, ast.Call) and dotted(v.func) in ("list", "tuple")
    if not ok:
      for n in ast.walk(ge.node):
        if isinstance(n, ast.If) and id(n) in exact and exact[id(n)] == text(v) and \
            any(x is r for b in n.body for x in ast.walk(b)):
          tst = n.test
          ok = isinstance(tst, ast.Compare) and all(
            dotted(e) in ("list", "tuple") for e in tst.comparators[0].elts)
    run.ob(R2, ge.qualname, "return " + short(v), "row ids leave as an exact list/tuple (a list "
           "subclass such as RecordList is not marshallable)", ok, fi=ge.fi, node=r)
  ea = w.fn("objtypes.RaisedException.encode_args")
  ok = any(isinstance(n, ast.Dict) and [text(k) for k in n.keys] == ["'u'"] and
           isinstance(n.values[0], ast.Call) and dotted(n.values[0].func) == "encode_object"
           for n in ast.walk(ea.node))
  run.ob(R2, ea.qualname, "{'u': encode_object(self.user_input)}", "user input kept with an "
         "exception is itself encoded", ok, fi=ea.fi)


def r4_exception_roundtrip(run, w):
  R4 = run.rule("C24-R4", "RaisedException args: the decoder restores the remembered user input "
                "by key presence (None is a value), mirroring the encoder", floor=2)
  ea = w.fn("objtypes.RaisedException.encode_args")
  # encoder: {"u": ...} exactly when has_user_input()
  ok = False
  for n in ast.walk(ea.node):
    if isinstance(n, ast.If) and text(n.test) == "self.has_user_input()":
      ok = any(isinstance(x, ast.Dict) and [text(k) for k in x.keys] == ["'u'"]
               for b in n.body for x in ast.walk(b)) and \
          any(isinstance(x, ast.Assign) and isinstance(x.value, ast.Constant) and
              x.value.value is None for b in n.orelse for x in ast.walk(b))
  run.ob(R4, ea.qualname, "user_input = {'u': encode_object(...)} if self.has_user_input() else None",
         "the 'u' key is present exactly when an input was remembered", ok, fi=ea.fi)
  hu = w.fn("objtypes.RaisedException.has_user_input")
  rets = [n for n in ast.walk(hu.node) if isinstance(n, ast.Return)]
  ok = len(rets) == 1 and text(rets[0].value).replace("RaisedException.", "self.") in \
      ("self.user_input is not self.NO_INPUT",)
  run.ob(R4, hu.qualname, "user_input is not NO_INPUT", "absence of input is the NO_INPUT "
         "sentinel, not None", ok, fi=hu.fi)
  da = w.fn("objtypes.RaisedException.decode_args")
  cfg = da.cfg
  sets = [n for n in cfg.nodes if n.kind == "stmt" and isinstance(n.stmt, ast.Assign) and
          text(n.stmt.targets[0]).endswith(".user_input")]
  final = [n for n in sets if not (cfg.reach_after({n.id}) & {m.id for m in sets})]
  ok = len(final) == 1 and cfg.dominated_by(cfg.exit.id, {final[0].id})
  if ok:
    v = final[0].stmt.value
    gets = [c for c in calls_in(v) if isinstance(c.func, ast.Attribute) and c.func.attr == "get"
            and c.args and text(c.args[0]) in ("'u'", '"u"')]
    ok = isinstance(v, ast.Call) and dotted(v.func) == "decode_object" and len(gets) == 1 and \
        len(gets[0].args) == 2 and text(gets[0].args[1]).endswith("NO_INPUT")
  run.ob(R4, da.qualname, "exc.user_input = decode_object(d.get('u', NO_INPUT)) on every path",
         "a remembered input of None (or any falsy value) is restored; only a missing key means "
         "no input", ok, fi=da.fi)


def _exact_str(v):
  if isinstance(v, ast.Constant):
    return v.value is None or isinstance(v.value, str)
  if isinstance(v, ast.Call):
    d = dotted(v.func)
    if d in ("str", "repr", "traceback.format_exc", "friendly_errors.friendly_message"):
      return True
    if isinstance(v.func, ast.Attribute) and v.func.attr in ("format", "join"):
      return True
    return False
  if isinstance(v, ast.BinOp) and isinstance(v.op, ast.Add):
    return _exact_str(v.left) and (_exact_str(v.right) or isinstance(v.right, ast.Name))
  if isinstance(v, ast.Attribute):
    # type(error).__name__ ; error.typename / error.value of InvalidTypedValue (built from str())
    return text(v) in ("type(error).__name__", "error.typename", "error.value")
  return False


def r3_reply_paths(run, w):
  R3 = run.rule("C24-R3", "actions in replies pass through get_action_repr; action values are "
                "encoded and decoded through the same recursive walker", floor=8)
  ga = w.fn("actions.get_action_repr")
  ok = any(dotted(c.func) == "encode_objects" for c in calls_in(ga.node))
  run.ob(R3, ga.qualname, "list(encode_objects(action_obj))", "get_action_repr encodes every "
         "cell value", ok, fi=ga.fi)
  eo, do = w.fn("actions.encode_objects"), w.fn("actions.decode_objects")
  ok = any(dotted(c.func) == "convert_recursive_in_action" and
           text(c.args[0]) == "objtypes.encode_object" for c in calls_in(eo.node)) and \
      any(dotted(c.func) == "convert_recursive_in_action" and text(c.args[0]) == do.fi.params()[1]
          for c in calls_in(do.node)) and \
      text(do.node.args.defaults[0]) == "objtypes.decode_object"
  run.ob(R3, eo.qualname, "encode/decode share convert_recursive_in_action",
         "the same positions of an action are encoded on the way out and decoded on the way in",
         ok, fi=eo.fi)
  ar = w.fn("actions.action_from_repr")
  ok = any(dotted(c.func) == "decode_objects" for c in calls_in(ar.node))
  run.ob(R3, ar.qualname, "decode_objects(action_type(*doc_action[1:]))", "incoming actions are "
         "decoded", ok, fi=ar.fi)
  # every list of actions placed in a reply is mapped through get_action_repr
  for q, attrs in (("action_obj.ActionGroup.get_repr", ("calc", "stored", "undo")),
                   ("action_obj.ActionBundle.to_json_obj", ("stored", "calc", "undo"))):
    fn = w.fn(q)
    for a in attrs:
      ok = False
      for n in ast.walk(fn.node):
        if isinstance(n, ast.ListComp) and text(n.generators[0].iter) == "self." + a:
          ok = any(endswith(dotted(c.func), "get_action_repr") for c in calls_in(n.elt))
      run.ob(R3, q, "[... get_action_repr(a) ... for a in self.%s]" % a,
             "actions of the %s list are encoded before leaving the sandbox" % a, ok, fi=fn.fi)
  mod = w.repo.module("main")
  for name in ("fetch_table", "fetch_meta_tables", "create_migrations"):
    q = "main.run." + name
    fn = w.fn(q)
    rets = [n for n in ast.walk(fn.node) if isinstance(n, ast.Return)]
    ok = bool(rets) and all(any(endswith(dotted(c.func), "get_action_repr")
                                for c in calls_in(r.value)) for r in rets)
    run.ob(R3, q, "return ... actions.get_action_repr(...)", "table data returned to Node is "
           "encoded", ok, fi=fn.fi)
  fe = w.fn("main.run.get_formula_error")
  rets = [n for n in ast.walk(fe.node) if isinstance(n, ast.Return)]
  ok = bool(rets) and all(isinstance(r.value, ast.Call) and
                          endswith(dotted(r.value.func), "encode_object") for r in rets)
  run.ob(R3, fe.qualname, "return objtypes.encode_object(...)", "formula errors returned to Node "
         "are encoded", ok, fi=fe.fi)


O = "sandbox/grist/objtypes.py"
VARIANTS = [
  ("dict-key-uncast", O, "return ['O', {str(key): encode_object(val) for key, val in value.items()}]",
   "return ['O', {key: encode_object(val) for key, val in value.items()}]", "C24-R2"),
  ("str-subclass-returned", O, "    elif isinstance(value, str):\n      return str(value)",
   "    elif isinstance(value, str):\n      return value", "C24-R2"),
  ("int-subclass-returned", O, "      return int(value)\n", "      return value\n", "C24-R2"),
  ("list-items-not-encoded", O, "      return ['L'] + [encode_object(item) for item in value]",
   "      return ['L'] + list(value)", "C24-R2"),
  ("dict-values-not-encoded", O, "{str(key): encode_object(val) for key, val in value.items()}",
   "{str(key): val for key, val in value.items()}", "C24-R2"),
  ("nonstring-keys-allowed", O, """      if not all(isinstance(key, str) for key in value):
        raise UnmarshallableError("Dict with non-string keys")
""", "", "C24-R2"),
  ("new-code-unknown-to-decoder", O, "      return ['P']", "      return ['p']", "C24-R1"),
  ("decoder-drops-code", O, "    elif code == 'C':\n      return _censored_sentinel\n", "", "C24-R1"),
  ("exception-message-raw", O, "    elif include_message:\n      self._message = str(error) + location",
   "    elif include_message:\n      self._message = error.args[0] if error.args else None", "C24-R2"),
  ("row-ids-isinstance", "sandbox/grist/records.py", "    if type(self._row_ids) in (list, tuple):", "    if isinstance(self._row_ids, (list, tuple)):", "C24-R2"),
  ("decode-drops-none-input", O, '    exc.user_input = decode_object(exc.user_input.get("u", RaisedException.NO_INPUT))',
   '    saved = exc.user_input.get("u")\n    exc.user_input = decode_object(saved) if saved is not None else RaisedException.NO_INPUT', "C24-R4"),
  ("stored-not-encoded", "sandbox/grist/action_obj.py",
   '"stored":   [actions.get_action_repr(a) for a in self.stored],', '"stored":   [list(a) for a in self.stored],', "C24-R3"),
  ("fetch-table-raw", "sandbox/grist/main.py",
   "    return actions.get_action_repr(eng.fetch_table(table_id, formulas=formulas, query=query))",
   "    return list(eng.fetch_table(table_id, formulas=formulas, query=query))", "C24-R3"),
]
