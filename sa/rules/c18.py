"""C18 Circular references terminate and are reported on the cycle -- lock pairing (narrow claim)."""
import ast
from ..fn import World
from ..index import AnalysisError, dotted
from ..astutil import text, short, endswith, calls_in, walk_no_nested, names_loaded
from ..dataflow import DefUse
from .. import events as E
from ._h_A import (FactReach, nodes_of_stmts, nodes_for, kwarg, is_const, stmts_in, attr_sites)
from .c06 import Scan, STEP, LOOP, ONE

EXPLANATION = (
  "Narrow claim: the lock bookkeeping that turns 'cell A is waiting for something that needs A' "
  "into a CircularRefError is paired correctly. R1: in _update_loop every lock added to "
  "_locked_cells names the interrupted (requiring) cell and travels in the locks of the work item "
  "pushed for its dependency; the interrupted item keeps its own locks (they are not released "
  "early); after every work item its locks are released; _pre_update starts each frame with an "
  "empty lock set; nobody else writes the set. R2: _recompute_step computes `cycle` for a required "
  "row from membership of (node, row) in _locked_cells and hands it to _recompute_one_cell, which "
  "raises CircularRefError before any user code runs, inside the guarded region that turns "
  "exceptions into the cell's value. R3: BaseColumn.get_cell_value re-raises a stored "
  "CircularRefError unwrapped, so cells further along the cycle hold CircularRefError, not "
  "CellError. Not decided: termination (the scheduler's progress argument), and the exact set of "
  "cells reported.")

LOCKS = "_locked_cells"


def check(run, repo, tier):
  w = World(repo)
  sc = Scan(w)
  r1_lock_pairing(run, w, sc)
  r2_cycle_flag(run, w, sc)
  r3_unwrapped(run, w)


# ------------------------------------------------------------------------------------------
def _loop_roles(w):
  fn = w.fn(LOOP)
  cfg = fn.xcfg
  p_items = fn.fi.params()[1]
  pops = [n for n in cfg.nodes if n.kind == "stmt" and isinstance(n.stmt, ast.Assign) and
          isinstance(n.stmt.value, ast.Call) and isinstance(n.stmt.value.func, ast.Attribute) and
          n.stmt.value.func.attr in ("pop", "popleft") and
          text(n.stmt.value.func.value) == p_items]
  if len(pops) != 1 or not isinstance(pops[0].stmt.targets[0], ast.Tuple) or \
      len(pops[0].stmt.targets[0].elts) != 3:
    raise AnalysisError("%s: `node, row_ids, locks = work_items.pop()` not found" % LOOP)
  pop = pops[0]
  v_node, v_rows, v_locks = [text(e) for e in pop.stmt.targets[0].elts]
  steps = [(n, c) for (n, c, nm) in fn.calls(cfg) if nm == "self._recompute_step"]
  if len(steps) != 1:
    raise AnalysisError("%s: expected one _recompute_step call" % LOOP)
  sn, scall = steps[0]
  tries = [s for s in stmts_in(fn.node.body, ast.Try) if any(sn.stmt is x for x in s.body)]
  if len(tries) != 1:
    raise AnalysisError("%s: _recompute_step call is not directly inside one try" % LOOP)
  hs = [h for h in tries[0].handlers if h.type is not None and dotted(h.type) == "OrderError"
        and h.name]
  if len(hs) != 1:
    raise AnalysisError("%s: `except OrderError as e` handler not found" % LOOP)
  return fn, cfg, p_items, pop, (v_node, v_rows, v_locks), sn, tries[0], hs[0]


def r1_lock_pairing(run, w, sc):
  R1 = run.rule("C18-R1", "every lock added names the requiring cell and rides in the locks of the "
                "dependency's work item; an interrupted item keeps its locks; locks are released "
                "after every work item; each frame starts unlocked; single owner", floor=13)
  fn, cfg, p_items, pop, (v_node, v_rows, v_locks), sn, tr, h = _loop_roles(w)
  ev = h.name
  hn = {n.id for n in cfg.nodes if n.kind == "handler" and n.stmt is h}
  hbody = nodes_of_stmts(cfg, h.body)
  du = DefUse(fn, cfg)
  # ---- (a) adds
  adds = [(n, c) for (n, c, nm) in fn.calls(cfg)
          if endswith(nm, "self.%s.add" % LOCKS)]
  if not adds:
    raise AnalysisError("%s: no self._locked_cells.add(...)" % LOOP)
  deps = [(n, c) for (n, c, nm) in fn.calls(cfg) if n.id in hbody and
          isinstance(c.func, ast.Attribute) and c.func.attr == "append" and
          text(c.func.value) == p_items and len(c.args) == 1 and
          isinstance(c.args[0], ast.Call) and dotted(c.args[0].func) == "WorkItem" and
          len(c.args[0].args) == 3 and text(c.args[0].args[0]) == "%s.node" % ev]
  curs = [(n, c) for (n, c, nm) in fn.calls(cfg) if n.id in hbody and
          isinstance(c.func, ast.Attribute) and c.func.attr == "append" and
          text(c.func.value) == p_items and len(c.args) == 1 and
          isinstance(c.args[0], ast.Call) and dotted(c.args[0].func) == "WorkItem" and
          len(c.args[0].args) == 3 and text(c.args[0].args[0]) == v_node]
  if len(deps) != 1 or len(curs) != 1:
    raise AnalysisError("%s: handler's two pushes (interrupted item, dependency) not recognised"
                        % LOOP)
  (dn, dc), (cn, cc) = deps[0], curs[0]
  for (an, ac) in adds:
    a = ac.args[0] if len(ac.args) == 1 else None
    in_h = an.id in hbody
    run.ob(R1, fn.qualname, short(ac), "locks are taken only when an OrderError re-orders work",
           in_h and isinstance(a, ast.Name), fi=fn.fi, node=ac, nontrivial=False)
    if not (in_h and isinstance(a, ast.Name)):
      continue
    lk = a.id
    third = dc.args[0].args[2]
    ok = isinstance(third, ast.List) and any(isinstance(e, ast.Name) and e.id == lk
                                             for e in third.elts)
    # same value: the lock variable is not rebound between the push and the add
    reb = du.rebinders(lk)
    lo, hi = (dn.id, an.id) if an.id in cfg.reach_after({dn.id}, removed=hn) else (an.id, dn.id)
    between = cfg.reach_after({lo}, removed={hi} | hn) & cfg.reach({hi}, removed={lo} | hn,
                                                                forward=False)
    ok = ok and not (between & reb)
    run.ob(R1, fn.qualname, "%s  <->  %s" % (short(ac, 50), short(dc, 60)),
           "the lock put into the set is the one the dependency's work item will release", ok,
           fi=fn.fi, node=dc,
           witness=None if ok else "lock %s is not in the locks of the pushed dependency item" % lk)
    # both happen on every normal path through the handler
    exits = {m for m in cfg.reach_after(hn) if m not in hbody and m not in hn
             and m != cfg.raise_exit.id}
    ok = not (cfg.reach(set(hn), removed={dn.id}) & exits) and \
        not (cfg.reach(set(hn), removed={an.id}) & exits)
    run.ob(R1, fn.qualname, "handler always both locks and pushes",
           "no lock without an item that will release it, no re-ordering without a lock", ok,
           fi=fn.fi, node=h)
    # identity of the lock: (popped node, e.requiring_row_id)
    defs = E.local_defs(fn.node, lk)
    hdefs = [d for d in defs if any(d is x for s in h.body for x in ast.walk(s))]
    ok = len(hdefs) == 1 and isinstance(hdefs[0], ast.Tuple) and len(hdefs[0].elts) == 2 and \
        text(hdefs[0].elts[0]) in (v_node, "%s.requiring_node" % ev) and \
        text(hdefs[0].elts[1]) == "%s.requiring_row_id" % ev
    run.ob(R1, fn.qualname, "%s = %s" % (lk, short(hdefs[0]) if hdefs else "?"),
           "the locked cell is the interrupted (requiring) cell: meeting it again while its "
           "dependency is being computed is exactly a cycle", ok, fi=fn.fi, node=h)
  # ---- (b) interrupted item keeps its locks
  wi = cc.args[0]
  clears = {n.id for n in cfg.nodes if n.id in hbody and n.kind == "stmt" and
            isinstance(n.stmt, ast.Assign) and text(n.stmt.targets[0]) == v_locks and
            isinstance(n.stmt.value, ast.List) and not n.stmt.value.elts}
  rel_loops = [s for s in stmts_in(fn.node.body, ast.For)
               if isinstance(s.iter, ast.Name) and s.iter.id == v_locks]
  if len(rel_loops) != 1:
    raise AnalysisError("%s: release loop `for lock in locks` not found" % LOOP)
  rl = rel_loops[0]
  rl_nodes = nodes_for(cfg, rl)
  ok = text(wi.args[2]) == v_locks and bool(clears) and \
      not (cfg.reach(set(hn), removed=clears) & rl_nodes) and \
      all(cfg.dominated_by(c, {cn.id}) for c in clears)
  run.ob(R1, fn.qualname, "%s; %s = []" % (short(cc, 60), v_locks),
         "an interrupted item is re-pushed with its locks and does not release them now: they stay "
         "locked until the item really completes", ok, fi=fn.fi, node=cc,
         witness=None if ok else "a path from the handler reaches the release loop with the "
         "interrupted item's locks still in `%s`" % v_locks)
  # ---- (c) release after every work item
  inner = [s for s in stmts_in(fn.node.body, ast.While) if any(x is tr for x in s.body)]
  if len(inner) != 1:
    raise AnalysisError("%s: inner `while work_items` loop not found" % LOOP)
  wh = nodes_for(cfg, inner[0])
  ok = not (cfg.reach_after({sn.id}, removed=rl_nodes, completed=True) & wh)
  run.ob(R1, fn.qualname, "for %s in %s: ... after every completed work item"
         % (text(rl.target), v_locks),
         "no work item completes without its locks being examined for release", ok, fi=fn.fi,
         node=rl, witness=None if ok else "after _recompute_step returns normally the loop can go "
         "on to the next item without releasing")
  lv = rl.target.id if isinstance(rl.target, ast.Name) else None
  rb = nodes_of_stmts(cfg, rl.body)
  rels = {n.id for (n, c, nm) in fn.calls(cfg) if n.id in rb and
          endswith(nm, "self.%s.discard" % LOCKS, "self.%s.remove" % LOCKS) and
          len(c.args) == 1 and text(c.args[0]) == lv}
  # the only way round the release is the `already unlocked` shortcut
  skips = [s for s in stmts_in(rl.body, ast.Continue)]
  ok_skips = True
  for s in skips:
    par = [x for x in stmts_in(rl.body, ast.If) if any(y is s for y in x.body)]
    ok_skips = ok_skips and len(par) == 1 and \
        text(par[0].test) == "%s not in self.%s" % (lv, LOCKS)
  heads = rl_nodes
  first = {m for hd in heads for m in cfg.normal_succ(hd) if m in rb}
  conts = {n.id for n in cfg.nodes if n.id in rb and n.kind == "continue"}
  ok = bool(rels) and ok_skips and not (cfg.reach(first, removed=rels | conts) & heads)
  run.ob(R1, fn.qualname, "self.%s.discard(%s) for every lock still held" % (LOCKS, lv),
         "a completed work item's locks leave the set (a lock left behind would report later, "
         "innocent readers of the cell as circular)", ok, fi=fn.fi, node=rl)
  # ---- (d) each frame starts unlocked
  pre = w.fn("engine.Engine._pre_update")
  pcfg = pre.cfg
  resets = set()
  for n in pcfg.nodes:
    if n.kind == "stmt" and isinstance(n.stmt, ast.Assign) and \
        text(n.stmt.targets[0]) == "self.%s" % LOCKS and \
        ((isinstance(n.stmt.value, ast.Call) and dotted(n.stmt.value.func) == "set" and
          not n.stmt.value.args) or
         (isinstance(n.stmt.value, ast.Set) and not n.stmt.value.elts)):
      resets.add(n.id)
    for c in calls_in(n.exprs):
      if endswith(pre.name(c), "self.%s.clear" % LOCKS):
        resets.add(n.id)
  ok = bool(resets) and pcfg.postdominated_by(pcfg.entry.id, resets)
  run.ob(R1, pre.qualname, "self.%s = set()" % LOCKS, "locks left over from an aborted frame "
         "cannot make the next recalculation report cycles that do not exist", ok, fi=pre.fi)
  # ---- (e) ownership
  allowed = {
    ("engine.Engine.__init__", "rebind"), ("engine.Engine._pre_update", "rebind"),
    (LOOP, "add"), (LOOP, "discard"), (LOOP, "read"),
    (STEP, "discard"), (STEP, "read"),
  }
  for fi in w.repo.all_functions():
    for site in attr_sites(fi, LOCKS):
      kind = site[0]
      if kind == "call":
        what = site[1]
        node = site[2]
      else:
        what = kind
        node = site[1]
      if kind == "escape":
        raise AnalysisError("%s: _locked_cells escapes (`%s`); ownership cannot be decided"
                            % (fi.qualname, short(node)))
      run.ob(R1, fi.qualname, "%s of %s" % (what, LOCKS), "the lock set is written only by the "
             "scheduler, the evaluation step (unlock on success) and the frame reset",
             (fi.qualname, what) in allowed, fi=fi, node=node, nontrivial=False)


# ------------------------------------------------------------------------------------------
def r2_cycle_flag(run, w, sc):
  R2 = run.rule("C18-R2", "`cycle` is (required and (node, row) in _locked_cells), is handed to "
                "_recompute_one_cell, and makes it raise CircularRefError before any user code, "
                "inside the region that turns exceptions into the cell's value", floor=7)
  fn = sc.fn
  ev = sc.eval
  cy = kwarg(ev, "cycle", 3)
  run.ob(R2, fn.qualname, short(ev, 90), "the evaluation is told whether the cell is locked",
         cy is not None, fi=fn.fi, node=ev, nontrivial=False)
  if cy is not None:
    val = cy
    if isinstance(cy, ast.Name):
      ds = E.local_defs(fn.node, cy.id)
      if len(ds) != 1:
        raise AnalysisError("%s: `%s` has %d definitions" % (STEP, cy.id, len(ds)))
      val = ds[0]
      # defined in the same iteration, before the call
      cfg = fn.cfg
      dn = {n.id for n in cfg.nodes if n.kind == "stmt" and isinstance(n.stmt, ast.Assign) and
            n.stmt.value is val}
      en = sc.eval_nodes(cfg)
      head = sc.head(cfg)
      ok = all(e in cfg.reach_after(dn, removed={head}) for e in en) and \
          all(cfg.dominated_by(e, dn) for e in en)
      run.ob(R2, fn.qualname, "%s = ... before %s" % (cy.id, short(ev, 40)),
             "the flag handed over is the one computed for this row", ok, fi=fn.fi, node=ev)
    conj = val.values if isinstance(val, ast.BoolOp) and isinstance(val.op, ast.And) else [val]
    member = [c for c in conj if isinstance(c, ast.Compare) and len(c.ops) == 1 and
              isinstance(c.ops[0], ast.In) and text(c.comparators[0]) == "self.%s" % LOCKS]
    others = [c for c in conj if c not in member]
    if len(member) != 1 or any(not isinstance(o, ast.Name) for o in others):
      raise AnalysisError("%s: cycle flag `%s` is not a recognised shape" % (STEP, short(val)))
    m = member[0].left
    ok = isinstance(m, ast.Tuple) and len(m.elts) == 2 and text(m.elts[0]) == sc.p_node and \
        text(m.elts[1]) == sc.row
    run.ob(R2, fn.qualname, short(member[0]), "the membership test uses the same (node, row) key "
           "shape the scheduler locks with", ok, fi=fn.fi, node=val)
    ok = [o.id for o in others] == [sc.flag]
    run.ob(R2, fn.qualname, short(val), "only a row the scheduler asked for can be a cycle: a "
           "locked cell met opportunistically is merely waiting for its dependency", ok,
           fi=fn.fi, node=val)
  # ---- _recompute_one_cell
  one = w.fn(ONE)
  cfg = one.xcfg
  if "cycle" not in one.fi.params():
    raise AnalysisError("%s: parameter `cycle` vanished" % ONE)
  methods = one.nodes_calling(lambda c, nm, f: isinstance(c.func, ast.Attribute) and
                              c.func.attr == "method", cfg)
  if not methods:
    raise AnalysisError("%s: user-code call (col.method) not found" % ONE)
  fr = FactReach(cfg, {"cycle"})
  seen = fr.run([(cfg.entry.id, {"cycle": True})])
  hit = sorted(set(seen) & methods)
  circ = [n for n in seen if cfg.nodes[n].kind == "raise_stmt" and
          cfg.nodes[n].stmt.exc is not None and
          endswith(dotted(cfg.nodes[n].stmt.exc.func) if isinstance(cfg.nodes[n].stmt.exc, ast.Call)
                   else dotted(cfg.nodes[n].stmt.exc), "CircularRefError")]
  ok = not hit and bool(circ)
  run.ob(R2, one.qualname, "if cycle: raise depend.CircularRefError(...) before col.method(...)",
         "a cell on a cycle is never evaluated (its formula would read itself); it fails with "
         "CircularRefError instead", ok, fi=one.fi,
         witness=None if ok else ("user code at line %d runs with cycle=True"
                                  % cfg.nodes[hit[0]].lineno if hit else
                                  "no CircularRefError raise reachable with cycle=True"))
  # the raise is converted into the cell's value: inside the try with the bare except, whose
  # non-order-error exit returns RaisedException(<the caught exception>)
  tries = [s for s in stmts_in(one.node.body, ast.Try)
           if any(h.type is None for h in s.handlers)]
  if len(tries) != 1:
    raise AnalysisError("%s: try with a bare except not found" % ONE)
  tr = tries[0]
  tb = nodes_of_stmts(cfg, tr.body)
  for n in circ:
    run.ob(R2, one.qualname, "raise CircularRefError inside try ... except:",
           "the circular-reference error becomes the cell's value, not an engine failure",
           n in tb, fi=one.fi, node=cfg.nodes[n].stmt)
  h = [x for x in tr.handlers if x.type is None][0]
  rets = [s for s in stmts_in(h.body, ast.Return)]
  du = DefUse(one, cfg)
  for r in rets:
    v = r.value
    ok = isinstance(v, ast.Call) and endswith(dotted(v.func), "RaisedException") and v.args and \
        du.flows_from(lambda x: isinstance(x, ast.Call) and dotted(x.func) == "sys.exc_info",
                      v.args[0])
    run.ob(R2, one.qualname, short(r, 90), "the value stored for a failed cell wraps the exception "
           "that was actually raised (here: the CircularRefError)", ok, fi=one.fi, node=r)


# ------------------------------------------------------------------------------------------
NO_STORED_ERRORS = {
  "lookup.NoValueColumn": "lookup-map helper columns store no cell values at all",
}


def r3_unwrapped(run, w):
  R3 = run.rule("C18-R3", "get_cell_value re-raises a stored CircularRefError itself, before the "
                "generic CellError wrapping", floor=4)
  fn = w.fn("column.BaseColumn.get_cell_value")
  cfg = fn.cfg
  wraps = [n for n in cfg.nodes if n.kind == "raise_stmt" and isinstance(n.stmt.exc, ast.Call) and
           endswith(dotted(n.stmt.exc.func), "CellError")]
  if not wraps:
    raise AnalysisError("get_cell_value: the CellError wrapping raise was not found")
  tests = []
  for n in cfg.nodes:
    if n.kind != "if":
      continue
    t = n.stmt.test
    if isinstance(t, ast.Call) and dotted(t.func) == "isinstance" and len(t.args) == 2 and \
        endswith(dotted(t.args[1]), "CircularRefError"):
      tests.append(n)
  ok_shape = len(tests) == 1
  run.ob(R3, fn.qualname, "isinstance(<stored>.error, depend.CircularRefError) branch exists",
         "stored circular-reference errors are told apart from other stored errors", ok_shape,
         fi=fn.fi, nontrivial=False)
  if ok_shape:
    t = tests[0]
    subj = t.stmt.test.args[0]
    b0 = t.stmt.body[0] if t.stmt.body else None
    ok = isinstance(b0, ast.Raise) and b0.exc is not None and text(b0.exc) == text(subj) and \
        isinstance(subj, ast.Attribute) and subj.attr == "error"
    run.ob(R3, fn.qualname, "if %s: raise %s" % (short(t.stmt.test), text(subj)),
           "the original CircularRefError object is re-raised, so the reading cell's value is a "
           "CircularRefError too", ok, fi=fn.fi, node=t.stmt)
    for wn in wraps:
      ok = cfg.dominated_by(wn.id, {t.id}) and \
          not any(wn.stmt is x for s in t.stmt.body for x in ast.walk(s))
      run.ob(R3, fn.qualname, short(wn.stmt, 80), "the generic wrapping is reached only after the "
             "circular-reference test failed", ok, fi=fn.fi, node=wn.stmt)
    # the stored value examined is this cell's raw value
    base = subj.value if isinstance(subj, ast.Attribute) else None
    ds = E.local_defs(fn.node, base.id) if isinstance(base, ast.Name) else []
    ok = any(isinstance(d, ast.Call) and isinstance(d.func, ast.Attribute) and
             d.func.attr == "raw_get" and len(d.args) == 1 and
             text(d.args[0]) == fn.fi.params()[1] for d in ds)
    run.ob(R3, fn.qualname, "%s = self.raw_get(%s)" % (text(base) if base is not None else "?",
                                                     fn.fi.params()[1]),
           "the error examined is the one stored in the cell being read", ok, fi=fn.fi)
  # overrides
  base_ci = w.repo.cls("column.BaseColumn")
  for ci in w.repo.subclasses(base_ci, strict=True):
    if "get_cell_value" in ci.methods:
      run.ob(R3, ci.qualname, "override of get_cell_value", "a column class that overrides the "
             "accessor stores no error values", ci.qualname in NO_STORED_ERRORS,
             fi=ci.methods["get_cell_value"], nontrivial=False)


EN = "sandbox/grist/engine.py"
VARIANTS = [
  ("lock-not-in-item", EN,
   "work_items.append(WorkItem(e.node, [e.row_id], [lock]))",
   "work_items.append(WorkItem(e.node, [e.row_id], []))", "C18-R1"),
  ("interrupted-item-releases-locks", EN,
   """          work_items.append(WorkItem(node, row_ids, locks))
          locks = []
""",
   """          work_items.append(WorkItem(node, row_ids, locks))
""", "C18-R1"),
  ("locks-never-released", EN,
   """          self._locked_cells.discard(lock)
          # Sanity check: make sure we've computed at least one more cell""",
   """          # Sanity check: make sure we've computed at least one more cell""", "C18-R1"),
  ("frame-keeps-old-locks", EN,
   "    self._recompute_done_map = {}\n    self._locked_cells = set()\n",
   "    self._recompute_done_map = {}\n", "C18-R1"),
  ("lock-on-dependency", EN,
   "          lock = (node, e.requiring_row_id)",
   "          lock = (e.node, e.row_id)", "C18-R1"),
  ("release-only-after-reorder", EN,
   """          self._locked_cells.add(lock)
        # Discard any locks once work item is complete
        for lock in locks:""",
   """          self._locked_cells.add(lock)
        else:
          continue
        # Discard any locks once work item is complete
        for lock in locks:""", "C18-R1"),
  ("cycle-key-swapped", EN,
   "          cycle = required and (node, row_id) in self._locked_cells",
   "          cycle = required and (row_id, node) in self._locked_cells", "C18-R2"),
  ("cycle-not-passed", EN,
   "          value = self._recompute_one_cell(table, col, row_id, cycle=cycle, node=node)",
   "          value = self._recompute_one_cell(table, col, row_id, node=node)", "C18-R2"),
  ("cycle-for-opportunistic-rows", EN,
   "          cycle = required and (node, row_id) in self._locked_cells",
   "          cycle = (node, row_id) in self._locked_cells", "C18-R2"),
  ("cycle-only-for-data-columns", EN,
   """        if cycle:
          raise depend.CircularRefError("Circular Reference")""",
   """        if cycle and not col.is_formula():
          raise depend.CircularRefError("Circular Reference")""", "C18-R2"),
  ("cycle-raised-outside-guard", EN,
   """    value = None
    with self._timing.measure(col.node):
      try:
        if cycle:
          raise depend.CircularRefError("Circular Reference")
        if not col.is_formula():""",
   """    value = None
    if cycle:
      raise depend.CircularRefError("Circular Reference")
    with self._timing.measure(col.node):
      try:
        if not col.is_formula():""", "C18-R2"),
  ("circular-error-wrapped", "sandbox/grist/column.py",
   """        raise raw.error
""",
   """        raise objtypes.CellError(self.table_id, self.col_id, row_id, raw.error)
""", "C18-R3"),
  ("circular-test-on-wrapper", "sandbox/grist/column.py",
   """      elif isinstance(raw.error, depend.CircularRefError):""",
   """      elif isinstance(raw, depend.CircularRefError):""", "C18-R3"),
]
