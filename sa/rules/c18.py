"""C18 Circular references terminate and are reported on the cycle -- lock pairing (narrow claim).

R4 (added): _use_node records the dependency edge of a read before the nested _recompute that may
abort it. The cell the cycle detector refuses to evaluate is never retried, so an edge recorded
only after the read would never exist for it (seeded change C18-edge-recorded-after-recompute).

Decided on the inlined, alias-normalised form of the anchored functions (helpers in _h_A.py; roles
of the scheduler loop shared with C06 through c06.LoopRoles / c06.Scan).
"""
import ast
from ..fn import World
from ..index import AnalysisError, dotted
from ..astutil import text, short, endswith, calls_in, walk_no_nested, names_loaded
from ..dataflow import DefUse
from .. import events as E
from ._h_A import canonicalise
from ._h_A import (FactReach, Facts, nodes_of_stmts, nodes_for, kwarg, is_const, stmts_in,
                   attr_sites, obj_sites, inliner, expander, bind_call, call_arg, real_loops,
                   Owners, followed, returns_of, value_at, deref_at, derefs_at, reaching_defs,
                   innermost_loop, need, opaque_parts, opaque_tests, undissolved, is_frame_reset,
                   loop_breaks)
from .c06 import Scan, LoopRoles, work_item, STEP, LOOP, ONE

EXPLANATION = (
  "Narrow claim: the lock bookkeeping that turns 'cell A is waiting for something that needs A' "
  "into a CircularRefError is paired correctly. R1: in _update_loop every lock added to "
  "_locked_cells names the interrupted (requiring) cell and travels in the locks of the work item "
  "pushed for its dependency; the interrupted item keeps its own locks (they are not released "
  "early); after every work item its locks are released; _pre_update starts each frame with an "
  "empty lock set; nobody else writes the set. R2: _recompute_step computes `cycle` for a required "
  "row from membership of (node, row) in _locked_cells and hands it to _recompute_one_cell, which "
  "raises CircularRefError before any user code runs, inside the guarded region that turns "
  "exceptions into the cell's value. R3: BaseColumn.get_cell_value re-raises a stored "
  "CircularRefError unwrapped, so cells further along the cycle hold CircularRefError, not "
  "CellError. R4: _use_node records the dependency edge of a read before the read can be aborted "
  "(the nested _recompute raising OrderError): the cell the cycle detector refuses to evaluate is "
  "never retried, so an edge recorded only after the read would be missing for it and the cell "
  "would keep its CircularRefError after the cycle is broken elsewhere. R5: _recompute_step forgets "
  "a node's recorded lookups (reset_dependencies) only on the first visit of the node in a round, "
  "before the scan: what a cell recorded in an attempt aborted by OrderError survives until the "
  "visit that refuses it as circular. Not decided: termination "
  "(the scheduler's progress argument), and the exact set of cells reported.")

LOCKS = "_locked_cells"
SLOCKS = "self._locked_cells"


def check(run, repo, tier):
  canonicalise(repo)
  w = World(repo)
  sc = Scan(w)
  r1_lock_pairing(run, w, sc)
  r2_cycle_flag(run, w, sc)
  r3_unwrapped(run, w)
  r4_edge_before_read(run, w)
  r5_reset_once_per_round(run, w, sc)


# ------------------------------------------------------------------------------------------
def _empty_seq(e):
  if isinstance(e, (ast.List, ast.Tuple)) and not e.elts:
    return True
  return isinstance(e, ast.Call) and dotted(e.func) in ("list", "tuple") and not e.args and \
      not e.keywords


def r1_lock_pairing(run, w, sc):
  R1 = run.rule("C18-R1", "every lock added names the requiring cell and rides in the locks of the "
                "dependency's work item; an interrupted item keeps its locks; locks are released "
                "after every work item; each frame starts unlocked; single owner", floor=13)
  inl = inliner(w)
  own = Owners(w)
  lr = LoopRoles(w)
  fn, cfg, ex = lr.fn, lr.cfg, lr.ex
  ev, hn, hbody, h = lr.ev, lr.hn, lr.hbody, lr.h
  v_node, v_rows, v_locks = lr.v_node, lr.v_rows, lr.v_locks
  du = DefUse(fn, cfg)
  # ---- (a) adds
  adds = [(n, c) for (n, c, nm) in fn.calls(cfg)
          if isinstance(c.func, ast.Attribute) and c.func.attr == "add" and
          ex.norm(c.func.value) == SLOCKS]
  if not adds:
    raise AnalysisError("%s: no self._locked_cells.add(...)" % LOOP)
  pushes = lr.pushes()
  deps = [(n, c, wi) for (n, c, wi) in pushes if wi is not None and
          ex.norm(wi["node"]) == "%s.node" % ev]
  curs = [(n, c, wi) for (n, c, wi) in pushes if wi is not None and lr.is_var(wi["node"], v_node)]
  if len(deps) != 1 or len(curs) != 1:
    raise AnalysisError("%s: handler's two pushes (interrupted item, dependency) not recognised"
                        % LOOP)
  (dn, dc, dwi), (cn, cc, cwi) = deps[0], curs[0]
  def lock_value(e, nid):
    """normalised text of a lock expression evaluated at node nid"""
    return text(value_at(fn, cfg, du, nid, e))
  for (an, ac) in adds:
    a = ac.args[0] if len(ac.args) == 1 and not ac.keywords else None
    in_h = an.id in hbody
    run.ob(R1, fn.qualname, "self._locked_cells.add(<lock>)", "locks are taken only when an "
           "OrderError re-orders work", in_h and a is not None, fi=fn.fi, node=ac, nontrivial=False)
    if not (in_h and a is not None):
      continue
    lv_ = lock_value(a, an.id)
    third = ex.expand(dwi["locks"])
    # the raw third field, element by element, evaluated where the push happens
    raw3, _ = deref_at(fn, cfg, du, dn.id, dwi["locks"])
    elems = [lock_value(e, dn.id) for e in raw3.elts] if isinstance(raw3, (ast.List, ast.Tuple)) \
        else None
    need(elems is not None, "%s: cannot follow the locks of the dependency's work item (`%s`)"
         % (LOOP, short(dwi["locks"])))
    ok = lv_ in elems
    if ok and isinstance(a, ast.Name):
      # same value: the lock variable is not rebound between the push and the add
      reb = du.rebinders(a.id)
      lo, hi = (dn.id, an.id) if an.id in cfg.reach_after({dn.id}, removed=hn) else (an.id, dn.id)
      between = cfg.reach_after({lo}, removed={hi} | hn) & cfg.reach({hi}, removed={lo} | hn,
                                                                  forward=False)
      ok = not (between & reb)
    run.ob(R1, fn.qualname, "self._locked_cells.add(<lock>)  <->  WorkItem(e.node, [e.row_id], [<lock>])",
           "the lock put into the set is the one the dependency's work item will release", ok,
           fi=fn.fi, node=dc,
           witness=None if ok else "lock `%s` is not in the locks of the pushed dependency item" % lv_)
    # both happen on every normal path through the handler
    exits = {m for m in cfg.reach_after(hn) if m not in hbody and m not in hn
             and m != cfg.raise_exit.id}
    ok = not (cfg.reach(set(hn), removed={dn.id}) & exits) and \
        not (cfg.reach(set(hn), removed={an.id}) & exits)
    run.ob(R1, fn.qualname, "handler always both locks and pushes",
           "no lock without an item that will release it, no re-ordering without a lock", ok,
           fi=fn.fi, node=h)
    # identity of the lock: (popped node, e.requiring_row_id)
    lk = value_at(fn, cfg, du, an.id, a)
    n_node = ex.norm(ast.Name(id=v_node, ctx=ast.Load()))
    need(isinstance(lk, ast.Tuple) or not opaque_parts(w, fn.fi, lk),
         "%s: cannot follow what the lock is (`%s`)" % (LOOP, short(lk)))
    ok = isinstance(lk, ast.Tuple) and len(lk.elts) == 2 and \
        text(lk.elts[0]) in (n_node, "%s.requiring_node" % ev) and \
        text(lk.elts[1]) == "%s.requiring_row_id" % ev
    run.ob(R1, fn.qualname, "<lock> = (<node>, e.requiring_row_id)",
           "the locked cell is the interrupted (requiring) cell: meeting it again while its "
           "dependency is being computed is exactly a cycle", ok, fi=fn.fi, node=h,
           witness=None if ok else "the lock is `%s`" % short(lk))
  # ---- (b) interrupted item keeps its locks
  clears = {n.id for n in cfg.nodes if n.id in hbody and n.kind == "stmt" and
            isinstance(n.stmt, ast.Assign) and len(n.stmt.targets) == 1 and
            text(n.stmt.targets[0]) == v_locks and _empty_seq(ex.expand(n.stmt.value))}
  rel_loops = [s for s in real_loops(fn.node.body, ast.For)
               if lr.is_var(s.iter, v_locks) and isinstance(s.target, ast.Name)]
  if len(rel_loops) != 1:
    raise AnalysisError("%s: release loop `for lock in locks` not found" % LOOP)
  rl = rel_loops[0]
  rl_nodes = nodes_for(cfg, rl)
  if not clears:
    und = undissolved(w, fn, cfg, within=hbody)
    need(not und, "%s: the OrderError handler calls `%s`, which cannot be followed"
         % (LOOP, short(und[0]) if und else ""))
  ok = lr.is_var(cwi["locks"], v_locks) and bool(clears) and \
      not (cfg.reach(set(hn), removed=clears) & rl_nodes) and \
      all(cfg.dominated_by(c, {cn.id}) for c in clears)
  run.ob(R1, fn.qualname, "work_items.append(WorkItem(<node>, <rows>, <locks>)); <locks> = []",
         "an interrupted item is re-pushed with its locks and does not release them now: they stay "
         "locked until the item really completes", ok, fi=fn.fi, node=cc,
         witness=None if ok else "a path from the handler reaches the release loop with the "
         "interrupted item's locks still in `%s`" % v_locks)
  # ---- (c) release after every work item
  inner = innermost_loop(fn.node, lr.pop.stmt)
  if inner is None:
    raise AnalysisError("%s: the loop taking work items was not found" % LOOP)
  wh = nodes_for(cfg, inner)
  ok = not (cfg.reach_after({lr.sn.id}, removed=rl_nodes, completed=True) & wh)
  run.ob(R1, fn.qualname, "for <lock> in <locks>: ... after every completed work item",
         "no work item completes without its locks being examined for release", ok, fi=fn.fi,
         node=rl, witness=None if ok else "after _recompute_step returns normally the loop can go "
         "on to the next item without releasing")
  lv = rl.target.id
  rb = nodes_of_stmts(cfg, rl.body)
  rels = {n.id for (n, c, nm) in fn.calls(cfg) if n.id in rb and
          isinstance(c.func, ast.Attribute) and c.func.attr in ("discard", "remove") and
          ex.norm(c.func.value) == SLOCKS and len(c.args) == 1 and text(c.args[0]) == lv}
  # the only way round the release is the `already unlocked` shortcut (any spelling of the guard)
  held = "%s in %s" % (lv, SLOCKS)
  first = {m for hd in rl_nodes for m in cfg.normal_succ(hd) if m in rb}
  fr = Facts(cfg, {held}, ex=ex)
  seen = fr.run([(m, {}) for m in first], stop=rels | rl_nodes)
  bad = [f for hd in rl_nodes for f in seen.get(hd, []) if f.get(held) is not False]
  if not rels or bad:
    und = undissolved(w, fn, cfg, within=rb)
    need(not und, "%s: the release loop calls `%s`, which cannot be followed"
         % (LOOP, short(und[0]) if und else ""))
    ot = opaque_tests(w, fn, cfg, within=rb)
    need(not ot, "%s: the release loop tests `%s`, which cannot be followed"
         % (LOOP, short(ot[0].stmt.test) if ot else ""))
  ok = bool(rels) and not bad and not loop_breaks(rl)
  run.ob(R1, fn.qualname, "self.%s.discard(<lock>) for every lock still held" % LOCKS,
         "a completed work item's locks leave the set (a lock left behind would report later, "
         "innocent readers of the cell as circular)", ok, fi=fn.fi, node=rl)
  # ---- (d) each frame starts unlocked
  pre = inl.fn("engine.Engine._pre_update")
  pex = expander(pre)
  pcfg = pre.cfg
  resets = set()
  for n in pcfg.nodes:
    if n.kind == "stmt" and isinstance(n.stmt, ast.Assign):
      tgs, vals = [], []
      for t in n.stmt.targets:
        if isinstance(t, (ast.Tuple, ast.List)) and isinstance(n.stmt.value, (ast.Tuple, ast.List)) \
            and len(t.elts) == len(n.stmt.value.elts):
          tgs += t.elts
          vals += n.stmt.value.elts
        else:
          tgs.append(t)
          vals.append(n.stmt.value)
      for t, v in zip(tgs, vals):
        v = pex.expand(v)
        if text(t) == SLOCKS and \
            ((isinstance(v, ast.Call) and dotted(v.func) in ("set", "frozenset") and
              not v.args) or (isinstance(v, ast.Set) and not v.elts)):
          resets.add(n.id)
    for c in calls_in(n.exprs):
      if endswith(pre.name(c), "self.%s.clear" % LOCKS):
        resets.add(n.id)
  if not resets:
    und = undissolved(w, pre, pcfg)
    need(not und, "engine.Engine._pre_update: calls `%s`, which cannot be followed"
         % (short(und[0]) if und else ""))
  ok = bool(resets) and pcfg.postdominated_by(pcfg.entry.id, resets)
  run.ob(R1, pre.qualname, "self.%s = set()" % LOCKS, "locks left over from an aborted frame "
         "cannot make the next recalculation report cycles that do not exist", ok, fi=pre.fi)
  # ---- (e) ownership
  allowed = {
    ("engine.Engine.__init__", "rebind"), ("engine.Engine._pre_update", "rebind"),
    ("engine.Engine._pre_update", "clear"),
    (LOOP, "add"), (LOOP, "discard"), (LOOP, "remove"), (LOOP, "read"),
    (STEP, "discard"), (STEP, "read"),
  }
  named = {q for (q, k) in allowed}
  for fi in w.repo.all_functions():
    for site in obj_sites(fi, LOCKS):
      kind = site[0]
      if kind == "call":
        what = site[1]
        node = site[2]
      else:
        what = kind
        node = site[1]
      if kind == "escape":
        raise AnalysisError("%s: _locked_cells escapes (`%s`); ownership cannot be decided"
                            % (fi.qualname, short(node)))
      owners = own.of(fi, named)
      ok = all((q, what) in allowed for q in owners)
      if ok and what != "read":
        followed(inl, fi, owners)
      if not ok and what == "rebind" and is_frame_reset(w, fi, node):
        ok = True       # the frame reset (_pre_update) written in place at the start of a frame
      run.ob(R1, fi.qualname, "%s of %s" % (what, LOCKS), "the lock set is written only by the "
             "scheduler, the evaluation step (unlock on success) and the frame reset",
             ok, fi=fi, node=node, nontrivial=False)


# ------------------------------------------------------------------------------------------
def r2_cycle_flag(run, w, sc):
  R2 = run.rule("C18-R2", "`cycle` is (required and (node, row) in _locked_cells), is handed to "
                "_recompute_one_cell, and makes it raise CircularRefError before any user code, "
                "inside the region that turns exceptions into the cell's value", floor=7)
  fn = sc.fn
  ex = sc.ex
  ev = sc.eval
  onef = w.repo.func(ONE)
  if "cycle" not in onef.params():
    raise AnalysisError("%s: parameter `cycle` vanished" % ONE)
  m = bind_call(ev, onef) or {}
  cy = m.get("cycle")
  explicit = cy is not None and any(cy is x for x in list(ev.args) + [k.value for k in ev.keywords])
  run.ob(R2, fn.qualname, "self._recompute_one_cell(..., cycle=<flag>)", "the evaluation is told "
         "whether the cell is locked", explicit, fi=fn.fi, node=ev, nontrivial=False)
  if explicit:
    cfg = fn.cfg
    du = DefUse(fn, cfg)
    en = sc.eval_nodes(cfg)
    head = sc.head(cfg)
    if len(en) != 1:
      raise AnalysisError("%s: the evaluation call has %d CFG nodes" % (STEP, len(en)))
    e0 = next(iter(en))
    val, at = deref_at(fn, cfg, du, e0, cy)
    if isinstance(cy, ast.Name):
      if isinstance(val, ast.Name):
        raise AnalysisError("%s: `%s` has no single definition reaching the evaluation"
                            % (STEP, cy.id))
      # defined in the same iteration, before the call
      dn = {at}
      ok = all(e in cfg.reach_after(dn, removed={head}) for e in en) and \
          all(cfg.dominated_by(e, dn) for e in en)
      run.ob(R2, fn.qualname, "<flag> = ... before self._recompute_one_cell(...)",
             "the flag handed over is the one computed for this row", ok, fi=fn.fi, node=ev)
    conj = val.values if isinstance(val, ast.BoolOp) and isinstance(val.op, ast.And) else [val]
    member = [c for c in conj if isinstance(c, ast.Compare) and len(c.ops) == 1 and
              isinstance(c.ops[0], ast.In) and ex.norm(c.comparators[0]) == SLOCKS]
    others = [c for c in conj if c not in member]
    if len(member) != 1 or any(not isinstance(o, ast.Name) for o in others):
      raise AnalysisError("%s: cycle flag `%s` is not a recognised shape" % (STEP, short(val)))
    mm = ex.expand(member[0].left)
    ok = isinstance(mm, ast.Tuple) and len(mm.elts) == 2 and text(mm.elts[0]) == sc.p_node and \
        text(mm.elts[1]) == sc.row
    run.ob(R2, fn.qualname, "(<node>, <row>) in self._locked_cells", "the membership test uses the "
           "same (node, row) key shape the scheduler locks with", ok, fi=fn.fi, node=val)
    def is_flag(o):
      if o.id == sc.flag:
        return True
      v = ex.value(o.id)
      return isinstance(v, ast.Name) and v.id == sc.flag
    ok = len(others) == 1 and is_flag(others[0])
    run.ob(R2, fn.qualname, "<required> and (<node>, <row>) in self._locked_cells", "only a row the "
           "scheduler asked for can be a cycle: a "
           "locked cell met opportunistically is merely waiting for its dependency", ok,
           fi=fn.fi, node=val)
  # ---- _recompute_one_cell
  one = inliner(w).fn(ONE)
  oex = expander(one)
  cfg = one.xcfg
  methods = one.nodes_calling(lambda c, nm, f: isinstance(c.func, ast.Attribute) and
                              c.func.attr == "method", cfg)
  if not methods:
    raise AnalysisError("%s: user-code call (col.method) not found" % ONE)
  fr = Facts(cfg, {"cycle"}, ex=oex)
  seen = fr.run([(cfg.entry.id, {"cycle": True})])
  hit = sorted(set(seen) & methods)
  def raised_type(n):
    x = cfg.nodes[n].stmt.exc
    if x is None:
      return None
    x = oex.expand(x)
    return dotted(x.func) if isinstance(x, ast.Call) else dotted(x)
  circ = [n for n in seen if cfg.nodes[n].kind == "raise_stmt" and
          endswith(raised_type(n), "CircularRefError")]
  ok = not hit and bool(circ)
  if not ok:
    und = undissolved(w, one, cfg, within=set(seen))
    need(not und, "%s: calls `%s`, which cannot be followed, before the user code"
         % (ONE, short(und[0]) if und else ""))
    ot = opaque_tests(w, one, cfg)
    need(not ot, "%s: tests `%s`, which cannot be followed" % (ONE, short(ot[0].stmt.test) if ot else ""))
  run.ob(R2, one.qualname, "if cycle: raise depend.CircularRefError(...) before col.method(...)",
         "a cell on a cycle is never evaluated (its formula would read itself); it fails with "
         "CircularRefError instead", ok, fi=one.fi,
         witness=None if ok else ("user code at line %d runs with cycle=True"
                                  % cfg.nodes[hit[0]].lineno if hit else
                                  "no CircularRefError raise reachable with cycle=True"))
  # the raise is converted into the cell's value: inside the try with the bare except, whose
  # non-order-error exit returns RaisedException(<the caught exception>)
  tries = [s for s in stmts_in(one.node.body, ast.Try)
           if any(h.type is None for h in s.handlers)]
  if len(tries) != 1:
    raise AnalysisError("%s: try with a bare except not found" % ONE)
  tr = tries[0]
  tb = nodes_of_stmts(cfg, tr.body)
  for n in circ:
    run.ob(R2, one.qualname, "raise CircularRefError inside try ... except:",
           "the circular-reference error becomes the cell's value, not an engine failure",
           n in tb, fi=one.fi, node=cfg.nodes[n].stmt)
  h = [x for x in tr.handlers if x.type is None][0]
  hb = nodes_of_stmts(cfg, h.body)
  du = DefUse(one, cfg)
  n_rets = 0
  for (n, r, v) in returns_of(one, cfg):
    if n.id not in hb or v is None:
      continue
    n_rets += 1
    ok = True
    raw = None
    for (raw, at) in derefs_at(one, cfg, du, n.id, r.value):
      err = None
      if isinstance(raw, ast.Call) and endswith(dotted(raw.func), "RaisedException"):
        ri = w.repo.funcs.get("objtypes.RaisedException.__init__")
        err = call_arg(raw, ri, ri.params()[1]) if ri is not None else \
            (raw.args[0] if raw.args else None)
      need(err is not None or not opaque_parts(w, one.fi, expander(one).expand(raw)),
           "%s: cannot follow what the error branch returns (`%s`)" % (ONE, short(raw)))
      ok = ok and err is not None and \
          du.flows_from(lambda x: isinstance(x, ast.Call) and dotted(x.func) == "sys.exc_info", err)
    run.ob(R2, one.qualname, "except: ... return objtypes.RaisedException(<the caught error>, ...)",
           "the value stored for a failed cell wraps the exception "
           "that was actually raised (here: the CircularRefError)", ok, fi=one.fi, node=r,
           witness=None if ok else "returns `%s`" % short(raw))
  if not n_rets:
    raise AnalysisError("%s: the error branch returns nothing" % ONE)


# ------------------------------------------------------------------------------------------
NO_STORED_ERRORS = {
  "lookup.NoValueColumn": "lookup-map helper columns store no cell values at all",
}


def r3_unwrapped(run, w):
  R3 = run.rule("C18-R3", "get_cell_value re-raises a stored CircularRefError itself, before the "
                "generic CellError wrapping", floor=4)
  fn = inliner(w).fn("column.BaseColumn.get_cell_value")
  ex = expander(fn)
  cfg = fn.cfg
  du = DefUse(fn, cfg)
  def exc_of(n):
    x = n.stmt.exc
    return ex.expand(x) if x is not None else None
  wraps = [n for n in cfg.nodes if n.kind == "raise_stmt" and isinstance(exc_of(n), ast.Call) and
           endswith(dotted(exc_of(n).func), "CellError")]
  if not wraps:
    raise AnalysisError("get_cell_value: the CellError wrapping raise was not found")
  atoms = {}
  for n in cfg.nodes:
    if n.kind not in ("if", "while"):
      continue
    for t in ast.walk(ex.expand(n.stmt.test)):
      if isinstance(t, ast.Call) and dotted(t.func) == "isinstance" and len(t.args) == 2 and \
          endswith(dotted(t.args[1]), "CircularRefError"):
        atoms[text(t)] = t.args[0]
  need(atoms, "get_cell_value: no test telling a stored CircularRefError apart was found")
  ok_shape = len(atoms) == 1
  run.ob(R3, fn.qualname, "isinstance(<stored>.error, depend.CircularRefError) branch exists",
         "stored circular-reference errors are told apart from other stored errors", ok_shape,
         fi=fn.fi, nontrivial=False)
  if ok_shape:
    (atom, subj), = atoms.items()
    fr = Facts(cfg, {atom}, ex=ex)
    seen = fr.run([(cfg.entry.id, {})])
    rer = [n for n in cfg.nodes if n.kind == "raise_stmt" and exc_of(n) is not None and
           text(exc_of(n)) == text(subj) and n.id in seen and
           all(f.get(atom) is True for f in seen[n.id])]
    ok = bool(rer) and isinstance(subj, ast.Attribute) and subj.attr == "error"
    run.ob(R3, fn.qualname, "if isinstance(<raw>.error, CircularRefError): raise <raw>.error",
           "the original CircularRefError object is re-raised, so the reading cell's value is a "
           "CircularRefError too", ok, fi=fn.fi)
    for wn in wraps:
      ok = wn.id not in seen or all(f.get(atom) is False for f in seen[wn.id])
      run.ob(R3, fn.qualname, "raise objtypes.CellError(..., <raw>.error)", "the generic wrapping "
             "is reached only after the circular-reference test failed", ok, fi=fn.fi,
             node=wn.stmt)
    # the stored value examined is this cell's raw value
    base = subj.value if isinstance(subj, ast.Attribute) else None
    ds = []
    if isinstance(base, ast.Name):
      ds = [ex.expand(d) for d in E.local_defs(fn.node, base.id)]
    elif base is not None:
      ds = [base]
    need(ds or base is None, "get_cell_value: cannot follow where the stored value examined "
         "comes from")
    ok = any(isinstance(d, ast.Call) and isinstance(d.func, ast.Attribute) and
             d.func.attr == "raw_get" and len(d.args) + len(d.keywords) == 1 and
             text((d.args + [k.value for k in d.keywords])[0]) == fn.fi.params()[1] for d in ds)
    run.ob(R3, fn.qualname, "<raw> = self.raw_get(<row>)",
           "the error examined is the one stored in the cell being read", ok, fi=fn.fi)
  # overrides
  base_ci = w.repo.cls("column.BaseColumn")
  for ci in w.repo.subclasses(base_ci, strict=True):
    if "get_cell_value" in ci.methods:
      run.ob(R3, ci.qualname, "override of get_cell_value", "a column class that overrides the "
             "accessor stores no error values", ci.qualname in NO_STORED_ERRORS,
             fi=ci.methods["get_cell_value"], nontrivial=False)


# ------------------------------------------------------------------------------------------
def r4_edge_before_read(run, w):
  R4 = run.rule("C18-R4", "_use_node records the dependency edge (current node -> node read) "
                "before the nested _recompute that may abort the read", floor=2)
  fn = inliner(w).fn("engine.Engine._use_node")
  ex = expander(fn)
  cfg = fn.cfg
  ps = fn.fi.params()
  rec = fn.nodes_calling(lambda c, nm, f: nm == "self._recompute")
  if not rec:       # the body of _recompute written in place
    rec = fn.nodes_calling(lambda c, nm, f: nm in ("self._recompute_step", "self._update_loop"))
  if not rec:
    raise AnalysisError("_use_node: self._recompute call not found")
  adds = set()
  edge_ok = False
  for (n, c, nm) in fn.calls():
    if endswith(nm, "dep_graph.add_edge"):
      adds.add(n.id)
      args = [ex.expand(a.value if isinstance(a, ast.Starred) else a) for a in c.args]
      parts = []
      for a in args:
        parts += a.elts if isinstance(a, ast.Tuple) else [a]
      edge_ok = len(parts) == 3 and text(parts[0]) == "self._current_node" and \
          text(parts[1]) == ps[1] and text(parts[2]) == ps[2]
  if not adds:
    raise AnalysisError("_use_node: dep_graph.add_edge call not found")
  run.ob(R4, fn.qualname, "self.dep_graph.add_edge(self._current_node, node, relation)",
         "the edge recorded says: the cell being computed depends on the node being read",
         edge_ok, fi=fn.fi, nontrivial=False)
  # known-recorded edges need not be added again: `<edge> in self._recompute_edge_set`
  known = set()
  for n in cfg.nodes:
    if n.kind == "if":
      for t in ast.walk(ex.expand(n.stmt.test)):
        if isinstance(t, ast.Compare) and len(t.ops) == 1 and \
            isinstance(t.ops[0], (ast.In, ast.NotIn)) and \
            endswith(dotted(t.comparators[0]), "self._recompute_edge_set"):
          known.add("%s in %s" % (text(t.left), text(t.comparators[0])))
  isf = "self._is_current_node_formula"
  fr = Facts(cfg, known | {isf}, ex=ex)
  seen = fr.run([(cfg.entry.id, {isf: True})], stop=adds)
  bad = [f for r in rec for f in seen.get(r, []) if not any(f.get(k) is True for k in known)]
  ok = not bad
  if bad:
    ot = opaque_tests(w, fn, cfg)
    need(not ot, "_use_node: tests `%s`, which cannot be followed" % (short(ot[0].stmt.test) if ot else ""))
  run.ob(R4, fn.qualname, "dep_graph.add_edge(...) precedes self._recompute(node, row_ids)",
         "a read aborted by OrderError -- or refused for good by the cycle detector -- has already "
         "left its dependency edge, so the reading cell is invalidated when the node changes", ok,
         fi=fn.fi, witness=None if ok else "while a formula node is being computed, _recompute is "
         "reachable before the edge was recorded")


# ------------------------------------------------------------------------------------------
def r5_reset_once_per_round(run, w, sc):
  R5 = run.rule("C18-R5", "_recompute_step forgets the lookups recorded for a node's rows "
                "(dep_graph.reset_dependencies) once per node and round, before the scan -- never "
                "between an aborted attempt and the visit that refuses the cell as circular",
                floor=2)
  fn = sc.fn
  ex = sc.ex
  cfg = fn.cfg
  head = sc.head(cfg)
  body = sc.body_nodes(cfg)
  resets = [(n, c) for (n, c, nm) in fn.calls() if endswith(nm, "reset_dependencies")]
  need(resets, "%s: dep_graph.reset_dependencies call not found" % STEP)
  seen_atom = "%s in self._recompute_done_map" % sc.p_node
  def creates(s_):
    """facts established by creating the node's entry of the done map"""
    if isinstance(s_, ast.Assign):
      for t in s_.targets:
        if isinstance(t, ast.Subscript) and \
            endswith(dotted(ex.expand(t.value)), "_recompute_done_map") and \
            text(t.slice) == sc.p_node:
          return {seen_atom: True}
      v = ex.expand(s_.value)
      if isinstance(v, ast.Call) and isinstance(v.func, ast.Attribute) and \
          v.func.attr == "setdefault" and endswith(dotted(v.func.value), "_recompute_done_map"):
        return {seen_atom: True}
    return {}
  fr = Facts(cfg, {seen_atom}, ex=ex, on_assign=creates)
  seen = fr.run([(cfg.entry.id, {})], stop={head})
  for (n, c) in resets:
    a0 = c.args[0] if c.args else None
    run.ob(R5, fn.qualname, "self.dep_graph.reset_dependencies(node, <rows>)", "the lookups "
           "forgotten are those of the node being visited", a0 is not None and
           ex.norm(a0) == sc.p_node, fi=fn.fi, node=c, nontrivial=False)
    ok = n.id not in body and n.id in seen and \
        all(f.get(seen_atom) is False for f in seen[n.id])
    # ... and the node's entry of the done map exists by the time the scan starts, so that the next
    # visit of this round does not reset again
    at_head = seen.get(head, [])
    ok = ok and bool(at_head) and all(f.get(seen_atom) is True for f in at_head)
    run.ob(R5, fn.qualname, "if node not in self._recompute_done_map: reset_dependencies(...); "
           "create the entry", "what a cell recorded during an attempt aborted by OrderError is "
           "still there when the cell is met again and refused as circular (it is not evaluated "
           "again, so nothing would re-record it): the cells of a cycle keep depending on what "
           "they read", ok, fi=fn.fi, node=c,
           witness=None if ok else ("the reset runs inside the scan (per cell)" if n.id in body else
                                    "the reset is not limited to the first visit of the node in "
                                    "a round"))


EN = "sandbox/grist/engine.py"
VARIANTS = [
  ("lock-not-in-item", EN,
   "work_items.append(WorkItem(e.node, [e.row_id], [lock]))",
   "work_items.append(WorkItem(e.node, [e.row_id], []))", "C18-R1"),
  ("interrupted-item-releases-locks", EN,
   """          work_items.append(WorkItem(node, row_ids, locks))
          locks = []
""",
   """          work_items.append(WorkItem(node, row_ids, locks))
""", "C18-R1"),
  ("locks-never-released", EN,
   """          self._locked_cells.discard(lock)
          # Sanity check: make sure we've computed at least one more cell""",
   """          # Sanity check: make sure we've computed at least one more cell""", "C18-R1"),
  ("frame-keeps-old-locks", EN,
   "    self._recompute_done_map = {}\n    self._locked_cells = set()\n",
   "    self._recompute_done_map = {}\n", "C18-R1"),
  ("lock-on-dependency", EN,
   "          lock = (node, e.requiring_row_id)",
   "          lock = (e.node, e.row_id)", "C18-R1"),
  ("release-only-after-reorder", EN,
   """          self._locked_cells.add(lock)
        # Discard any locks once work item is complete
        for lock in locks:""",
   """          self._locked_cells.add(lock)
        else:
          continue
        # Discard any locks once work item is complete
        for lock in locks:""", "C18-R1"),
  ("cycle-key-swapped", EN,
   "          cycle = required and (node, row_id) in self._locked_cells",
   "          cycle = required and (row_id, node) in self._locked_cells", "C18-R2"),
  ("cycle-not-passed", EN,
   "          value = self._recompute_one_cell(table, col, row_id, cycle=cycle, node=node)",
   "          value = self._recompute_one_cell(table, col, row_id, node=node)", "C18-R2"),
  ("cycle-for-opportunistic-rows", EN,
   "          cycle = required and (node, row_id) in self._locked_cells",
   "          cycle = (node, row_id) in self._locked_cells", "C18-R2"),
  ("cycle-only-for-data-columns", EN,
   """        if cycle:
          raise depend.CircularRefError("Circular Reference")""",
   """        if cycle and not col.is_formula():
          raise depend.CircularRefError("Circular Reference")""", "C18-R2"),
  ("cycle-raised-outside-guard", EN,
   """    value = None
    with self._timing.measure(col.node):
      try:
        if cycle:
          raise depend.CircularRefError("Circular Reference")
        if not col.is_formula():""",
   """    value = None
    if cycle:
      raise depend.CircularRefError("Circular Reference")
    with self._timing.measure(col.node):
      try:
        if not col.is_formula():""", "C18-R2"),
  ("edge-recorded-after-read", EN,
   """    if self._is_current_node_formula:
      # Add an edge to indicate that the node being computed depends on the node passed in.""",
   """    if self.recompute_map.get(node) is not None:
      self._recompute(node, row_ids)
    if self._is_current_node_formula:
      # Add an edge to indicate that the node being computed depends on the node passed in.""",
   "C18-R4"),
  ("lookups-forgotten-on-every-visit", EN,
   "    if node not in self._recompute_done_map:\n      # Before starting to evaluate a formula",
   "    if node not in self._recompute_done_map or allow_evaluation:\n      # Before starting to evaluate a formula",
   "C18-R5"),
  ("circular-error-wrapped", "sandbox/grist/column.py",
   """        raise raw.error
""",
   """        raise objtypes.CellError(self.table_id, self.col_id, row_id, raw.error)
""", "C18-R3"),
  ("circular-test-on-wrapper", "sandbox/grist/column.py",
   """      elif isinstance(raw.error, depend.CircularRefError):""",
   """      elif isinstance(raw, depend.CircularRefError):""", "C18-R3"),
]
